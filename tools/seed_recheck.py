#!/usr/bin/env python3
"""Re-run every claimed check against every seeded defect (scratch copy of /repo HEAD + patch, removed afterwards).

usage: seed_recheck.py [-j N] [seed-id ...]
Updates meta.json of each seed: `checks_now` (non-zero exits with first report lines), `detected_by_now`, `own_property_now`;
the fields written by seed_verify.py at the time the seed was received are left untouched.  Prints one line per seed and a
summary table (also written to /verif/seeded/SUMMARY.md).
"""
import json, multiprocessing, os, shutil, subprocess, sys, tempfile

SEEDED = '/verif/seeded'


def sh(cmd, **kw):
    return subprocess.run(cmd, shell=True, stdout=subprocess.PIPE, stderr=subprocess.STDOUT, text=True, **kw)


def one(sid):
    d = os.path.join(SEEDED, sid)
    meta_p = os.path.join(d, 'meta.json')
    if not os.path.exists(meta_p) or not os.path.exists(os.path.join(d, 'patch.diff')):
        return sid, None
    meta = json.load(open(meta_p))
    tmp = tempfile.mkdtemp(prefix='seedchk-')
    try:
        r = sh(f'git -C /repo archive HEAD scared | tar -x -C {tmp}')
        r = sh(f'cd {tmp} && git apply {d}/patch.diff')
        if r.returncode != 0:
            meta['recheck_error'] = 'patch does not apply to /repo HEAD: ' + r.stdout[-300:]
            json.dump(meta, open(meta_p, 'w'), indent=1)
            return sid, meta
        claimed = [c['property_id'] for c in json.load(open('/verif/MANIFEST.json'))['checks']]
        res = {}
        for p in claimed:
            rc = sh(f'cd /verif && ./check {p} --no-evidence --repo {tmp}')
            lines = [l.strip() for l in rc.stdout.splitlines() if l.startswith('  C') or l.startswith('ANALYSIS-ERROR')]
            res[p] = {'exit': rc.returncode, 'reports': [l[:220] for l in lines[:3]]}
        meta['checks_now'] = {p: v for p, v in res.items() if v['exit'] != 0}
        meta['detected_by_now'] = sorted(p for p, v in res.items() if v['exit'] == 1)
        meta['undecided_now'] = sorted(p for p, v in res.items() if v['exit'] == 2)
        meta['own_property_now'] = res.get(meta['property'], {}).get('exit') == 1
        meta.pop('recheck_error', None)
        json.dump(meta, open(meta_p, 'w'), indent=1)
        return sid, meta
    finally:
        shutil.rmtree(tmp, ignore_errors=True)


def main():
    args = sys.argv[1:]
    jobs = 8
    if '-j' in args:
        i = args.index('-j')
        jobs = int(args[i + 1])
        del args[i:i + 2]
    ids = args or sorted(x for x in os.listdir(SEEDED) if os.path.isdir(os.path.join(SEEDED, x)))
    with multiprocessing.Pool(jobs) as pool:
        out = pool.map(one, ids, chunksize=1)
    done = dict(out)
    for sid in sorted(x for x in os.listdir(SEEDED) if os.path.isdir(os.path.join(SEEDED, x))):      # the summary always covers every seed
        mp_ = os.path.join(SEEDED, sid, 'meta.json')
        if sid not in done and os.path.exists(mp_):
            m_ = json.load(open(mp_))
            if 'checks_now' not in m_:          # imported and never re-checked: the checks recorded at reception
                ck_ = m_.get('checks_on_patched_tree', {})
                m_ = dict(m_, checks_now=ck_, detected_by_now=sorted(p for p, v in ck_.items() if v.get('exit') == 1),
                          undecided_now=sorted(p for p, v in ck_.items() if v.get('exit') == 2), own_property_now=ck_.get(m_['property'], {}).get('exit') == 1)
            done[sid] = m_
    out = sorted(done.items())
    rows = []
    for sid, meta in out:
        if meta is None:
            print(f'{sid}: no meta/patch')
            continue
        own = 'own' if meta.get('own_property_now') else ('other' if meta.get('detected_by_now') else ('undecided' if meta.get('undecided_now') else 'MISSED'))
        print(f'{sid}: valid={meta.get("valid")} {own} detected_by={meta.get("detected_by_now")} undecided={meta.get("undecided_now")} {meta.get("recheck_error", "")}')
        first = ''
        ck = meta.get('checks_now', {})
        for p in [meta['property']] + sorted(ck):
            if p in ck and ck[p]['exit'] == 1 and ck[p]['reports']:
                first = ck[p]['reports'][0].split(' scared')[0]
                break
        rows.append((sid, meta['property'], 'yes' if meta.get('valid') else 'no', own, ', '.join(meta.get('detected_by_now', [])) or '-', first))
    with open(os.path.join(SEEDED, 'SUMMARY.md'), 'w') as f:
        f.write('# Seeded defects vs. current checks (written by tools/seed_recheck.py)\n\n')
        f.write('| seed | property | valid | verdict | detected by | first rule of the own/first check |\n|---|---|---|---|---|---|\n')
        for r in rows:
            f.write('| ' + ' | '.join(r) + ' |\n')
    missed = [r[0] for r in rows if r[3] in ('MISSED', 'undecided')]
    print(f'{len(rows)} seeds, {len(rows) - len(missed)} detected, not detected: {missed}')


if __name__ == '__main__':
    main()
