#!/usr/bin/env python3
"""Receive the mutants of a sub-agent directory: <dir>/MUTANTk/{patch.diff,demo.py,notes.md}; the property is read from the first
line of notes.md (`# Cxx - ...`) or given; ids <prop>-<next free letter>.  Runs tools/seed_verify.py for each (full suite)."""
import os, re, string, subprocess, sys
src = sys.argv[1]
forced = sys.argv[2] if len(sys.argv) > 2 else None
for d in sorted(x for x in os.listdir(src) if x.startswith('MUTANT')):
    md = os.path.join(src, d)
    if not os.path.exists(os.path.join(md, 'patch.diff')):
        continue
    prop = forced
    if prop is None:
        m = re.search(r'C\d\d', open(os.path.join(md, 'notes.md')).readline())
        prop = m.group(0) if m else None
    if prop is None:
        print('no property for', md)
        continue
    marker = os.path.join(md, '.imported')
    if os.path.exists(marker):
        continue
    try:
        os.mkdir(os.path.join(md, '.claim'))          # several importers may walk the same directory
    except FileExistsError:
        continue
    sid = None
    for letter in string.ascii_lowercase:          # reserve the id atomically (several imports may run side by side)
        try:
            os.mkdir(f'/verif/seeded/{prop}-{letter}')
            sid = f'{prop}-{letter}'
            break
        except FileExistsError:
            continue
    r = subprocess.run(['python3', '/verif/tools/seed_verify.py', md, sid, prop], stdout=subprocess.PIPE, stderr=subprocess.STDOUT, text=True)
    open(marker, 'w').write(sid)
    print(sid, r.stdout.strip().splitlines()[0] if r.stdout.strip() else r.stdout)
    sys.stdout.flush()
