#!/usr/bin/env python3
"""Copy sub-agent refactorings (<dir>/REFk/{patch.diff,notes.md}) into selftest/refactorings/<tag>-REFk/.
usage: refactor_import.py <agent dir> <tag> [extra props for all...]"""
import os, shutil, sys
src, tag = sys.argv[1], sys.argv[2]
dst = '/verif/selftest/refactorings'
os.makedirs(dst, exist_ok=True)
n = 0
for d in sorted(os.listdir(src)):
    p = os.path.join(src, d, 'patch.diff')
    if d.startswith('REF') and os.path.exists(p):
        t = os.path.join(dst, f'{tag}-{d}')
        os.makedirs(t, exist_ok=True)
        shutil.copy(p, t)
        if os.path.exists(os.path.join(src, d, 'notes.md')):
            shutil.copy(os.path.join(src, d, 'notes.md'), t)
        n += 1
print(n, 'refactorings imported from', src)
