#!/usr/bin/env python3
"""Run every claimed check against behaviour-preserving refactorings (false-alarm hunt).

usage: refactor_check.py <dir with REFk/patch.diff ...> [...]
For each patch: scratch copy of /repo HEAD's scared/ + patch (removed afterwards), every claimed check with --repo.
Exit 1 of a check on a behaviour-preserving patch is a FALSE ALARM (the checker must be corrected); exit 2 is a robustness gap
(the checker cannot read the new shape).  Prints one line per patch; details for non-zero exits.
"""
import json, multiprocessing, os, shutil, subprocess, sys, tempfile


def sh(cmd):
    return subprocess.run(cmd, shell=True, stdout=subprocess.PIPE, stderr=subprocess.STDOUT, text=True)


def one(path):
    tmp = tempfile.mkdtemp(prefix='refchk-')
    try:
        sh(f'git -C /repo archive HEAD scared | tar -x -C {tmp}')
        r = sh(f'cd {tmp} && git apply {path}')
        if r.returncode != 0:
            return path, 'NOAPPLY', r.stdout[-200:], {}
        claimed = [c['property_id'] for c in json.load(open('/verif/MANIFEST.json'))['checks']]
        res = {}
        for p in claimed:
            rc = sh(f'cd /verif && ./check {p} --no-evidence --repo {tmp}')
            if rc.returncode != 0:
                lines = [l.strip() for l in rc.stdout.splitlines() if l.startswith('  C') or l.startswith('ANALYSIS-ERROR') or l.startswith('      ')]
                res[p] = (rc.returncode, lines[:6])
        return path, 'ok', '', res
    finally:
        shutil.rmtree(tmp, ignore_errors=True)


def main():
    patches = []
    for d in sys.argv[1:]:
        for root, dirs, files in os.walk(d):
            if 'wt' in dirs:
                dirs.remove('wt')
            for f in files:
                if f == 'patch.diff':
                    patches.append(os.path.join(root, f))
    patches.sort()
    with multiprocessing.Pool(8) as pool:
        out = pool.map(one, patches, chunksize=1)
    alarms = gaps = recorded = 0
    for path, st, err, res in out:
        title = ''
        n = os.path.join(os.path.dirname(path), 'notes.md')
        if os.path.exists(n):
            title = open(n).readline().strip()
        if st != 'ok':
            print(f'{path}: {st} {err}')
            continue
        a = [p for p, (c, _) in res.items() if c == 1]
        g = [p for p, (c, _) in res.items() if c == 2]
        # robustness gaps recorded with the refactoring (undecided.txt: the properties whose check cannot read the new shape)
        rec_f = os.path.join(os.path.dirname(path), 'undecided.txt')
        rec = set(open(rec_f).read().split()) if os.path.exists(rec_f) else set()
        known_g = [p for p in g if p in rec]
        g = [p for p in g if p not in rec]
        recovered = sorted(rec - set(known_g))
        alarms += bool(a)
        gaps += bool(g)
        recorded += bool(known_g)
        print(f'{path}: {"FALSE-ALARM " + ",".join(a) if a else ""} {"UNDECIDED " + ",".join(g) if g else ""}{"undecided as recorded " + ",".join(known_g) if known_g else ""}'
              f'{"silent" if not res else ""}{"  (recorded gap now decided: " + ",".join(recovered) + ")" if recovered else ""}   {title[:90]}')
        for p, (c, lines) in res.items():
            if p in known_g:
                continue
            for l in lines:
                print(f'      [{p}] {l[:260]}')
    print(f'{len(out)} refactorings: {alarms} with a false alarm, {gaps} with an undecided check, {recorded} with a recorded robustness gap (undecided, never a violation)')


if __name__ == '__main__':
    main()
