#!/usr/bin/env python3
"""Run the repository's pinned test suite in a directory (default /repo) and compare with BASELINE.json's stable_pass.

usage: baseline.py [dir] [-n JOBS] [pytest args...]
Exit 0 iff every stable test that was selected passed.  Not a property check: a development helper, also used as
MANIFEST.hooks.baseline_off_cmd (there are no hooks, so "guard off" is the plain suite).
"""
import json, os, subprocess, sys, tempfile, xml.etree.ElementTree as ET


def main():
    args = sys.argv[1:]
    d = '/repo'
    if args and os.path.isdir(args[0]):
        d = args.pop(0)
    jobs = None
    if args and args[0] == '-n':
        jobs = args[1]
        args = args[2:]
    stable = set(json.load(open('/root/.vp/BASELINE.json'))['stable_pass'])
    with tempfile.TemporaryDirectory() as tmp:
        xml = os.path.join(tmp, 'junit.xml')
        cmd = ['/venv/bin/python', '-m', 'pytest', '-q', '-p', 'no:cacheprovider', '--timeout=900',
               '--continue-on-collection-errors', '--junitxml=' + xml]
        if jobs:
            cmd += ['-n', jobs]
        cmd += args
        env = dict(os.environ)
        env.pop('SCARED_VERIF', None)
        r = subprocess.run(cmd, cwd=d, env=env, stdout=subprocess.PIPE, stderr=subprocess.STDOUT, text=True)
        passed, failed = set(), set()
        for tc in ET.parse(xml).getroot().iter('testcase'):
            tid = (tc.get('classname') or '') + '::' + (tc.get('name') or '')
            bad = any(c.tag in ('failure', 'error') for c in tc)
            skipped = any(c.tag == 'skipped' for c in tc)
            if bad:
                failed.add(tid)
            elif not skipped:
                passed.add(tid)
    seen = passed | failed
    lost = sorted(t for t in stable if t in failed)
    missing = sorted(t for t in stable if t not in seen)
    print(f'dir={d} passed={len(passed)} failed={len(failed)} stable={len(stable)} '
          f'stable_failed={len(lost)} stable_not_run={len(missing)}')
    for t in lost[:50]:
        print('  STABLE-FAILED', t)
    if not args and missing:
        for t in missing[:20]:
            print('  STABLE-NOT-RUN', t)
    if lost or (not args and missing):
        print(r.stdout[-3000:])
        return 1
    return 0


if __name__ == '__main__':
    sys.exit(main())
