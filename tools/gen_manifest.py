#!/usr/bin/env python3
"""Generate MANIFEST.json from tools/claims.py (keeps the file schema-valid at all times)."""
import json, os, sys
here = os.path.dirname(os.path.abspath(__file__))
sys.path.insert(0, here)
from claims import CLAIMS, NOT_APPLICABLE, ADDENDA, ADDENDA5  # noqa: E402

props = [json.loads(l)['id'] for l in open(os.path.join(here, '..', 'properties.jsonl'))]
checks = []
for pid in props:
    if pid not in CLAIMS:
        continue
    c = CLAIMS[pid]
    checks.append({
        'property_id': pid,
        'quick_cmd': f'./check {pid} --tier quick',
        'thorough_cmd': f'./check {pid} --tier thorough',
        'evidence_file': f'evidence/{pid}.json',
        'replay_cmd_template': f'./check {pid} --replay {{path}}',
        'engine': 'sa',
        'level_claimed': {'category': 'other', 'text': c['text'] + ADDENDA.get(pid, '') + ADDENDA5.get(pid, '') + ADDENDA5['ALL'], 'design_ref': 'DESIGN.md section ' + c['ref']},
        'level_note': c['note'],
        'technique': c['technique'],
    })
na = []
for pid in props:
    if pid in CLAIMS:
        continue
    reason = NOT_APPLICABLE.get(pid, 'check not built yet in this round (see DESIGN.md section 4 for the planned clauses)')
    na.append({'property_id': pid, 'reason': reason})
manifest = {
    'version': 1,
    'setup_cmd': 'sh ./setup.sh',
    'hooks': {
        'guard': 'SCARED_VERIF',
        'enable': 'none: static analysis reads the source tree, no instrumentation or guarded code exists in /repo',
        'baseline_off_cmd': 'cd /repo && /venv/bin/python -m pytest -ra -q -p no:cacheprovider --timeout=900 --continue-on-collection-errors',
        'source_commits': [],
        'add_only': True,
    },
    'engines': [
        {'name': 'sa', 'path': 'sa/', 'serves_properties': [c['property_id'] for c in checks],
         'kind_free_text': 'repository-specific static analysis on Python ast: program model with C3 MRO (E0), path/effect '
                           'enumeration with exception edges (E1), alias/freshness (E2), axis-label typing (E3), bit-provenance '
                           'dataflow (E4), literal tables vs generated FIPS tables (E5), numba kernel rules (E6), registries (E7), '
                           'validator rules (E8), partial evaluation of configuration code over its finite domain with cipher data opaque (E9), '
                           'axis-layout interpretation over (rank, axis) configurations (E10), AST inlining / normal forms / guard-clause structuring (E11), trace-count exponents and '
                           'dimensional analysis (E12), provenance arrays and xor-term evaluation of the key expansion (E13), exact-cancellation abstraction (E14), algebraic value numbering: rational-function normal forms of statistics over '
                           'symbolic accumulators / tensors with uninterpreted log (E15). No repository code is imported or executed.'},
    ],
    'checks': checks,
    'not_applicable': na,
    'notes': 'All checks are static (family: static analysis). Exit 0 = every obligation decided and holds (open known findings '
             'printed as KNOWN-FINDING); exit 1 = VIOLATION line; exit 2 = ANALYSIS-ERROR (anchor vanished / undecidable / floor). '
             'Genuine defects found were repaired in /repo as "fix:" commits and are listed under "fixed" in known_findings.json.',
}
json.dump(manifest, open(os.path.join(here, '..', 'MANIFEST.json'), 'w'), indent=1)
try:
    import jsonschema
    jsonschema.validate(manifest, json.load(open('/root/.vp/MANIFEST.schema.json')))
    print('MANIFEST.json valid;', len(checks), 'checks,', len(na), 'not applicable')
except ImportError:
    print('MANIFEST.json written (jsonschema not available)')
