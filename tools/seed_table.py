#!/usr/bin/env python3
"""Regenerate the seeded-defect table of DESIGN.md (between the SEEDTABLE markers) from seeded/*/meta.json + notes.md."""
import json, os, re
S = '/verif/seeded'
rows = []
for sid in sorted(os.listdir(S)):
    d = os.path.join(S, sid)
    mp = os.path.join(d, 'meta.json')
    if not os.path.isdir(d) or not os.path.exists(mp):
        continue
    m = json.load(open(mp))
    title = ''
    np_ = os.path.join(d, 'notes.md')
    if os.path.exists(np_):
        title = open(np_).readline().strip().lstrip('# ')
        title = re.sub(r'^(C\d+\s*/\s*)?(MUTANT|mutant)\s*\d\s*[-:]\s*', '', title)
        title = re.sub(r'^C\d+\s+mutant\s*\d\s*[-:]\s*', '', title)
    ck = m.get('checks_now', m.get('checks_on_patched_tree', {}))
    det = m.get('detected_by_now', m.get('detected_by', []))
    rules = []
    for p in det:
        for r in ck.get(p, {}).get('reports', [])[:1]:
            rules.append(r.split(' ')[0])
    own = m['property'] in det
    rows.append(f"| {sid} | {title[:110].replace('|', '/')} | {', '.join(det) or ('undecided: ' + ', '.join(m.get('undecided_now', [])) if m.get('undecided_now') else 'MISSED')} | {', '.join(sorted(set(rules)))} | {'yes' if own else 'no'} |")
table = '| seed | change | caught by | first rule(s) | own property |\n|---|---|---|---|---|\n' + '\n'.join(rows)
p = '/verif/DESIGN.md'
s = open(p).read()
if 'SEEDTABLE' in s and '<!-- SEEDTABLE-BEGIN -->' not in s:
    s = s.replace('SEEDTABLE', '<!-- SEEDTABLE-BEGIN -->\n<!-- SEEDTABLE-END -->', 1)
s = re.sub(r'<!-- SEEDTABLE-BEGIN -->.*?<!-- SEEDTABLE-END -->', lambda _: '<!-- SEEDTABLE-BEGIN -->\n' + table + '\n<!-- SEEDTABLE-END -->', s, flags=re.S)
open(p, 'w').write(s)
print(len(rows), 'seeds in table')
