#!/usr/bin/env python3
"""Verify and record a seeded defect produced by a sub-agent.

usage: seed_verify.py <agent_dir>/<MUTANTk> <seed-id> <PROP> [--tests <pytest args...>]
Creates a scratch worktree of /repo HEAD (removed afterwards), checks: demo exits 0 on the clean tree, patch applies, demo
exits 1 with the patch, the selected tests (default: full pinned suite, sequential) keep every stable test passing; then runs
./check <PROP> (and every other claimed property) against the patched tree.  Writes /verif/seeded/<seed-id>/ (patch.diff,
demo.py, notes.md, meta.json).
"""
import json, os, shutil, subprocess, sys, tempfile, time

src, sid, prop = sys.argv[1], sys.argv[2], sys.argv[3].upper()
tests = sys.argv[sys.argv.index('--tests') + 1:] if '--tests' in sys.argv else []
out = f'/verif/seeded/{sid}'
os.makedirs(out, exist_ok=True)
for fn in ('patch.diff', 'demo.py', 'notes.md'):
    if os.path.exists(os.path.join(src, fn)):
        shutil.copy(os.path.join(src, fn), os.path.join(out, fn))
wt = tempfile.mkdtemp(prefix='seedwt-')
os.rmdir(wt)
meta = {'id': sid, 'property': prop, 'source': 'fresh sub-agent given only the property text and its own worktree'}


def sh(cmd, **kw):
    return subprocess.run(cmd, shell=True, stdout=subprocess.PIPE, stderr=subprocess.STDOUT, text=True, **kw)


try:
    r = sh(f'git -C /repo worktree add -q --detach {wt} HEAD')
    assert r.returncode == 0, r.stdout
    head = sh('git -C /repo rev-parse --short HEAD').stdout.strip()
    meta['repo_head'] = head
    env = dict(os.environ, PYTHONPATH=wt)
    r0 = sh(f'cd {wt} && /venv/bin/python {out}/demo.py', env=env)
    meta['demo_clean_exit'] = r0.returncode
    ra = sh(f'git -C {wt} apply {out}/patch.diff')
    meta['patch_applies'] = ra.returncode == 0
    if ra.returncode != 0:
        meta['error'] = ra.stdout[-500:]
    else:
        r1 = sh(f'cd {wt} && /venv/bin/python {out}/demo.py', env=env)
        meta['demo_patched_exit'] = r1.returncode
        meta['demo_patched_output_tail'] = r1.stdout[-600:]
        t0 = time.time()
        rt = sh(f'/venv/bin/python /verif/tools/baseline.py {wt} ' + ' '.join(tests))
        line = [l for l in rt.stdout.splitlines() if l.startswith('dir=')]
        lost = [l.split()[-1] for l in rt.stdout.splitlines() if 'STABLE-FAILED' in l]
        if lost and len(lost) <= 5:
            # re-run the lost tests alone (some tests are sensitive to machine load): flaky if they pass in isolation
            ids = ' '.join(t.split('::')[0].replace('.', '/') + '.py::' + t.split('::')[1] for t in lost)
            rr = sh(f'cd {wt} && /venv/bin/python -m pytest -q -p no:cacheprovider {ids}')
            meta['rerun_of_lost_tests'] = {'tests': lost, 'tail': rr.stdout.strip().splitlines()[-1] if rr.stdout.strip() else '', 'ok': rr.returncode == 0}
            if rr.returncode == 0:
                rt.returncode = 0
        meta['tests'] = {'selection': tests or 'full pinned suite (sequential)', 'summary': line[0] if line else rt.stdout[-300:],
                         'ok': rt.returncode == 0, 'wall_s': round(time.time() - t0)}
        # my checks against the patched tree
        claimed = [c['property_id'] for c in json.load(open('/verif/MANIFEST.json'))['checks']]
        res = {}
        for p in claimed:
            rc = sh(f'cd /verif && ./check {p} --no-evidence --repo {wt}')
            viol = [l for l in rc.stdout.splitlines() if l.startswith('  C')]
            res[p] = {'exit': rc.returncode, 'reports': [v.strip()[:200] for v in viol[:4]]}
        meta['checks_on_patched_tree'] = {p: v for p, v in res.items() if v['exit'] != 0}
        meta['detected_by'] = sorted(p for p, v in res.items() if v['exit'] == 1)
        meta['detected_by_own_property'] = res.get(prop, {}).get('exit') == 1
    meta['valid'] = bool(meta.get('demo_clean_exit') == 0 and meta.get('patch_applies') and meta.get('demo_patched_exit') == 1
                         and meta.get('tests', {}).get('ok'))
finally:
    sh(f'git -C /repo worktree remove --force {wt}')
    shutil.rmtree(wt, ignore_errors=True)
json.dump(meta, open(os.path.join(out, 'meta.json'), 'w'), indent=1)
print(json.dumps({k: meta.get(k) for k in ('id', 'valid', 'demo_clean_exit', 'demo_patched_exit', 'detected_by', 'detected_by_own_property')}, indent=None))
print('   tests:', meta.get('tests', {}).get('summary'))
for p, v in meta.get('checks_on_patched_tree', {}).items():
    print('   ', p, 'exit', v['exit'], (v['reports'] or [''])[0][:160])
