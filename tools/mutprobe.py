#!/usr/bin/env python3
"""Blind-spot probe (development aid, not a registered check): generate first-order AST mutants of one source file of /repo, run
the given property checks on a scratch copy of each, list the survivors per function.  A survivor is NOT necessarily a property
violation (many mutants are equivalent, or change behaviour no property speaks about); the list is read by a human to find
clauses worth adding.

usage: mutprobe.py <relative file under /repo> <PROP>[,<PROP>...] [-j N] [--only FUNC_SUBSTRING]
"""
import ast, copy, multiprocessing, os, shutil, subprocess, sys, tempfile

REPO = '/repo'


class Site:
    def __init__(self, desc, apply):
        self.desc, self.apply = desc, apply


def enumerate_mutants(tree, only=None):
    """-> [(function qualname, lineno, description, mutator(tree_copy_node_lookup))] using node paths"""
    out = []
    funcs = []

    def visit(node, prefix):
        for ch in ast.iter_child_nodes(node):
            if isinstance(ch, (ast.FunctionDef, ast.AsyncFunctionDef)):
                funcs.append((prefix + ch.name, ch))
                visit(ch, prefix + ch.name + '.')
            elif isinstance(ch, ast.ClassDef):
                visit(ch, prefix + ch.name + '.')
    visit(tree, '')
    seen_nodes = set()
    for qual, fn in funcs:
        if only and only not in qual:
            continue
        nested = {id(n) for ch in ast.walk(fn) if ch is not fn and isinstance(ch, (ast.FunctionDef, ast.AsyncFunctionDef)) for n in ast.walk(ch)}
        for n in ast.walk(fn):
            if id(n) in nested or id(n) in seen_nodes:
                continue
            seen_nodes.add(id(n))
            ln = getattr(n, 'lineno', 0)
            if isinstance(n, ast.Compare) and len(n.ops) == 1:
                flips = {ast.Lt: ast.LtE, ast.LtE: ast.Lt, ast.Gt: ast.GtE, ast.GtE: ast.Gt, ast.Eq: ast.NotEq, ast.NotEq: ast.Eq}
                t = type(n.ops[0])
                if t in flips:
                    out.append((qual, ln, f'CMP {t.__name__}->{flips[t].__name__}', ('cmp', n, flips[t])))
            elif isinstance(n, ast.BinOp):
                sw = {ast.Add: ast.Sub, ast.Sub: ast.Add, ast.Mult: ast.Div, ast.Div: ast.Mult, ast.FloorDiv: ast.Div, ast.LShift: ast.RShift, ast.RShift: ast.LShift}
                t = type(n.op)
                if t in sw:
                    out.append((qual, ln, f'BINOP {t.__name__}->{sw[t].__name__}', ('binop', n, sw[t])))
                if t in (ast.Sub, ast.Div, ast.MatMult, ast.FloorDiv, ast.Mod):
                    out.append((qual, ln, f'OPSWAP {t.__name__}', ('opswap', n, None)))
            elif isinstance(n, ast.Constant) and isinstance(n.value, int) and not isinstance(n.value, bool) and -2 <= n.value <= 16:
                out.append((qual, ln, f'CONST {n.value}->{n.value + 1}', ('const', n, n.value + 1)))
                if n.value != 0:
                    out.append((qual, ln, f'CONST {n.value}->{n.value - 1}', ('const', n, n.value - 1)))
            elif isinstance(n, ast.AugAssign) and isinstance(n.op, (ast.Add, ast.Sub)):
                out.append((qual, ln, 'AUG += -> =', ('aug', n, None)))
            elif isinstance(n, ast.BoolOp):
                out.append((qual, ln, f'BOOL {type(n.op).__name__} flipped', ('bool', n, None)))
            elif isinstance(n, ast.UnaryOp) and isinstance(n.op, ast.Not):
                out.append((qual, ln, 'NOT removed', ('not', n, None)))
            elif isinstance(n, ast.Call) and len(n.args) == 2 and not any(isinstance(a, ast.Starred) for a in n.args) and not isinstance(n.func, ast.Name) or \
                    isinstance(n, ast.Call) and len(n.args) == 2 and isinstance(n.func, ast.Name) and n.func.id not in ('isinstance', 'range', 'hasattr', 'getattr'):
                out.append((qual, ln, 'ARGSWAP', ('argswap', n, None)))
            if isinstance(n, (ast.Expr, ast.Assign, ast.AugAssign)) and not (isinstance(n, ast.Expr) and isinstance(n.value, ast.Constant)):
                if not (isinstance(n, ast.Expr) and isinstance(n.value, ast.Call) and ast.unparse(n.value.func).split('.')[0] in ('logger', '_logger', 'logging')):
                    out.append((qual, ln, 'STMTDEL', ('del', n, None)))
        # swap adjacent simple statements
        for blk_owner in ast.walk(fn):
            if id(blk_owner) in nested:
                continue
            for field in ('body', 'orelse'):
                blk = getattr(blk_owner, field, None)
                if isinstance(blk, list):
                    for i in range(len(blk) - 1):
                        a, b = blk[i], blk[i + 1]
                        if isinstance(a, (ast.Assign, ast.AugAssign, ast.Expr)) and isinstance(b, (ast.Assign, ast.AugAssign, ast.Expr)) and not (isinstance(a, ast.Expr) and isinstance(a.value, ast.Constant)):
                            out.append((qual, getattr(a, 'lineno', 0), 'STMTSWAP with next', ('swap', (blk_owner, field, i), None)))
    return out


def apply(tree, nodes, idx, spec):
    """tree: deep copy; nodes: list(ast.walk(original)) index map"""
    kind, node, arg = spec
    walk = list(ast.walk(tree))
    if kind == 'swap':
        owner, field, i = node
        o = walk[idx[id(owner)]]
        blk = getattr(o, field)
        blk[i], blk[i + 1] = blk[i + 1], blk[i]
        return
    n = walk[idx[id(node)]]
    if kind == 'cmp':
        n.ops = [arg()]
    elif kind == 'binop':
        n.op = arg()
    elif kind == 'opswap':
        n.left, n.right = n.right, n.left
    elif kind == 'const':
        n.value = arg
    elif kind == 'aug':
        new = ast.Assign(targets=[n.target], value=n.value)
        ast.copy_location(new, n)
        replace(tree, n, new)
    elif kind == 'bool':
        n.op = ast.Or() if isinstance(n.op, ast.And) else ast.And()
    elif kind == 'not':
        replace(tree, n, n.operand)
    elif kind == 'argswap':
        n.args = [n.args[1], n.args[0]]
    elif kind == 'del':
        new = ast.Pass()
        ast.copy_location(new, n)
        replace(tree, n, new)


def replace(tree, old, new):
    for p in ast.walk(tree):
        for f, v in ast.iter_fields(p):
            if v is old:
                setattr(p, f, new)
                return
            if isinstance(v, list):
                for i, x in enumerate(v):
                    if x is old:
                        v[i] = new
                        return


def run_one(job):
    rel, props, src = job
    tmp = tempfile.mkdtemp(prefix='mutprobe-')
    try:
        subprocess.run(f'git -C {REPO} archive HEAD scared | tar -x -C {tmp}', shell=True, check=True)
        open(os.path.join(tmp, rel), 'w').write(src)
        res = {}
        for p in props:
            r = subprocess.run(f'cd /verif && ./check {p} --no-evidence --repo {tmp}', shell=True, stdout=subprocess.PIPE, stderr=subprocess.STDOUT, text=True)
            res[p] = r.returncode
        return res
    finally:
        shutil.rmtree(tmp, ignore_errors=True)


def main():
    rel, props = sys.argv[1], sys.argv[2].split(',')
    j = int(sys.argv[sys.argv.index('-j') + 1]) if '-j' in sys.argv else 12
    only = sys.argv[sys.argv.index('--only') + 1] if '--only' in sys.argv else None
    src = open(os.path.join(REPO, rel)).read()
    tree = ast.parse(src)
    idx = {id(n): i for i, n in enumerate(ast.walk(tree))}
    muts = enumerate_mutants(tree, only)
    jobs, meta = [], []
    for qual, ln, desc, spec in muts:
        t = copy.deepcopy(tree)
        try:
            apply(t, None, idx, spec)
            ast.fix_missing_locations(t)
            code = ast.unparse(t)
            compile(code, rel, 'exec')
        except Exception:
            continue
        jobs.append((rel, props, code))
        meta.append((qual, ln, desc))
    # the unparsed but unmutated file must be silent (ast.unparse drops comments / formatting only)
    base = run_one((rel, props, ast.unparse(tree)))
    print(f'# {rel}: {len(jobs)} mutants, baseline (unparsed, unmutated) {base}')
    with multiprocessing.Pool(j) as pool:
        results = pool.map(run_one, jobs, chunksize=4)
    lines = src.splitlines()
    surv = 0
    by_fn = {}
    for (qual, ln, desc), res in zip(meta, results):
        if all(v == 0 for v in res.values()):
            surv += 1
            by_fn.setdefault(qual, []).append((ln, desc))
    print(f'# survivors {surv} of {len(jobs)}')
    for qual, lst in by_fn.items():
        print(f'== {qual}')
        for ln, desc in sorted(lst):
            print(f'   {ln}: {desc:24s} | {lines[ln - 1].strip()[:110] if 0 < ln <= len(lines) else ""}')


if __name__ == '__main__':
    main()
