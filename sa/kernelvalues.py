"""Accumulation kernels decided by value numbering (E15, mixed mode): the traces are symbolic cells, the class indices concrete.

For a batch of T symbolic traces of S samples and an index array (values -1 = "no declared class", 0..P-1) the accumulators a
kernel leaves behind must be, cell by cell, the definition:

    partitioned:  sum[s, w, p] = sum_{t: idx[t, w] == p} x[t, s]      sum_square[s, w, p] = sum_{...} x[t, s]^2      counters[w, p] = #{t: idx[t, w] == p}
    template:     exi[p, s]    = sum_{t: idx[t, 0] == p} x[t, s]      exxi[p, s, s']      = sum_{...} x[t, s] x[t, s']  counters[p]    = #{t: idx[t, 0] == p}

added to whatever the accumulators held before (symbolic previous contents).  Every kernel selectable at a dispatch site is
compared with the same definition, so the result does not depend on which one ran on which batch, traces without a declared class
contribute nowhere, and class p is class *position* p.  The interpreter is sa.symtensor (loops over concrete ranges, `prange` as
`range`, the precision scalar type as the identity, boolean masks concrete, `@` on object arrays)."""
import ast
import itertools

from . import symtensor, ratfun
from .model import norm

np = symtensor.np
Q = ratfun.Q


def _sym_array(prefix, shape):
    a = np.empty(shape, dtype=object)
    for idx in np.ndindex(*shape):
        a[idx] = Q.sym(prefix + ''.join(map(str, idx)))
    return a


def index_batteries(T, W, P, full):
    """index arrays (T, W) over {-1, 0..P-1}: every assignment when small, else a covering sample"""
    vals = list(range(-1, P))
    allv = itertools.product(vals, repeat=T * W)
    out = []
    for i, v in enumerate(allv):
        if full or i % 7 == 0 or len(set(v)) == 1:
            out.append(np.array(v, dtype=np.int64).reshape(T, W))
    return out


def thread_counts(f):
    """worker-thread counts to interpret the kernel for: (None,) unless it asks for the number of threads"""
    asks = any(isinstance(c, ast.Call) and isinstance(c.func, ast.Attribute) and c.func.attr in ('get_num_threads', 'get_thread_id') for c in ast.walk(f.node))
    return (1, 2, 3, 4) if asks else (None,)


def run_kernel(prog, f, roles, traces, data, acc, nthreads=None):
    """interpret kernel f with its parameters bound by role: roles maps parameter name -> 'traces' | 'data' | accumulator key | 'precision'"""
    te = symtensor.TensorEval(prog, f.cls, {})
    bind = {}
    for p, r in roles.items():
        if r == 'traces':
            bind[p] = traces.copy()
        elif r == 'data':
            bind[p] = data.copy()
        elif r == 'precision':
            bind[p] = ('CAST',)
        else:
            bind[p] = acc[r]

    def hook(e, fn_, env, ev):
        fn = e.func
        if isinstance(fn, ast.Name) and isinstance(env.get(fn.id), tuple) and env.get(fn.id) == ('CAST',) and len(e.args) == 1:
            return ev.ev(fn_, e.args[0], env)                      # precision(x): the value, in the working precision
        if isinstance(fn, ast.Attribute) and fn.attr == 'prange' and norm(fn.value) in ('_nb', 'nb', 'numba'):
            return range(*[int(ev.ev(fn_, a, env)) for a in e.args])
        if isinstance(fn, ast.Attribute) and fn.attr == 'get_num_threads' and norm(fn.value) in ('_nb', 'nb', 'numba') and nthreads is not None and not e.args:
            return nthreads
        if isinstance(fn, ast.Attribute) and fn.attr == 'astype' and len(e.args) == 1 and isinstance(e.args[0], ast.Name) and env.get(e.args[0].id) == ('CAST',):
            v = ev.ev(fn_, fn.value, env)
            return v.copy() if isinstance(v, np.ndarray) else v
        return NotImplemented
    te.call_hook = hook
    te.run(f, bind)
    return acc


def roles_of(f, accs):
    """parameter roles by name: traces / data / precision / accumulators (accs: substring -> key, longest match first)"""
    roles = {}
    for p in f.params:
        if p == 'self':
            continue
        if p == 'traces':
            roles[p] = 'traces'
        elif p == 'data':
            roles[p] = 'data'
        elif 'precision' in p:
            roles[p] = 'precision'
        else:
            hit = [k for sub, k in sorted(accs.items(), key=lambda kv: -len(kv[0])) if p.endswith(sub) or p == sub]
            if len(hit) >= 1:
                roles[p] = hit[0]
            else:
                return None
    return roles


def check_partitioned(prog, kernels_, tier='quick'):
    """-> [(Func, None | message)] for the partitioned accumulation kernels"""
    T, S, W, P = 3, 3, 2, 2
    out = []
    bats = index_batteries(T, W, P, full=(tier == 'thorough'))
    traces = _sym_array('x', (T, S))
    for f in kernels_:
        roles = roles_of(f, {'sum_square': 'sum_square', 'sum': 'sum', 'counters': 'counters'})
        if roles is None or set(roles.values()) < {'traces', 'data', 'sum', 'sum_square', 'counters'}:
            out.append((f, ('undecided', 'parameter roles (traces, data, sum, sum_square, counters, precision) not recognised'), 0))
            continue
        msg = None
        n = 0
        try:
            for data, nt in itertools.product(bats, thread_counts(f)):
                acc = {'sum': _sym_array('a', (S, W, P)), 'sum_square': _sym_array('b', (S, W, P)), 'counters': _sym_array('c', (W, P))}
                prev = {k: v.copy() for k, v in acc.items()}
                run_kernel(prog, f, roles, traces, data, acc, nt)
                n += 1
                for w in range(W):
                    for p in range(P):
                        sel = [t for t in range(T) if data[t, w] == p]
                        if not (Q.lift(acc['counters'][w, p]) - prev['counters'][w, p]).same(Q.const(len(sel))) and msg is None:
                            msg = f'class indices {data.tolist()}: counters[{w}, {p}] grows by something else than the number ({len(sel)}) of traces whose word {w} has class position {p}'
                        for s in range(S):
                            want = Q.const(0)
                            want2 = Q.const(0)
                            for t in sel:
                                want = want + traces[t, s]
                                want2 = want2 + traces[t, s] * traces[t, s]
                            if not (Q.lift(acc['sum'][s, w, p]) - prev['sum'][s, w, p]).same(want) and msg is None:
                                msg = f'class indices {data.tolist()}: sum[{s}, {w}, {p}] does not grow by the sum of sample {s} over exactly the traces whose word {w} has class position {p} (traces {sel})'
                            if not (Q.lift(acc['sum_square'][s, w, p]) - prev['sum_square'][s, w, p]).same(want2) and msg is None:
                                msg = f'class indices {data.tolist()}: sum_square[{s}, {w}, {p}] does not grow by the sum of squares of sample {s} over exactly the traces whose word {w} has class position {p} (traces {sel})'
                if msg:
                    break
        except (ratfun.Unknown, symtensor.Raised) as e:
            out.append((f, ('undecided', f'kernel not evaluable: {e}'), n))
            continue
        except (IndexError, ValueError, TypeError) as e:
            msg = msg or f'the kernel fails on a small symbolic batch ({type(e).__name__}: {e})'
        out.append((f, ('violated', msg) if msg else None, n))
    return out


def check_template(prog, kernels_, tier='quick'):
    T, S, P = 3, 3, 2
    out = []
    bats = index_batteries(T, 1, P, full=True)
    traces = _sym_array('x', (T, S))
    for f in kernels_:
        roles = roles_of(f, {'exxi': 'exxi', 'exi': 'exi', 'counters': 'counters'})
        if roles is None or set(roles.values()) < {'traces', 'data', 'exi', 'exxi', 'counters'}:
            out.append((f, ('undecided', 'parameter roles (traces, data, exi, exxi, counters, precision) not recognised'), 0))
            continue
        msg = None
        n = 0
        try:
            for data, nt in itertools.product(bats, thread_counts(f)):
                acc = {'exi': _sym_array('a', (P, S)), 'exxi': _sym_array('b', (P, S, S)), 'counters': _sym_array('c', (P,))}
                prev = {k: v.copy() for k, v in acc.items()}
                run_kernel(prog, f, roles, traces, data, acc, nt)
                n += 1
                tn = f' with {nt} worker threads' if nt else ''
                for p in range(P):
                    sel = [t for t in range(T) if data[t, 0] == p]
                    if not (Q.lift(acc['counters'][p]) - prev['counters'][p]).same(Q.const(len(sel))) and msg is None:
                        msg = f'class indices {data[:, 0].tolist()}{tn}: counters[{p}] grows by something else than the number ({len(sel)}) of traces of class position {p}'
                    for s in range(S):
                        want = Q.const(0)
                        for t in sel:
                            want = want + traces[t, s]
                        if not (Q.lift(acc['exi'][p, s]) - prev['exi'][p, s]).same(want) and msg is None:
                            msg = f'class indices {data[:, 0].tolist()}{tn}: exi[{p}, {s}] does not grow by the sum of sample {s} over exactly the traces of class position {p} (traces {sel})'
                        for s2 in range(S):
                            w2 = Q.const(0)
                            for t in sel:
                                w2 = w2 + traces[t, s] * traces[t, s2]
                            if not (Q.lift(acc['exxi'][p, s, s2]) - prev['exxi'][p, s, s2]).same(w2) and msg is None:
                                msg = f'class indices {data[:, 0].tolist()}{tn}: exxi[{p}, {s}, {s2}] does not grow by the sum of products of samples {s} and {s2} over exactly the traces of class position {p} (traces {sel})'
                if msg:
                    break
        except (ratfun.Unknown, symtensor.Raised) as e:
            out.append((f, ('undecided', f'kernel not evaluable: {e}'), n))
            continue
        except (IndexError, ValueError, TypeError) as e:
            msg = msg or f'the kernel fails on a small symbolic batch ({type(e).__name__}: {e})'
        out.append((f, ('violated', msg) if msg else None, n))
    return out


def emit(ctx, clause, results, what):
    n = 0
    for f, verdict, cases in results:
        key = f'{f.key}::accumulated values'
        n += cases
        if verdict is None:
            ctx.ok(clause, key, f'{cases} index arrays (values -1 and class positions) on symbolic traces: {what}', f.where(), cases=cases)
        elif verdict[0] == 'undecided':
            ctx.undecided(clause, key, verdict[1], f.where())
        else:
            ctx.fail(clause, key, verdict[1], f.where())
    return n


def dispatched_kernels(prog, ci):
    """the kernels the class can run: every method a dispatch site of one of its methods selects between, every method called with
    the accumulators outside such a site, else the methods named _accumulate_core*"""
    from . import kernels
    names = []
    for name, f in sorted(ci.methods.items()):
        for var, cands, node, calls in kernels.dispatch_sites(prog, f):
            for c in cands:
                if c not in names:
                    names.append(c)
        for c in ast.walk(f.node):          # direct calls self._accumulate_core_1(...) next to the dispatch
            if isinstance(c, ast.Call) and isinstance(c.func, ast.Attribute) and norm(c.func.value) == 'self' and c.func.attr.startswith('_accumulate_core') and c.func.attr not in names:
                names.append(c.func.attr)
    ks = [prog.resolve_method(ci, x) for x in names]
    ks = [k for k in ks if k is not None]
    if len(ks) < 2:
        ks = [f for name, f in sorted(ci.methods.items()) if name.startswith('_accumulate_core')]
    return ks


def clause(ctx, prog, clause_id, families=('partitioned', 'template')):
    """record the rule text and decide every accumulation kernel of the requested families; returns the number of cases interpreted"""
    ctx.rule(clause_id, 'accumulation kernels by value numbering: on symbolic traces and every small array of class indices (-1 = undeclared value) each kernel adds exactly the definition to the '
                        'accumulators - per-class sums, sums of squares / outer products and trace counts by class *position*, nothing for index -1 - so every kernel a dispatch site can select computes the same thing')
    if np is None:
        ctx.undecided(clause_id, 'kernels::values', 'numpy is not available to the analysis interpreter')
        return 0
    n = 0
    if 'partitioned' in families:
        ci = prog.need_class('scared.distinguishers.partitioned', 'PartitionedDistinguisherMixin')
        ks = dispatched_kernels(prog, ci)
        if len(ks) < 2:
            ctx.undecided(clause_id, f'{ci.key}::kernels', f'{len(ks)} accumulation kernels found (the dispatch selects between two)', ci.mod.relpath)
        n += emit(ctx, clause_id, check_partitioned(prog, ks, ctx.tier), 'sum, sum_square and counters grow by the per-class sums / sums of squares / counts of the batch')
    if 'template' in families:
        ci = prog.need_class('scared.distinguishers.template', '_TemplateBuildDistinguisherMixin')
        ks = dispatched_kernels(prog, ci)
        if len(ks) < 2:
            ctx.undecided(clause_id, f'{ci.key}::kernels', f'{len(ks)} accumulation kernels found (the dispatch selects between two)', ci.mod.relpath)
        n += emit(ctx, clause_id, check_template(prog, ks, ctx.tier), 'exi, exxi and counters grow by the per-class sums / sums of outer products / counts of the batch')
    return n


def check_mia(prog, f, tier='quick'):
    """the MIA histogram kernel on concrete samples placed relative to the bin edges (below, on, between, on the last edge, above;
    NaN) and concrete class indices: accumulators[s, b, p, w] grows by the number of traces whose sample s lies in bin b
    (edges[b] <= x < edges[b+1], the last edge belonging to the last bin), class position p of word w; nothing for samples outside
    the window, for NaN, or for index -1.  The kernel touches the samples only through comparisons and one affine map to the bin
    index, so the positions relative to the edges (all exactly representable here) are the whole domain."""
    roles = {}
    for p in f.params:
        if p == 'traces':
            roles[p] = 'traces'
        elif p == 'data':
            roles[p] = 'data'
        elif 'edges' in p:
            roles[p] = 'edges'
        elif 'accumul' in p:
            roles[p] = 'acc'
        else:
            return ('undecided', f'parameter `{p}` of the MIA kernel not recognised'), 0
    if set(roles.values()) != {'traces', 'data', 'edges', 'acc'}:
        return ('undecided', 'parameter roles (traces, data, bin edges, accumulators) not recognised'), 0
    inv = {v: k for k, v in roles.items()}
    n = 0
    msg = None
    try:
        for edges in (np.array([0.0, 1.0, 2.0, 3.0]), np.array([-1.5, 0.0, 1.5]), np.array([2.0, 2.5]), np.array([-4.0, -2.0, 0.0, 2.0, 4.0])):
            B = len(edges) - 1
            w_ = edges[1] - edges[0]
            pts0 = [edges[0] - 10 * w_, edges[0] - w_, edges[0] - w_ / 2, edges[-1] + w_ / 4, edges[-1] + w_, edges[-1] + 10 * w_]
            for b in range(B):
                pts0 += [edges[b], edges[b] + w_ / 4, edges[b] + w_ / 2, edges[b] + 3 * w_ / 4]
            pts0.append(edges[-1])
            for data_col, with_nan in (([0, 1], False), ([1, -1], False), ([-1, -1], False), ([1, 0], False), ([0, 1], True)):
                pts = np.array(pts0 + ([float('nan')] if with_nan else []))
                W, P = 2, 2
                T = len(pts)
                # every point appears once per class assignment; two sample columns: the points in order and reversed
                traces = np.stack([pts, pts[::-1]], axis=1)
                data = np.tile(np.array(data_col, dtype=np.int64), (T, 1))
                data[::2] = data[::2][:, ::-1]          # alternate the assignment between the words
                acc = np.zeros((2, B, P, W), dtype=np.int64)
                te = symtensor.TensorEval(prog, f.cls, {})
                te.numeric = True
                te.strict_if = True

                def hook(e, fn_, env, ev):
                    fn = e.func
                    if isinstance(fn, ast.Attribute) and fn.attr == 'prange' and norm(fn.value) in ('_nb', 'nb', 'numba'):
                        return range(*[int(ev.ev(fn_, a, env)) for a in e.args])
                    return NotImplemented
                te.call_hook = hook
                te.run(f, {inv['traces']: traces.copy(), inv['data']: data.copy(), inv['edges']: edges.copy(), inv['acc']: acc})
                n += 1
                want = np.zeros_like(acc)
                for t in range(T):
                    for s in range(2):
                        x = traces[t, s]
                        b = None
                        for k in range(B):
                            if edges[k] <= x < edges[k + 1]:
                                b = k
                        if x == edges[-1]:
                            b = B - 1
                        if b is None:
                            continue
                        for w in range(W):
                            if data[t, w] != -1:
                                want[s, b, data[t, w], w] += 1
                if not np.array_equal(acc, want) and msg is None:
                    d = np.argwhere(acc != want)[0]
                    msg = (f'edges {edges.tolist()}, samples {sorted(set(x for x in pts.tolist() if x == x))} (+NaN), class indices {data_col}: accumulators[sample {d[0]}, bin {d[1]}, class {d[2]}, word {d[3]}] '
                           f'receives {int(acc[tuple(d)])} traces, the histogram definition gives {int(want[tuple(d)])}')
    except (ratfun.Unknown, symtensor.Raised) as e:
        return ('undecided', f'kernel not evaluable: {e}'), n
    except (IndexError, ValueError, TypeError, OverflowError) as e:
        msg = msg or f'the kernel fails on a small batch ({type(e).__name__}: {e})'
    return (('violated', msg) if msg else None), n


def mia_clause(ctx, prog, clause_id):
    ctx.rule(clause_id, 'MIA histogram kernel by evaluation over the positions of a sample relative to the bin edges: a sample is counted in the bin [edge_b, edge_b+1) that contains it (the last edge in the last bin), '
                        'for the class position of each word, and nowhere when it is outside the window, NaN, or of an undeclared class')
    if np is None:
        ctx.undecided(clause_id, 'kernels::values', 'numpy is not available to the analysis interpreter')
        return 0
    ci = prog.need_class('scared.distinguishers.mia', 'MIADistinguisherMixin')
    f = prog.resolve_method(ci, '_accumulate_core')
    if f is None:
        ks = [g for name, g in sorted(ci.methods.items()) if prog.numba_kind(g)[0] is not None]
        f = ks[0] if len(ks) == 1 else None
    if f is None:
        ctx.undecided(clause_id, f'{ci.key}::kernel', 'MIA accumulation kernel not identified', ci.mod.relpath)
        return 0
    verdict, n = check_mia(prog, f, ctx.tier)
    return emit(ctx, clause_id, [(f, verdict, n)], 'every sample is counted in the bin that contains it, last edge included, out-of-window / NaN / undeclared ignored')
