"""E6 rules on numba kernels: prange write disjointness, precision-cast taint, sentinel discipline, sibling agreement.

Every function returns a list of findings (status, construct, detail, where) with status in ok|bad|und; the
property modules turn them into obligations under their own rule ids.
"""
import ast

from . import kernels, astutil
from .model import norm, root_name, const_value


def F(status, f, node, detail):
    return (status, f'{f.key}::{norm(node)[:140]}', detail, f.where(node))


# ------------------------------------------------------------------------------------------------ (a) prange disjointness
def index_elts(sub):
    s = sub.slice
    return list(s.elts) if isinstance(s, ast.Tuple) else [s]


def subscripts_of(node, root):
    """outermost Subscript nodes in `node` whose root name is `root`"""
    out = []

    def visit(n):
        if isinstance(n, ast.Subscript) and root_name(n) == root:
            out.append(n)
            for e in index_elts(n):
                visit(e)
            return
        for c in ast.iter_child_nodes(n):
            visit(c)
    visit(node)
    return out


def first_subscript(sub):
    """the innermost (first applied) subscript of a chain a[i][j] -> a[i]"""
    while isinstance(sub.value, ast.Subscript):
        sub = sub.value
    return sub


def prange_disjoint(prog, f):
    """Every store inside a prange(iv) body targets a body-local, or an array parameter subscripted by iv at one fixed
    axis position (the same for every access of that array in the body), or sits under `if iv == <const>`."""
    out = []
    params = set(f.params)
    loopsfound = kernels.prange_loops(f)
    for loop in loopsfound:
        if not isinstance(loop.target, ast.Name):
            out.append(F('und', f, loop, 'prange target is not a simple name'))
            continue
        iv = loop.target.id
        pm = astutil.parents(loop)
        body_locals = set()
        for n in ast.walk(loop):
            if isinstance(n, ast.Assign):
                for t in n.targets:
                    for x in (t.elts if isinstance(t, (ast.Tuple, ast.List)) else [t]):
                        if isinstance(x, ast.Name):
                            body_locals.add(x.id)
            elif isinstance(n, ast.For) and isinstance(n.target, ast.Name) and n is not loop:
                body_locals.add(n.target.id)
        outer_locals = set()
        for n in astutil.stmts_of(f.node):
            if n is loop:
                break
            if isinstance(n, ast.Assign):
                for t in n.targets:
                    if isinstance(t, ast.Name):
                        outer_locals.add(t.id)
        position = {}      # array param -> axis position of iv
        stores = []
        for n in ast.walk(loop):
            if isinstance(n, ast.Assign):
                for t in n.targets:
                    # `a, b = helper(...)`: one store per element
                    stores += [(x, n) for x in (t.elts if isinstance(t, (ast.Tuple, ast.List)) else [t])]
            elif isinstance(n, ast.AugAssign):
                stores.append((n.target, n))
        for t, st in stores:
            r = root_name(t)
            if isinstance(t, ast.Name):
                if t.id in body_locals and t.id not in params and (t.id not in outer_locals or isinstance(st, ast.Assign)):
                    if isinstance(st, ast.AugAssign) and t.id in outer_locals:
                        out.append(F('bad', f, st, f'augmented store to `{t.id}` defined outside the prange body: shared between iterations'))
                    continue
                if t.id in params or t.id in outer_locals:
                    out.append(F('bad', f, st, f'whole-object store to `{t.id}` (shared between prange iterations) inside prange({iv})'))
                continue
            if r is None:
                out.append(F('und', f, st, 'store target not understood'))
                continue
            if r in body_locals and r not in params and r not in outer_locals:
                continue           # element store into an array allocated inside the iteration
            # element store into a shared array
            single = False
            for test, pol in astutil.guards(st, pm):
                if pol and isinstance(test, ast.Compare) and len(test.ops) == 1 and isinstance(test.ops[0], ast.Eq) \
                        and isinstance(test.left, ast.Name) and test.left.id == iv and const_value(test.comparators[0]) is not None:
                    single = True
            sub = first_subscript(t) if isinstance(t, ast.Subscript) else None
            pos = [i for i, e in enumerate(index_elts(sub)) if isinstance(e, ast.Name) and e.id == iv] if sub is not None else []
            if single:
                out.append(F('ok', f, st, f'single writer: under `if {iv} == const`'))
                continue
            if len(pos) != 1:
                out.append(F('bad', f, st, f'store to shared array `{r}` inside prange({iv}) is not indexed by the induction variable in one '
                                           f'axis: two iterations can write the same element (result depends on thread timing)'))
                continue
            if r in position and position[r] != pos[0]:
                out.append(F('bad', f, st, f'`{r}` is indexed by {iv} in axis {pos[0]} here and axis {position[r]} elsewhere in the same prange body'))
                continue
            position[r] = pos[0]
            out.append(F('ok', f, st, f'`{r}` written at [{iv}] in axis {pos[0]}: iterations own disjoint slices'))
        # loads of arrays written in the body must use the same owned slice
        for arr, k in position.items():
            for n in ast.walk(loop):
                if isinstance(n, ast.Subscript) and isinstance(n.ctx, ast.Load) and root_name(n) == arr \
                        and not isinstance(pm.get(n), ast.Subscript):
                    sub = first_subscript(n)
                    elts = index_elts(sub)
                    guarded_single = any(pol and isinstance(test, ast.Compare) and isinstance(test.ops[0], ast.Eq)
                                         and isinstance(test.left, ast.Name) and test.left.id == iv
                                         for test, pol in astutil.guards(n, pm))
                    if not (k < len(elts) and isinstance(elts[k], ast.Name) and elts[k].id == iv) and not guarded_single:
                        st = n
                        while st in pm and not isinstance(st, ast.stmt):
                            st = pm[st]
                        out.append(F('bad', f, st, f'`{arr}` is written per-iteration at axis {k} but read here through another slice: '
                                                   f'an iteration reads what another one writes'))
    return out, len(loopsfound)


# ------------------------------------------------------------------------------------------------ (b) precision cast
def precision_param(f):
    """parameter used as a dtype: `dtype=p`, `.astype(p)` or called as `p(x)`."""
    params = set(f.params)
    for n in ast.walk(f.node):
        if isinstance(n, ast.Call):
            if isinstance(n.func, ast.Name) and n.func.id in params:
                return n.func.id
            if isinstance(n.func, ast.Attribute) and n.func.attr == 'astype' and n.args and isinstance(n.args[0], ast.Name) \
                    and n.args[0].id in params:
                return n.args[0].id
            for k in n.keywords:
                if k.arg == 'dtype' and isinstance(k.value, ast.Name) and k.value.id in params:
                    return k.value.id
    return None


def integer_counter_target(prog, f, st):
    """the statement accumulates into self.<attr> and every allocation of that attribute in the class hierarchy has a literal
    integer dtype (a counter, not a moment)"""
    t = st.target if isinstance(st, ast.AugAssign) else (st.targets[0] if isinstance(st, ast.Assign) and len(st.targets) == 1 else None)
    if not (isinstance(t, ast.Attribute) and isinstance(t.value, ast.Name) and t.value.id == 'self') or f.cls is None:
        return False
    allocs = []
    for ci in prog.mro(f.cls):
        for m in ci.methods.values():
            for n in ast.walk(m.node):
                if isinstance(n, ast.Assign) and any(isinstance(x, ast.Attribute) and norm(x) == f'self.{t.attr}' for x in n.targets):
                    allocs.append(n.value)
    if not allocs:
        return False
    for v in allocs:
        dt = next((k.value for k in v.keywords if k.arg == 'dtype'), None) if isinstance(v, ast.Call) else None
        txt = norm(dt).strip('\'"').split('.')[-1] if dt is not None else ''
        if not (txt.startswith('uint') or txt.startswith('int')):
            return False
    return True


def precision_taint(prog, f, prec=None):
    """Values read from read-only array parameters keep their storage dtype until cast to the precision parameter;
    a product / power / matmul / sum whose non-constant operands are all uncast is computed in the narrow dtype."""
    out = []
    prec = prec or precision_param(f)
    if prec is None:
        return out, None
    written = set(kernels.written_params(f))
    sources = {p for p in f.params if p not in written and p != prec and p != 'self'}
    clean_arrays = set()      # locals allocated with dtype=prec
    rebound_at = {}           # parameter name -> first line from which it denotes its cast copy
    tainted = set()
    stmts = astutil.stmts_of(f.node)
    counters = {n.target.id for n in ast.walk(f.node) if isinstance(n, ast.For) and isinstance(n.target, ast.Name)}

    def is_prec(x):
        return norm(x) == prec

    def is_prec_alloc(v):
        return isinstance(v, ast.Call) and any(k.arg == 'dtype' and is_prec(k.value) for k in v.keywords)

    def taint(e):
        """True tainted (narrow), False clean (cast / constant / wide), for expression e"""
        if isinstance(e, ast.Constant):
            return None
        if isinstance(e, ast.Name):
            if e.id in counters:
                return None
            if e.id in tainted:
                return True
            if e.id in sources:
                return True
            if e.id in rebound_at and getattr(e, 'lineno', 10 ** 9) < rebound_at[e.id]:
                return True           # read before the parameter name is rebound to its cast copy
            return False
        if isinstance(e, ast.Attribute):
            if e.attr in ('shape', 'dtype', 'ndim', 'size'):
                return None
            return taint(e.value)
        if isinstance(e, ast.Subscript):
            if isinstance(e.value, ast.Attribute) and e.value.attr == 'shape':
                return None
            return taint(e.value)
        if isinstance(e, ast.Compare):
            return False
        if isinstance(e, ast.UnaryOp):
            return taint(e.operand)
        if isinstance(e, ast.BinOp):
            l, r = taint(e.left), taint(e.right)
            vals = [v for v in (l, r) if v is not None]
            if not vals:
                return None
            return all(vals)
        if isinstance(e, ast.IfExp):
            vals = [v for v in (taint(e.body), taint(e.orelse)) if v is not None]
            return any(vals) if vals else None
        if isinstance(e, ast.Call):
            if is_prec(e.func):
                return False
            if isinstance(e.func, ast.Attribute) and e.func.attr == 'astype' and e.args and is_prec(e.args[0]):
                return False
            if is_prec_alloc(e):
                return False
            if isinstance(e.func, ast.Attribute) and e.func.attr in ('sum', 'dot', 'T', 'reshape', 'transpose', 'copy', 'mean'):
                return taint(e.func.value)
            if isinstance(e.func, ast.Name) and e.func.id in ('len', 'range', 'int'):
                return None
            args = [taint(a) for a in e.args]
            vals = [v for v in args if v is not None]
            return all(vals) if vals else None
        return False

    for _ in range(2):
        for st in stmts:
            if isinstance(st, ast.Assign) and len(st.targets) == 1 and isinstance(st.targets[0], ast.Name):
                n = st.targets[0].id
                v = st.value
                base = v
                while isinstance(base, ast.Attribute) and base.attr == 'T':
                    base = base.value
                if is_prec_alloc(base):
                    clean_arrays.add(n)
                    tainted.discard(n)
                elif taint(v) is True and n not in clean_arrays:
                    tainted.add(n)
                elif taint(v) is False and n in sources:
                    sources.discard(n)          # the parameter name is rebound to a cast value (from that statement on)
                    rebound_at[n] = min(rebound_at.get(n, 10 ** 9), getattr(st, 'end_lineno', st.lineno) + 1)
    for st in stmts:
        for n in ast.walk(st) if not isinstance(st, (ast.For, ast.While, ast.If, ast.With, ast.Try)) else \
                ast.walk(getattr(st, 'test', None) or getattr(st, 'iter', None) or ast.Pass()):
            if isinstance(n, ast.BinOp) and isinstance(n.op, (ast.Mult, ast.Pow, ast.MatMult)):
                ops = [taint(n.left), taint(n.right)]
                vals = [v for v in ops if v is not None]
                if vals and all(vals):
                    out.append(F('bad', f, st, f'`{norm(n)[:60]}`: every operand is a raw value of a read-only input; the '
                                               f'{type(n.op).__name__} is computed in the input dtype, not in `{prec}`'))
                elif vals:
                    out.append(F('ok', f, st, f'`{norm(n)[:60]}`: an operand is cast to `{prec}`'))
            elif isinstance(n, ast.Call) and isinstance(n.func, ast.Attribute) and n.func.attr in ('sum', 'nansum') and integer_counter_target(prog, f, st) \
                    and (taint(n.func.value) is True or (norm(n.func.value).split('.')[0] in ('_np', 'np', 'numpy') and n.args and taint(n.args[0]) is True)):
                out.append(F('ok', f, st, f'`{norm(n)[:60]}`: a count kept in an integer accumulator (numpy sums integers in at least 64 bits: exact)'))
            elif isinstance(n, ast.Call) and isinstance(n.func, ast.Attribute) and n.func.attr in ('sum', 'dot', 'mean') \
                    and norm(n.func.value).split('.')[0] not in ('_np', 'np', 'numpy') and taint(n.func.value) is True:
                out.append(F('bad', f, st, f'`{norm(n)[:60]}`: reduction over raw input values runs in the input dtype, not in `{prec}`'))
            elif isinstance(n, ast.Call) and isinstance(n.func, ast.Attribute) and n.func.attr in ('sum', 'dot', 'matmul', 'mean', 'nansum') \
                    and norm(n.func.value).split('.')[0] in ('_np', 'np', 'numpy') and n.args:
                vals = [v for v in (taint(a) for a in n.args[:2]) if v is not None]
                if vals and all(vals) and not any(k.arg == 'dtype' and is_prec(k.value) for k in n.keywords):
                    out.append(F('bad', f, st, f'`{norm(n)[:60]}`: every array operand is a raw input; the reduction runs in the input dtype, not in `{prec}`'))
                elif vals:
                    out.append(F('ok', f, st, f'`{norm(n)[:60]}`: operands are cast to `{prec}`'))
            elif isinstance(n, ast.Call) and isinstance(n.func, ast.Attribute) and n.func.attr in ('sum', 'dot', 'mean') \
                    and taint(n.func.value) is False and not isinstance(n.func.value, ast.Compare):
                out.append(F('ok', f, st, f'`{norm(n)[:60]}`: reduction over values held in `{prec}` storage'))
    return out, prec


# ------------------------------------------------------------------------------------------------ (c) sentinel discipline
def sanitising_guard(test, pol, name_text):
    """does taking branch `pol` of `test` prove that expression `name_text` is not the sentinel (>= 0)?"""
    if isinstance(test, ast.BoolOp) and isinstance(test.op, ast.And) and pol:
        return any(sanitising_guard(v, True, name_text) for v in test.values)
    if isinstance(test, ast.UnaryOp) and isinstance(test.op, ast.Not):
        return sanitising_guard(test.operand, not pol, name_text)
    if isinstance(test, ast.Compare) and len(test.ops) == 1:
        l, r, op = norm(test.left), norm(test.comparators[0]), test.ops[0]
        cv = const_value(test.comparators[0])
        if l == name_text:
            if pol:
                if isinstance(op, ast.NotEq) and cv == -1:
                    return True
                if isinstance(op, ast.Gt) and cv == -1:
                    return True
                if isinstance(op, ast.GtE) and cv == 0:
                    return True
            else:
                if isinstance(op, ast.Eq) and cv == -1:
                    return True
                if isinstance(op, ast.Lt) and cv == 0:
                    return True
                if isinstance(op, ast.LtE) and cv == -1:
                    return True
        cvl = const_value(test.left)
        if r == name_text and pol and isinstance(op, ast.NotEq) and cvl == -1:
            return True
    return False


def sentinel_discipline(prog, f, maybe_params=(), extra_arrays=()):
    """Elements of arrays that may hold the sentinel -1 must not be used as a subscript (or in index arithmetic)
    unless a guard on that same value dominates the use.

    maybe_params: parameters whose elements may be -1 (bound to the class lookup output at the call site);
    arrays into which f itself stores a negative constant are added automatically."""
    out = []
    maybe_arrays = set(maybe_params) | set(extra_arrays)
    for t, st, how in kernels.stores(f.node):
        if isinstance(t, ast.Subscript) and how == 'bind' and isinstance(st, ast.Assign):
            cv = const_value(st.value)
            if isinstance(cv, (int, float)) and cv < 0 and root_name(t):
                maybe_arrays.add(root_name(t))
    if not maybe_arrays:
        return out, maybe_arrays
    pm = astutil.parents(f.node)
    # names bound to elements of maybe-arrays
    maybe_names = {}
    for n in ast.walk(f.node):
        if isinstance(n, ast.Assign) and len(n.targets) == 1 and isinstance(n.targets[0], ast.Name):
            v = n.value
            vv = v
            while isinstance(vv, ast.Subscript):
                vv = vv.value
            if isinstance(v, ast.Subscript) and isinstance(vv, ast.Name) and vv.id in maybe_arrays:
                maybe_names[n.targets[0].id] = n

    def sub_root(e):
        while isinstance(e, ast.Subscript):
            e = e.value
        return e.id if isinstance(e, ast.Name) else None

    def is_maybe(e):
        if isinstance(e, ast.Name) and e.id in maybe_names:
            return e.id
        if isinstance(e, ast.Subscript) and sub_root(e) in maybe_arrays and isinstance(e.ctx, ast.Load):
            return norm(e)
        return None

    def enclosing_stmt(n):
        while n in pm and not isinstance(n, ast.stmt):
            n = pm[n]
        return n

    def dominated(n, text):
        for test, pol in astutil.guards(n, pm):
            if sanitising_guard(test, pol, text):
                return True
        # guard clause: an earlier sibling `if <value is the sentinel>: continue / break / return / raise` in an enclosing block,
        # with no re-definition of the value between the guard and the use
        st = enclosing_stmt(n)
        cur = st
        while cur in pm:
            par = pm[cur]
            for field in ('body', 'orelse', 'finalbody'):
                blk = getattr(par, field, None)
                if isinstance(blk, list) and any(x is cur for x in blk):
                    idx = [i for i, x in enumerate(blk) if x is cur][0]
                    for gi in range(idx - 1, -1, -1):
                        g = blk[gi]
                        if isinstance(g, ast.If) and not g.orelse and g.body and isinstance(g.body[-1], (ast.Continue, ast.Break, ast.Return, ast.Raise)) \
                                and sanitising_guard(g.test, False, text):
                            redefined = any(isinstance(x, (ast.Assign, ast.AugAssign)) and any(norm(t) == text for t in (x.targets if isinstance(x, ast.Assign) else [x.target]))
                                            for between in blk[gi + 1:idx] for x in ast.walk(between))
                            if not redefined:
                                return True
            if isinstance(par, (ast.FunctionDef, ast.AsyncFunctionDef)):
                break
            cur = par
        # sequential guard inside a loop body: `if not kept...: continue` is not about the value; only value guards count
        return False

    for n in ast.walk(f.node):
        if isinstance(n, ast.Subscript):
            for e in index_elts(n):
                epm = astutil.parents(e)
                for sub in ast.walk(e):
                    m = is_maybe(sub)
                    if m is None:
                        continue
                    # inside a comparison the value selects (a boolean mask `x[v == p]`), it does not address
                    anc, in_cmp = sub, False
                    while anc in epm:
                        anc = epm[anc]
                        if isinstance(anc, ast.Compare):
                            in_cmp = True
                            break
                    if in_cmp:
                        continue
                    if isinstance(sub, ast.Subscript) and any(is_maybe(x) for x in ast.walk(sub.value) if x is not sub):
                        pass
                    st = enclosing_stmt(n)
                    if dominated(n, m):
                        out.append(F('ok', f, st, f'`{m}` used as an index under a guard that excludes the sentinel'))
                    else:
                        out.append(F('bad', f, st, f'`{m}` may be the sentinel -1 and is used as an index in `{norm(n)[:70]}` without a '
                                                   f'guard on that value: -1 silently addresses the last element'))
        elif isinstance(n, ast.Call) and norm(n.func) == 'abs':
            for sub in ast.walk(n):
                m = is_maybe(sub)
                if m is not None and not dominated(n, m):
                    st = enclosing_stmt(n)
                    out.append(F('bad', f, st, f'`{m}` may be the sentinel -1 and is used in position arithmetic `{norm(n)[:60]}`'))
    return out, maybe_arrays


# ------------------------------------------------------------------------------------------------ (d) siblings
def sibling_agreement(prog, cls, f):
    """kernels selectable at one dispatch site of function f (class cls) agree on their interface and effects."""
    out = []
    sites = kernels.dispatch_sites(prog, f)
    for var, names, node, calls in sites:
        ks = [prog.resolve_method(cls, n) for n in names]
        if any(k is None or not prog.numba_kind(k)[0] for k in ks):
            out.append(F('und', f, node, f'dispatch candidates {names} are not all resolvable numba kernels'))
            continue
        p0 = ks[0].params
        w0 = set(kernels.written_params(ks[0]))
        for k in ks[1:]:
            if k.params != p0:
                out.append(F('bad', f, node, f'{ks[0].name} and {k.name} are selected by timing but have different parameter lists '
                                             f'{p0} vs {k.params}'))
            else:
                out.append(F('ok', f, node, f'{ks[0].name} / {k.name}: identical parameter lists'))
            w = set(kernels.written_params(k))
            if w != w0:
                out.append(F('bad', k, k.node.body[-1], f'{ks[0].name} writes {sorted(w0)} but its sibling {k.name} writes {sorted(w)}: '
                                                        f'the result depends on which kernel the timings select'))
            else:
                out.append(F('ok', k, k.node, f'{ks[0].name} / {k.name}: same written parameters {sorted(w)}'))
        for k in ks:
            for p, sts in kernels.written_params(k).items():
                for st in sts:
                    if not (isinstance(st, ast.AugAssign) and isinstance(st.op, ast.Add)):
                        out.append(F('bad', k, st, f'sibling kernel {k.name} writes `{p}` with something else than += '))
        # selection conditions: a store conditioned on a per-batch aggregate (how many traces of the class the batch holds)
        # in one sibling but not in the other makes the accumulated state depend on which kernel ran
        agg = {}
        for k in ks:
            pm = astutil.parents(k.node)
            defs = {}
            for n_ in ast.walk(k.node):
                if isinstance(n_, ast.Assign) and len(n_.targets) == 1 and isinstance(n_.targets[0], ast.Name):
                    defs.setdefault(n_.targets[0].id, []).append(n_.value)

            def aggregate(e, depth=0):
                for c in ast.walk(e):
                    if isinstance(c, ast.Call) and norm(c.func).split('.')[-1] in ('sum', 'count_nonzero', 'any', 'all', 'len', 'max', 'min', 'mean'):
                        return True
                    if isinstance(c, ast.Name) and depth < 3 and any(aggregate(v, depth + 1) for v in defs.get(c.id, [])):
                        return True
                return False
            hits = []
            for p_, sts in kernels.written_params(k).items():
                for st in sts:
                    for t, pol in astutil.guards_ext(st, pm, k.node):
                        if aggregate(t):
                            hits.append((p_, st, t))
            agg[k.key] = hits
        if any(agg.values()) and not all(agg.values()):
            for k in ks:
                for p_, st, t in agg[k.key]:
                    other = [x.name for x in ks if not agg[x.key]]
                    out.append(F('bad', k, st, f'{k.name} accumulates into `{p_}` only when the per-batch aggregate condition `{norm(t)[:50]}` allows it, its sibling '
                                               f'{", ".join(other)} accumulates every trace: the state depends on which kernel the timings select (and on the batch split)'))
        else:
            out.append(F('ok', f, node, f'{" / ".join(k.name for k in ks)}: no store is conditioned on a per-batch aggregate in one sibling only'))
        if not calls:
            out.append(F('bad', f, node, f'dispatch variable `{var}` is never called'))
        # other direct calls of a candidate in the same function must pass the same arguments
        ref = [norm(a) for a in calls[0].args] if calls else None
        for n in ast.walk(f.node):
            if isinstance(n, ast.Call) and isinstance(n.func, ast.Attribute) and norm(n.func.value) == 'self' \
                    and n.func.attr in names:
                args = [norm(a) for a in n.args]
                if ref is not None and args != ref:
                    out.append(F('bad', f, n, f'direct call of {n.func.attr} passes {args} but the dispatched call passes {ref}'))
                else:
                    out.append(F('ok', f, n, f'direct call of {n.func.attr} passes the same arguments as the dispatched call'))
    return out, sites


# ------------------------------------------------------------------------------------------------ shared ordering / pass-through rules
def count_after_last_call(f, count_attr):
    """[(kind, node, text)] for the function that increments self.<count_attr>: every call that can refuse the batch (any call
    other than logging / isinstance / len) comes *before* the increment, so that a batch refused by a kernel or by numpy (an
    implicit exception) is not counted."""
    out = []
    stmts = astutil.stmts_of(f.node)
    incs = [st for st in stmts if isinstance(st, ast.AugAssign) and isinstance(st.target, ast.Attribute) and norm(st.target) == f'self.{count_attr}']
    if len(incs) != 1:
        return [('und', f.node, f'{len(incs)} increments of self.{count_attr}')]
    inc = incs[0]
    harmless = ('info', 'debug', 'warning', 'isinstance', 'len', 'format', 'type', 'str', 'repr', 'dtype')
    # statements that can execute after the increment: the rest of its block and of every enclosing block (for a try: the else /
    # finally clauses after the body, the finally clause after a handler or the else clause - never a sibling handler, which runs
    # only when the body raised, i.e. before an increment placed in the else clause)
    pm = astutil.parents(f.node)
    after = []
    cur = inc
    while cur in pm:
        par = pm[cur]
        for field in ('body', 'orelse', 'finalbody'):
            blk = getattr(par, field, None)
            if isinstance(blk, list) and any(x is cur for x in blk):
                i = next(k for k, x in enumerate(blk) if x is cur)
                rolled_back = isinstance(par, ast.Try) and field == 'body' and any(
                    (h.type is None or norm(h.type).split('.')[-1] in ('BaseException', 'Exception')) and h.body and isinstance(h.body[-1], ast.Raise) and h.body[-1].exc is None
                    and any(isinstance(c, ast.Call) and '__dict__' in norm(c.func) for st_ in h.body for c in ast.walk(st_)) for h in par.handlers)
                if rolled_back:
                    # the rest of this try body runs under a handler that restores the instance dictionary and re-raises: a refusal
                    # there undoes the (rebinding) increment
                    after.extend(par.orelse)
                    after.extend(par.finalbody)
                    continue
                after.extend(blk[i + 1:])
                if isinstance(par, ast.Try):
                    if field == 'body':
                        after.extend(par.orelse)
                        after.extend(par.finalbody)
                        if any(isinstance(c, ast.Call) and norm(c.func).split('.')[-1] not in harmless for st_ in blk[i + 1:] for c in ast.walk(st_)):
                            for h in par.handlers:
                                after.extend(h.body)
                    elif field == 'orelse':
                        after.extend(par.finalbody)
        if isinstance(par, ast.ExceptHandler) and par in pm and isinstance(pm[par], ast.Try):
            after.extend(pm[par].finalbody)
        if isinstance(par, (ast.FunctionDef, ast.AsyncFunctionDef)):
            break
        cur = par
    late = [c for st in after for c in ast.walk(st) if isinstance(c, ast.Call) and norm(c.func).split('.')[-1] not in harmless]
    if late:
        out.append(('bad', late[0], f'`{norm(late[0])[:60]}` runs after `{norm(inc)}`: when it refuses the batch (an exception raised inside the kernel / numpy) the traces are already '
                                   f'counted, and every later mean is taken over a count that includes traces that were never accumulated'))
    else:
        out.append(('ok', inc, f'`{norm(inc)}` is the last effect of {f.qualname}: a batch refused by any earlier call is not counted'))
    return out


def batch_passthrough(prog, caller, kernel, batch_param, precision_texts=('self.precision',)):
    """how the batch parameter reaches argument 0 of the kernel call in `caller`: unchanged, or through a cast to the working
    precision / float64; -> (verdict 'ok'|'bad'|'unknown', text, node)"""
    from . import normalize
    cn = normalize.normal(prog, caller, skip={kernel.name})
    calls = [c for c in ast.walk(cn.node) if isinstance(c, ast.Call) and isinstance(c.func, ast.Attribute) and c.func.attr == kernel.name]
    if len(calls) != 1:
        return 'unknown', f'{len(calls)} kernel calls', caller.node
    amap = kernels.call_arg_map(kernel, calls[0])
    a = amap.get(kernel.params[0])
    name = a.id if isinstance(a, ast.Name) else batch_param
    rebinds = [s_ for s_ in ast.walk(cn.node) if isinstance(s_, ast.Assign) and len(s_.targets) == 1 and isinstance(s_.targets[0], ast.Name) and s_.targets[0].id == name]
    for e in [a] + [s_.value for s_ in rebinds]:
        if isinstance(e, ast.Name):
            continue
        if isinstance(e, ast.Call):
            nm = norm(e.func).split('.')[-1]
            dt = next((kw_.value for kw_ in e.keywords if kw_.arg == 'dtype'), None)
            if nm == 'astype' and e.args:
                dt = e.args[0]
            elif nm in ('asarray', 'ascontiguousarray', 'array', 'require') and dt is None and len(e.args) > 1:
                dt = e.args[1]
            if nm in ('astype', 'asarray', 'ascontiguousarray', 'array', 'require', 'copy'):
                if dt is None:
                    continue
                txt = norm(dt).strip('\'"')
                if txt in precision_texts or txt.split('.')[-1] in ('float64', 'double', 'longdouble') or any(txt == f'_np.dtype({p_})' or txt == f'np.dtype({p_})' for p_ in precision_texts):
                    continue
                return 'bad', f'`{norm(e)[:70]}` converts the batch to `{txt}` before the kernel sees it', calls[0]
        if isinstance(e, ast.Subscript) and isinstance(e.slice, ast.Slice) and e.slice.lower is None and e.slice.upper is None and e.slice.step is None:
            continue
        return 'unknown', f'`{norm(e)[:70]}`', calls[0]
    return 'ok', 'the kernel receives the batch as given (or cast to the working precision)', calls[0]


def count_discipline(prog, f, counter_params, class_index_params=()):
    """class counters receive one increment per (trace, word): for every `counters[...] += v` in kernel f
       - v is the literal 1, or the sum over the trace axis of an equality mask (`(data == p).sum(0)`);
       - every enclosing loop either runs over the traces (the counting loop), or its variable appears in the target index (distinct
         cells), or it is pinned to its first iteration by a guard `var == 0` (the sample loop: index 0 exists whenever there is a
         sample; any other pin, or `!=`, counts a trace several times or never)."""
    out = []
    pm = astutil.parents(f.node)
    for st in ast.walk(f.node):
        if not (isinstance(st, ast.AugAssign) and isinstance(st.op, ast.Add) and root_name(st.target) in counter_params):
            continue
        v = astutil.expand_locals(st.value, astutil.local_defs(f.node))
        one = isinstance(v, ast.Constant) and v.value == 1 and not isinstance(v.value, bool)
        mask_sum = isinstance(v, ast.Call) and norm(v.func).split('.')[-1] in ('sum', 'count_nonzero')
        if not (one or mask_sum):
            out.append(F('bad', f, st, f'`{norm(st)[:60]}` adds `{norm(v)[:30]}` to a class counter: a trace counts for 1'))
            continue
        idx_names = {n.id for n in ast.walk(st.target) if isinstance(n, ast.Name)}
        # values derived from loop variables used in the index (data_value = data[trace_idx, data_idx])
        defs = {}
        for a in ast.walk(f.node):
            if isinstance(a, ast.Assign) and len(a.targets) == 1 and isinstance(a.targets[0], ast.Name):
                defs.setdefault(a.targets[0].id, set()).update(n.id for n in ast.walk(a.value) if isinstance(n, ast.Name))
        closure = set(idx_names)
        for _ in range(3):
            for nm in list(closure):
                closure |= defs.get(nm, set())
        guards = astutil.guards_ext(st, pm, f.node)
        problems = []
        for lp in astutil.loops(st, pm, f.node):
            if not isinstance(lp, ast.For) or not isinstance(lp.target, ast.Name):
                continue
            var = lp.target.id
            it = norm(lp.iter).replace(' ', '')
            over_traces = it.endswith('.shape[0])') or it.startswith('range(len(')
            in_index = var in closure
            if over_traces and one:
                continue
            if in_index and not over_traces:
                continue
            pins = [(t, pol) for t, pol in guards if isinstance(t, ast.Compare) and len(t.ops) == 1 and isinstance(t.left, ast.Name) and t.left.id == var]
            ok_pin = any(pol and isinstance(t.ops[0], ast.Eq) and const_value(t.comparators[0]) == 0 for t, pol in pins)
            if not ok_pin:
                how = f'pinned by `{norm(pins[0][0])}`' if pins else 'not pinned to one iteration'
                problems.append(f'the loop over `{var}` ({norm(lp.iter)[:30]}) is {how}: the counter is incremented once per iteration of that loop that passes, not once per trace '
                                f'(only `{var} == 0` is an iteration that always exists and is unique)')
        if problems:
            out.append(F('bad', f, st, f'`{norm(st)[:50]}`: ' + problems[0]))
        else:
            out.append(F('ok', f, st, f'`{norm(st)[:50]}`: one increment per trace and word'))
    return out


def membership_comparisons(prog, f, maybe_params):
    """a lookup output is compared with a class position only for equality (class membership) and with the sentinel -1 only by
    == / != ; an inequality (`data != p`, `data <= p`) selects the complement / a range of classes"""
    out = []
    if not maybe_params:
        return out
    loopvars = {lp.target.id: lp for lp in ast.walk(f.node) if isinstance(lp, ast.For) and isinstance(lp.target, ast.Name)}
    names = set(maybe_params)
    for a in ast.walk(f.node):
        if isinstance(a, ast.Assign) and len(a.targets) == 1 and isinstance(a.targets[0], ast.Name) and root_name(a.value) in maybe_params and isinstance(a.value, ast.Subscript):
            names.add(a.targets[0].id)
    for c in ast.walk(f.node):
        if not (isinstance(c, ast.Compare) and len(c.ops) == 1):
            continue
        l, r = c.left, c.comparators[0]
        sides = [root_name(x) if isinstance(x, (ast.Subscript, ast.Name)) else None for x in (l, r)]
        if not any(s in names for s in sides):
            continue
        other = r if sides[0] in names else l
        if isinstance(other, ast.Name) and other.id in loopvars:
            if isinstance(c.ops[0], ast.Eq):
                out.append(F('ok', f, c, f'`{norm(c)}`: class membership by equality with the class position'))
            else:
                out.append(F('bad', f, c, f'`{norm(c)}` compares the class index of a trace with the class position `{other.id}` by {type(c.ops[0]).__name__}: '
                                          f'the traces selected are not those of class `{other.id}`'))
    return out
