"""CLI: python -m sa.main <ID> [--tier quick|thorough] [--replay file] [--repo dir] [--no-evidence]"""
import argparse
import importlib
import json
import os
import sys
import traceback

from . import model, report


def run_property(prop, tier, seed, repo=None):
    """Run all rules of one property; returns the Ctx (never raises AnalysisError: records it as undecided)."""
    ctx = report.Ctx(prop, tier, seed)
    try:
        mod = importlib.import_module(f'sa.rules.{prop.lower()}')
    except ModuleNotFoundError:
        ctx.undecided(f'{prop}-setup', 'checker', f'no rule module for {prop}')
        return ctx
    try:
        prog = model.Program(repo)
        ctx.unit('modules_parsed', len(prog.mods))
        ctx.unit('functions_in_model', len(prog.funcs))
        ctx.unit('classes_in_model', len(prog.classes))
        try:
            mod.run(ctx, prog)
        finally:
            _hidden_state(ctx, prog, prop)
    except model.AnalysisError as e:
        ctx.undecided(f'{prop}-anchor', 'checker', f'cannot decide: {e}')
    except Exception as e:   # a crash of the checker is an analysis error, never a violation
        tb = traceback.format_exc().strip().splitlines()
        ctx.undecided(f'{prop}-crash', 'checker', f'{type(e).__name__}: {e} @ {tb[-3].strip() if len(tb) >= 3 else ""}')
        if os.environ.get('VERIF_DEBUG'):
            traceback.print_exc()
    return ctx


def _hidden_state(ctx, prog, prop):
    """E16: the modules the property is anchored in keep nothing between calls in module-level variables (sa.memo)"""
    from . import memo
    files = []
    for line in open(os.path.join(report.VERIF, 'properties.jsonl')):
        d = json.loads(line)
        if d.get('id') == prop:
            files = d.get('anchors', {}).get('files', [])
    mods = [f[:-3].replace('/', '.') for f in files if f.endswith('.py')]
    mods = [m[:-len('.__init__')] if m.endswith('.__init__') else m for m in mods]
    missing = [m for m in mods if m not in prog.mods]
    clause = f'{prop}-S1'
    ctx.rule(clause, 'history independence: no function of the anchored modules keeps a value between calls in a module-level variable, unless it is looked up by a value snapshot '
                     'of everything it was computed from (identity keys, kept references to the caller\'s arrays, order-forgetting keys of class lists and views of kept arrays handed out are violations)')
    for m in missing:
        ctx.undecided(clause, f'{m}::anchor module', 'anchored module not found in the model')
    n = memo.hidden_state(ctx, prog, clause, mods, order_relevant=memo.ORDER_RELEVANT)
    ctx.floor('functions scanned for hidden state', n, 3)


def main(argv=None):
    ap = argparse.ArgumentParser()
    ap.add_argument('prop')
    ap.add_argument('--tier', default=os.environ.get('VERIF_TIER') or 'quick', choices=['quick', 'thorough'])
    ap.add_argument('--replay')
    ap.add_argument('--repo', default=None)
    ap.add_argument('--no-evidence', action='store_true')
    a = ap.parse_args(argv)
    try:
        seed = int(os.environ.get('VERIF_SEED', '0') or 0)
    except ValueError:
        seed = 0
    if a.repo:
        model.REPO = a.repo
    prop = a.prop.upper()
    ctx = run_property(prop, a.tier, seed, a.repo)
    if a.replay:
        r = json.load(open(a.replay))
        ctx.obs = [o for o in ctx.obs if (o.rule == r['rule'] and o.construct == r['construct']) or o.status == report.UNDECIDED]
        if not any(o.rule == r['rule'] and o.construct == r['construct'] for o in ctx.obs):
            print(f'[{prop}] replay: obligation {r["rule"]} {r["construct"]} no longer exists in the current tree')
            return 0 if not ctx.obs else 2
        ctx.floors = []
        return report.finish(ctx, replay_filter=True, write_evidence=False)
    code = report.finish(ctx, write_evidence=not a.no_evidence)
    if a.tier == 'thorough' and code == 0:
        try:
            from selftest import battery
        except Exception:
            battery = None
        if battery is not None:
            code = battery.run_for(prop)
    return code


if __name__ == '__main__':
    try:
        sys.exit(main())
    except SystemExit:
        raise
    except BrokenPipeError:
        os._exit(2)
    except Exception as e:
        print(f'ANALYSIS-ERROR property={sys.argv[1] if len(sys.argv) > 1 else "?"} checker crashed: {type(e).__name__}: {e}')
        sys.exit(2)
