"""Trace-count homogeneity ("how does a value scale when the batch is duplicated").

Every value carries (carries_N, e): `carries_N` - the value still has the trace axis (one entry per trace); `e` - the exponent
of the trace count in the value once the trace axis is gone.  A sum over the trace axis turns (True, 0) into (False, 1); a
mean over it into (False, 0); products add exponents, quotients subtract, sums/differences need equal exponents.  `shape[0]`
/ `len()` of an N-carrying array is (False, 1).  An additive accumulator that is later divided by the trace count must receive
contributions of exponent 1 (a plain sum over the traces of the batch): exponent 0 means "one batch = one vote", i.e. the result
weighs traces by the size of the batch they arrived in.  Unknown constructs give TOP (no verdict).
"""
import ast

from .model import norm, const_value, self_attr

TOP = None


class NExp:
    def __init__(self, func, seeds, attrs=None):
        self.f = func
        self.env = dict(seeds)          # name -> (carries, e)
        self.attrs = dict(attrs or {})  # self.attr -> (carries, e)
        self.contrib = []               # (attr, value, node) for `self.attr += value` / `self.attr = ...`
        self.returns = []

    def run(self):
        self.block(self.f.node.body)
        return self

    def block(self, stmts):
        for st in stmts:
            self.stmt(st)

    def stmt(self, st):
        if isinstance(st, ast.Assign) and len(st.targets) == 1:
            v = self.ev(st.value)
            t = st.targets[0]
            if isinstance(t, ast.Name):
                self.env[t.id] = v
            elif self_attr(t) and isinstance(t, ast.Attribute):
                self.contrib.append((t.attr, v, st, 'assign'))
                self.attrs[t.attr] = v
            elif isinstance(t, ast.Subscript) and isinstance(t.value, ast.Name):
                cur = self.env.get(t.value.id)
                self.env[t.value.id] = v if cur in (('list', None), None) else self.join(cur, v)
        elif isinstance(st, ast.AugAssign):
            v = self.ev(st.value)
            t = st.target
            if self_attr(t):
                a = self_attr(t)
                self.contrib.append((a, v, st, type(st.op).__name__))
            elif isinstance(t, ast.Name):
                cur = self.env.get(t.id)
                self.env[t.id] = self.op(st.op, cur, v, st.value)
        elif isinstance(st, ast.For):
            if isinstance(st.target, ast.Name):
                self.env[st.target.id] = (False, 0)
            elif isinstance(st.target, ast.Tuple):
                for x in st.target.elts:
                    if isinstance(x, ast.Name):
                        self.env[x.id] = (False, 0)
            self.block(st.body)
        elif isinstance(st, ast.If):
            self.block(st.body)
            self.block(st.orelse)
        elif isinstance(st, ast.Expr) and isinstance(st.value, ast.Call) and isinstance(st.value.func, ast.Attribute) and st.value.func.attr == 'append' \
                and isinstance(st.value.func.value, ast.Name) and st.value.args:
            n = st.value.func.value.id
            v = self.ev(st.value.args[0])
            cur = self.env.get(n)
            self.env[n] = v if cur in (('list', None), None) else self.join(cur, v)
        elif isinstance(st, ast.Return) and st.value is not None:
            self.returns.append((self.ev(st.value), st))

    @staticmethod
    def join(a, b):
        return a if a == b else TOP

    def op(self, op, a, b, node=None):
        if a is TOP or b is TOP or a is None or b is None:
            return TOP
        if a[0] == 'list' or b[0] == 'list':
            return TOP
        carries = a[0] or b[0]
        if isinstance(op, ast.Mult):
            return (carries, a[1] + b[1])
        if isinstance(op, (ast.Div, ast.FloorDiv)):
            return (carries, a[1] - b[1])
        if isinstance(op, (ast.Add, ast.Sub)):
            if a[1] == b[1]:
                return (carries, a[1])
            # a constant offset (exponent 0, no trace axis) added to something else: not homogeneous
            return TOP
        if isinstance(op, ast.Pow):
            c = const_value(node) if node is not None else None
            if isinstance(c, int) and not b[0]:
                return (a[0], a[1] * c)
            return TOP
        if isinstance(op, ast.MatMult):
            return TOP
        return TOP

    def ev(self, e):
        if isinstance(e, ast.Constant):
            return (False, 0)
        if isinstance(e, ast.Name):
            return self.env.get(e.id, (False, 0) if e.id not in self.env else TOP)
        if isinstance(e, (ast.List, ast.Tuple)):
            if not e.elts:
                return ('list', None)
            vs = [self.ev(x) for x in e.elts]
            out = vs[0]
            for v in vs[1:]:
                out = self.join(out, v)
            return out
        if isinstance(e, ast.UnaryOp):
            return self.ev(e.operand)
        if isinstance(e, ast.BinOp):
            return self.op(e.op, self.ev(e.left), self.ev(e.right), e.right)
        if isinstance(e, ast.Attribute):
            a = self_attr(e)
            if a and isinstance(e.value, ast.Name):
                return self.attrs.get(a, (False, 0))
            if e.attr == 'T':
                return self.ev(e.value)
            if e.attr in ('dtype', 'ndim'):
                return (False, 0)
            return TOP if e.attr not in ('shape',) else ('shape', self.ev(e.value))
        if isinstance(e, ast.Subscript):
            v = self.ev(e.value)
            if isinstance(v, tuple) and v and v[0] == 'shape':
                k = const_value(e.slice)
                base = v[1]
                if k == 0 and base is not TOP and base[0] is True:
                    return (False, 1)
                return (False, 0)
            if v is TOP:
                return TOP
            # indexing the first axis with a scalar drops the trace axis of an N-carrying array; anything else keeps the role
            if v[0] is True and not isinstance(e.slice, (ast.Slice, ast.Tuple)):
                return (False, v[1])
            return v
        if isinstance(e, ast.Call):
            fn = e.func
            name = norm(fn).split('.')[-1]
            if isinstance(fn, ast.Attribute) and norm(fn.value) in ('_np', 'np', 'numpy'):
                args = [self.ev(a) for a in e.args]
                a0 = args[0] if args else TOP
                rest = e.args[1:]
            elif isinstance(fn, ast.Attribute):
                a0 = self.ev(fn.value)
                args = [a0] + [self.ev(a) for a in e.args]
                rest = e.args
            elif isinstance(fn, ast.Name) and fn.id == 'len' and e.args:
                v = self.ev(e.args[0])
                return (False, 1) if v is not TOP and v[0] is True else (False, 0)
            elif isinstance(fn, ast.Name) and fn.id in ('range', 'int', 'float', 'enumerate', 'zip'):
                return (False, 0)
            else:
                return TOP
            if a0 is TOP or a0 is None or a0[0] in ('list', 'shape'):
                return TOP if name not in ('zeros', 'empty', 'ones', 'arange') else (False, 0)
            ax = next((k.value for k in e.keywords if k.arg == 'axis'), rest[0] if rest and name in ('sum', 'mean', 'nansum', 'nanmean') else None)
            if name in ('sum', 'nansum', 'mean', 'nanmean'):
                axis = const_value(ax) if ax is not None else None
                over_n = a0[0] is True and (ax is None or axis == 0)
                if ax is not None and axis is None:
                    return TOP
                if over_n:
                    return (False, a0[1] + (1 if 'sum' in name else 0))
                return a0
            if name in ('dot', 'matmul') and len(args) >= 2:
                b = args[1]
                if b is TOP:
                    return TOP
                if a0[0] is True and not b[0]:
                    return (True, a0[1] + b[1])        # rows stay per trace
                if not a0[0] and not b[0]:
                    return (False, a0[1] + b[1])
                return TOP                             # a contraction over the trace axis: handled by the axis typer, not here
            if name in ('array', 'asarray', 'copy', 'astype', 'abs', 'absolute', 'negative', 'swapaxes', 'reshape', 'squeeze', 'transpose', 'conj', 'real'):
                return a0
            if name in ('sqrt',):
                return (a0[0], a0[1] / 2)
            if name in ('square',):
                return (a0[0], 2 * a0[1])
            if name in ('zeros', 'empty', 'ones', 'arange', 'eye'):
                return (False, 0)
            return TOP
        return TOP
