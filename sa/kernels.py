"""E6 - facts about numba kernels (njit / prange / vectorize) and kernel dispatch sites."""
import ast

from .model import norm, root_name


def numba_funcs(prog):
    """[(Func, kind, decorator Call|None)] for every numba-compiled function of the package."""
    out = []
    for f in prog.funcs:
        kind, call = prog.numba_kind(f)
        if kind:
            out.append((f, kind, call))
    return out


def is_parallel(call):
    if call is None:
        return False
    for k in call.keywords:
        if k.arg == 'parallel' and isinstance(k.value, ast.Constant) and k.value.value is True:
            return True
    return False


def stores(func_node):
    """[(target node, statement, how)] for every Assign/AugAssign in a function body (nested defs excluded)."""
    out = []

    def visit(n):
        for c in ast.iter_child_nodes(n):
            if isinstance(c, (ast.FunctionDef, ast.AsyncFunctionDef, ast.Lambda, ast.ClassDef)):
                continue
            if isinstance(c, ast.Assign):
                for t in c.targets:
                    for tt in (t.elts if isinstance(t, (ast.Tuple, ast.List)) else [t]):
                        out.append((tt, c, 'bind'))
            elif isinstance(c, ast.AugAssign):
                out.append((c.target, c, 'aug'))
            elif isinstance(c, ast.AnnAssign) and c.value is not None:
                out.append((c.target, c, 'bind'))
            visit(c)
    visit(func_node)
    return out


def written_params(f):
    """parameters of f written in place: subscript stores, augmented stores on a subscript, or `p op= ...` on the
    bare parameter name when it is never rebound by plain assignment (array augmented assignment is in place)."""
    params = set(f.params)
    rebound = {t.id for t, st, how in stores(f.node) if isinstance(t, ast.Name) and how == 'bind'}
    # a local bound (once, or always to a view of the same parameter) to a row / slice of a parameter is a second name for its storage
    views = {}
    for t, st, how in stores(f.node):
        if isinstance(t, ast.Name) and how == 'bind' and isinstance(st, ast.Assign) and isinstance(st.value, ast.Subscript) and root_name(st.value) in params and t.id not in params:
            views.setdefault(t.id, set()).add(root_name(st.value))
        elif isinstance(t, ast.Name) and how == 'bind' and t.id not in params:
            views.setdefault(t.id, set()).add(None)
    views = {k: next(iter(v)) for k, v in views.items() if len(v) == 1 and None not in v}
    out = {}
    for t, st, how in stores(f.node):
        r = root_name(t)
        if r in views and isinstance(t, ast.Subscript):
            r = views[r]
        if r not in params:
            continue
        if isinstance(t, ast.Subscript) or (isinstance(t, ast.Name) and how == 'aug' and r not in rebound):
            out.setdefault(r, []).append(st)
        elif isinstance(t, ast.Attribute):
            out.setdefault(r, []).append(st)
    return out


def prange_loops(f):
    """For-loops of f iterating numba.prange (resolved through the module's import aliases)."""
    out = []
    for n in ast.walk(f.node):
        if isinstance(n, ast.For) and isinstance(n.iter, ast.Call):
            name = f.mod and norm(n.iter.func)
            if name.split('.')[-1] == 'prange':
                out.append(n)
    return out


def _candidates(e):
    """method names a dispatch expression can evaluate to: [self.k1, self.k2][i] / (self.k1, self.k2)[i] / self.k1 if c else self.k2
    (nested) / self.k  - None when some alternative is not a method of self"""
    if isinstance(e, ast.Attribute) and isinstance(e.value, ast.Name) and e.value.id == 'self':
        return [e.attr]
    if isinstance(e, ast.Subscript) and isinstance(e.value, (ast.List, ast.Tuple)) and e.value.elts:
        out = []
        for x in e.value.elts:
            c = _candidates(x)
            if c is None:
                return None
            out.extend(c)
        return out
    if isinstance(e, ast.IfExp):
        a, b = _candidates(e.body), _candidates(e.orelse)
        # in `k2 if idx else k1` position 0 (idx false) is the else arm: keep the list in index order
        return None if a is None or b is None else b + a
    return None


def dispatch_sites(prog, f):
    """kernel dispatch idiom inside f:  `var = [self.k1, self.k2][idx]` (or a conditional expression, or one assignment per
    branch) ... `var(args)`.

    -> [(var, [candidate method names], first assignment node, [call nodes of var])]
    """
    by_var = {}
    for n in ast.walk(f.node):
        if isinstance(n, ast.Assign) and len(n.targets) == 1 and isinstance(n.targets[0], ast.Name):
            by_var.setdefault(n.targets[0].id, []).append(n)
    out = []
    for var, assigns in by_var.items():
        cands = [_candidates(n.value) for n in assigns]
        if any(c is None for c in cands):
            continue
        names = []
        for c in cands:
            for x in c:
                if x not in names:
                    names.append(x)
        if len(names) < 2:
            continue
        calls = [c for c in ast.walk(f.node) if isinstance(c, ast.Call) and isinstance(c.func, ast.Name) and c.func.id == var]
        if not calls:
            continue
        out.append((var, names, assigns[0], calls))
    return out


def call_arg_map(callee, call, skip_self=False):
    """map callee parameter name -> argument expression for a call (positional + keyword)."""
    params = list(callee.params)
    if skip_self and params and params[0] in ('self', 'cls'):
        params = params[1:]
    m = {}
    for i, a in enumerate(call.args):
        if i < len(params):
            m[params[i]] = a
    for k in call.keywords:
        if k.arg:
            m[k.arg] = k.value
    return m
