"""Algebraic value numbering over tensors: a function's array arithmetic is read from its AST and carried out on numpy *object*
arrays whose cells are rational functions of symbolic inputs (sa.ratfun.Q) - numpy supplies broadcasting, axis reductions and
layout operations, the cells supply exact algebra with uninterpreted `log` atoms.  What the function returns can then be compared,
cell by cell, with its mathematical definition by cross-multiplication of polynomial normal forms.  Nothing of the repository is
imported or executed; statements that repair degenerate cells (`x[x == 0] = 1`) are no-ops on symbolic (generic, positive) cells.
"""
import ast

from .model import norm, const_value
from .ratfun import Q, Unknown

try:
    import numpy as np
except Exception:          # pragma: no cover - the tooling interpreter ships numpy
    np = None


def self_recv(fn, env, te, f):
    try:
        return te.ev(f, fn.value, env)
    except Unknown:
        return None


class _Continue(Exception):
    pass


class _Break(Exception):
    pass


class Raised(Exception):
    def __init__(self, kind):
        super().__init__(kind)
        self.kind = kind


class _Ret(Exception):
    def __init__(self, v):
        self.v = v


class EnumMember:
    """a member of one of the repository's Enum classes (identity comparisons, .value)"""
    _pool = {}

    def __new__(cls, key, name, value):
        k = (key, name)
        if k not in cls._pool:
            o = object.__new__(cls)
            o.key, o.name, o.value = key, name, value
            cls._pool[k] = o
        o = cls._pool[k]
        o.value = value
        return o

    def __repr__(self):
        return f'{self.key.split(":")[-1]}.{self.name}'


def enum_member(prog, modname, cls, name):
    from .model import const_value
    ci = prog.need_class(modname, cls)
    if name not in ci.class_assigns:
        raise Unknown(f'{cls}.{name} is not a member')
    return EnumMember(ci.key, name, const_value(ci.class_assigns[name]))


class FnVal:
    """a repository function used as a value (table of handlers, callback local)"""
    def __init__(self, func):
        self.func = func

    def __repr__(self):
        return f'<function {self.func.key}>'


def _walk_own(fnode):
    stack = list(ast.iter_child_nodes(fnode))
    while stack:
        n = stack.pop()
        yield n
        if isinstance(n, (ast.FunctionDef, ast.AsyncFunctionDef, ast.Lambda, ast.ClassDef)):
            continue
        stack.extend(ast.iter_child_nodes(n))


class ObjVal:
    """instance of a small repository class: the fields its constructor stored, values of cached properties"""

    def __init__(self, cls, fields):
        self.cls, self.fields, self.cache = cls, fields, {}


class TensorEval:
    def __init__(self, prog, cls, seeds):
        if np is None:
            raise Unknown('numpy is not available to the analysis interpreter')
        self.prog, self.cls = prog, cls
        self.seeds = seeds            # normalised text -> value (object ndarray / Q / number)
        self.depth = 0
        self.summaries = {}           # function name -> callable(args, kwargs): trusted summary of a helper
        self._yields = []
        self.numeric = False          # True: allocation functions give numeric arrays (comparison-only code interpreted on small concrete inputs)

    def run(self, f, bind):
        if any(isinstance(n_, (ast.Yield, ast.YieldFrom)) for n_ in _walk_own(f.node)):
            # a generator function, run eagerly: the list of what it yields (sound for generators that do not read state their
            # consumer writes between two items; the ones met here enumerate index ranges)
            self._yields.append([])
            try:
                self._run_body(f, bind)
                return self._yields[-1]
            finally:
                self._yields.pop()
        return self._run_body(f, bind)

    def _run_body(self, f, bind):
        env = dict(bind)
        if self.depth == 0:
            self.last_env = env            # attribute stores of the outermost call are read back from here (`self.x = v` -> 'self.x')
        a_ = f.node.args
        pos = a_.posonlyargs + a_.args
        for p_, d_ in list(zip(pos[len(pos) - len(a_.defaults):], a_.defaults)) + [(p_, d_) for p_, d_ in zip(a_.kwonlyargs, a_.kw_defaults) if d_ is not None]:
            if p_.arg not in env:
                env[p_.arg] = self.ev(f, d_, {})
        try:
            self.block(f, f.node.body, env)
        except _Ret as r:
            return r.v
        return None

    def block(self, f, stmts, env):
        for st in stmts:
            if isinstance(st, ast.Expr) and isinstance(st.value, ast.Yield):
                if not self._yields:
                    raise Unknown('yield outside a generator run')
                self._yields[-1].append(self.ev(f, st.value.value, env) if st.value.value is not None else None)
                continue
            if isinstance(st, ast.Expr) and isinstance(st.value, ast.Call) and any(k.arg == 'out' for k in st.value.keywords):
                self.ev(f, st.value, env)            # a call used for its effect on the `out=` buffer
                continue
            if isinstance(st, ast.Expr):
                c = st.value
                if isinstance(c, ast.Call) and isinstance(c.func, ast.Attribute) and c.func.attr in ('append', 'extend') and isinstance(c.func.value, ast.Name) \
                        and isinstance(env.get(c.func.value.id), list) and len(c.args) == 1:
                    v = self.ev(f, c.args[0], env)
                    if c.func.attr == 'append':
                        env[c.func.value.id].append(v)
                    else:
                        env[c.func.value.id].extend(v)
                continue
            if isinstance(st, ast.Return):
                raise _Ret(self.ev(f, st.value, env) if st.value is not None else None)
            if isinstance(st, ast.For) and not st.orelse:
                it = self.ev(f, st.iter, env)
                if isinstance(it, np.ndarray) and it.dtype != object and it.ndim == 1:
                    it = it.tolist()
                if not isinstance(it, (range, list, tuple)) or len(it) > (4096 if self.numeric else 64):
                    raise Unknown(f'loop over `{norm(st.iter)[:40]}`')
                for x in it:
                    self.bind_target(st.target, x, env)
                    try:
                        self.block(f, st.body, env)
                    except _Continue:
                        continue
                    except _Break:
                        break
                continue
            if isinstance(st, ast.Continue):
                raise _Continue()
            if isinstance(st, ast.Break):
                raise _Break()
            if isinstance(st, ast.Pass):
                continue
            if isinstance(st, ast.Raise):
                raise Raised(norm(st.exc.func) if isinstance(st.exc, ast.Call) else (norm(st.exc) if st.exc is not None else 're-raise'))
            if isinstance(st, ast.Assign) and len(st.targets) > 1 and all(isinstance(t_, ast.Name) for t_ in st.targets):
                v = self.ev(f, st.value, env)
                for t_ in st.targets:
                    env[t_.id] = v
                continue
            if isinstance(st, ast.Assign) and len(st.targets) == 1 and isinstance(st.targets[0], (ast.Tuple, ast.List)):
                v = self.ev(f, st.value, env)
                self.bind_target(st.targets[0], v, env)
                continue
            if isinstance(st, ast.Assign) and len(st.targets) == 1:
                t = st.targets[0]
                if isinstance(t, ast.Subscript) and any(isinstance(n, ast.Compare) for n in ast.walk(t.slice)):
                    continue            # masked repair of degenerate (zero) cells: symbolic cells are generic
                v = self.ev(f, st.value, env)
                if isinstance(t, ast.Subscript):
                    base = self.ev(f, t.value, env)
                    base = self._objectify(base, v, t.value, env)
                    base[self.index(f, t.slice, env)] = v
                    continue
                if isinstance(t, ast.Name):
                    env[t.id] = v
                    continue
                if isinstance(t, ast.Attribute):
                    env[norm(t)] = v
                    continue
                raise Unknown(f'store `{norm(t)[:40]}`')
            if isinstance(st, ast.AugAssign) and isinstance(st.target, (ast.Name, ast.Attribute)):
                k = st.target.id if isinstance(st.target, ast.Name) else norm(st.target)
                cur = self.ev(f, st.target if isinstance(st.target, ast.Attribute) else ast.Name(id=k, ctx=ast.Load()), env)
                res = self.binop(st.op, cur, self.ev(f, st.value, env))
                if isinstance(cur, np.ndarray) and isinstance(res, np.ndarray) and res.shape == cur.shape and (cur.dtype == object or res.dtype != object):
                    cur[...] = res            # `a op= b` on an array acts in place: every other name of the array sees it
                    res = cur
                env[k] = res
                continue
            if isinstance(st, ast.While) and not st.orelse:
                for _ in range(2000):
                    c = self.ev(f, st.test, env)
                    if not (isinstance(c, (bool, int)) or (np is not None and isinstance(c, (np.bool_, np.integer)))):
                        raise Unknown('loop condition on a symbolic value')
                    if not c:
                        break
                    try:
                        self.block(f, st.body, env)
                    except _Continue:
                        continue
                    except _Break:
                        break
                else:
                    raise Unknown('loop bound')
                continue
            if isinstance(st, ast.Try):
                self.block(f, st.body, env)      # handlers convert library errors into the package's own: not a value path
                continue
            if isinstance(st, ast.If):
                try:
                    c = self.ev(f, st.test, env)
                except Unknown:
                    if self.strict_if:
                        raise
                    continue            # warnings / logging about degenerate inputs (tests on symbolic cells)
                if isinstance(c, (bool, int, tuple, list, str, dict, range)) or c is None or (np is not None and isinstance(c, (np.bool_, np.integer))):
                    self.block(f, st.body if c else st.orelse, env)
                continue
            if isinstance(st, ast.AugAssign) and isinstance(st.target, ast.Subscript):
                base = self.ev(f, st.target.value, env)
                i = self.index(f, st.target.slice, env)
                nv_ = self.binop(st.op, base[i], self.ev(f, st.value, env))
                base = self._objectify(base, nv_, st.target.value, env)
                base[i] = nv_
                continue
            raise Unknown(f'statement `{norm(st)[:50]}`')

    def _objectify(self, base, v, target, env):
        """a symbolic / provenance cell stored into a concrete integer buffer bound to a plain local: the buffer becomes an object
        array (the local is rebound; aliases of a concrete buffer are not followed, so only a plain name qualifies)"""
        sym = isinstance(v, np.ndarray) and v.dtype == object or (not isinstance(v, (int, float, bool, np.ndarray, np.generic)) and v is not None)
        if sym and isinstance(base, np.ndarray) and base.dtype != object and isinstance(target, ast.Name) and target.id in env:
            nb = base.astype(object)
            env[target.id] = nb
            return nb
        return base

    def bind_target(self, t, v, env):
        if isinstance(t, ast.Name):
            env[t.id] = v
        elif isinstance(t, (ast.Tuple, ast.List)):
            vs = list(v) if isinstance(v, (list, tuple)) or (np is not None and isinstance(v, np.ndarray)) else None
            stars = [i_ for i_, t_ in enumerate(t.elts) if isinstance(t_, ast.Starred)]
            if vs is not None and len(stars) == 1 and len(vs) >= len(t.elts) - 1:
                # `first, *rest = seq`
                k_ = stars[0]
                n_after = len(t.elts) - k_ - 1
                for t_, v_ in zip(t.elts[:k_], vs[:k_]):
                    self.bind_target(t_, v_, env)
                self.bind_target(t.elts[k_].value, list(vs[k_:len(vs) - n_after]), env)
                for t_, v_ in zip(t.elts[k_ + 1:], vs[len(vs) - n_after:] if n_after else []):
                    self.bind_target(t_, v_, env)
                return
            if vs is None or len(vs) != len(t.elts) or stars:
                raise Unknown('unpacking')
            for t_, v_ in zip(t.elts, vs):
                self.bind_target(t_, v_, env)
        else:
            raise Unknown('loop / unpack target')

    def binop(self, op, l, r):
        if isinstance(op, ast.Add):
            return l + r
        if isinstance(op, ast.Sub):
            return l - r
        if isinstance(op, ast.Mult):
            return l * r
        if isinstance(op, ast.Div):
            return l / r
        if isinstance(op, ast.Pow):
            if isinstance(r, (int, float)):
                if isinstance(r, float) and r != int(r) and isinstance(l, np.ndarray):
                    return np.frompyfunc(lambda q: q ** r, 1, 1)(l)
                return l ** (int(r) if isinstance(r, float) and r == int(r) else r)
            raise Unknown('power')
        if isinstance(op, (ast.BitAnd, ast.BitOr, ast.BitXor)):
            import operator
            return {ast.BitAnd: operator.and_, ast.BitOr: operator.or_, ast.BitXor: operator.xor}[type(op)](l, r)
        if isinstance(op, (ast.LShift, ast.RShift)) and all(isinstance(x, (int, np.integer)) or (isinstance(x, np.ndarray) and x.dtype != object and x.dtype.kind in 'iu') for x in (l, r)):
            return (l << r) if isinstance(op, ast.LShift) else (l >> r)
        if isinstance(op, (ast.LShift, ast.RShift)) and isinstance(r, (int, np.integer)) and not isinstance(r, bool) and r >= 0:
            # provenance words (sa.bitvec cells) shifted by a constant; the zero cells of a fresh buffer stay zero
            from .bitvec import BV
            left = isinstance(op, ast.LShift)

            def sh(x):
                if isinstance(x, BV):
                    return (x << int(r)) if left else (x >> int(r))
                if isinstance(x, (int, np.integer)):
                    return (int(x) << int(r)) if left else (int(x) >> int(r))
                if isinstance(x, (bool, np.bool_)):
                    return (int(x) << int(r)) if left else (int(x) >> int(r))
                if isinstance(x, Q):
                    try:
                        return sh(BV.lift(x))
                    except Exception:
                        raise Unknown('shift of a symbolic value')
                raise Unknown('shift of a symbolic value')
            if isinstance(l, np.ndarray) and l.dtype == object:
                return np.frompyfunc(sh, 1, 1)(l)
            if isinstance(l, (BV, Q)):
                return sh(l)
        if isinstance(op, (ast.FloorDiv, ast.Mod)) and isinstance(l, (int, np.integer)) and isinstance(r, (int, np.integer)) and r != 0:
            return l // r if isinstance(op, ast.FloorDiv) else l % r
        if isinstance(op, ast.MatMult):
            if isinstance(l, np.ndarray) and isinstance(r, np.ndarray) and 1 <= l.ndim <= 2 and 1 <= r.ndim <= 2:
                lo = l.astype(object) if l.dtype != object else l
                ro = r.astype(object) if r.dtype != object else r
                if lo.shape[-1] == 0:        # empty contraction: zeros of the result shape (object dot has no identity to start from)
                    shp = lo.shape[:-1] + ro.shape[1:]
                    out = np.empty(shp, dtype=object)
                    out[...] = Q.const(0)
                    return out
                return np.dot(lo, ro)
            raise Unknown('matrix product')
        raise Unknown(f'operator {type(op).__name__}')

    def index(self, f, sl, env):
        if isinstance(sl, ast.Tuple):
            return tuple(self.index(f, x, env) for x in sl.elts)
        if isinstance(sl, ast.Slice):
            g = lambda x: None if x is None else self.ev(f, x, env)      # noqa: E731
            return slice(g(sl.lower), g(sl.upper), g(sl.step))
        v = self.ev(f, sl, env)
        if v is None or v is Ellipsis or isinstance(v, (int, np.integer)):
            return v
        if isinstance(v, (tuple, list)) and all(isinstance(x, (slice, int, np.integer)) or x is None or x is Ellipsis for x in v) and any(isinstance(x, slice) for x in v):
            return tuple(v)
        if isinstance(v, (list, range, tuple)) and all(isinstance(x, int) for x in v):
            return list(v)
        if np is not None and isinstance(v, np.ndarray) and v.dtype != object:
            return v
        raise Unknown(f'index `{norm(sl)[:30]}`')

    def ev(self, f, e, env):
        t = norm(e)
        if t in env:
            return env[t]
        if t in self.seeds:
            return self.seeds[t]
        if isinstance(e, ast.Constant):
            return e.value
        if isinstance(e, ast.Name):
            if t in ('None',):
                return None
            if t in self.PYTYPES:
                return self.PYTYPES[t]
            r_ = self.prog.resolve(f.mod, e) if self.prog is not None else None
            if r_ is not None and r_[0] == 'func':
                return FnVal(r_[1])
            node_ = f.mod.assigns.get(e.id) if hasattr(f.mod, 'assigns') else None
            if isinstance(node_, (ast.Dict, ast.List, ast.Tuple, ast.Constant)):
                return self.ev(f, node_, {})          # a module-level literal table (handlers by enum member, sizes, names)
            if isinstance(node_, ast.Call) and norm(node_.func).split('.')[-1] in ('array', 'asarray') and node_.args:
                try:
                    lit_ = ast.literal_eval(node_.args[0])
                    return np.array(lit_)                 # a module-level numeric table
                except Exception:
                    pass
            raise Unknown(f'name {e.id}')
        if isinstance(e, ast.Dict) and all(k is not None for k in e.keys):
            return {self.ev(f, k, env): self.ev(f, v, env) for k, v in zip(e.keys, e.values)}
        if isinstance(e, ast.Tuple):
            return tuple(self.ev(f, x, env) for x in e.elts)
        if isinstance(e, ast.List):
            return [self.ev(f, x, env) for x in e.elts]
        if isinstance(e, (ast.ListComp, ast.GeneratorExp)):
            out = []

            def rec(gi, scope):
                if gi == len(e.generators):
                    out.append(self.ev(f, e.elt, scope))
                    return
                g = e.generators[gi]
                src = self.ev(f, g.iter, scope)
                if not isinstance(src, (range, list, tuple)) or len(src) > 256:
                    raise Unknown('comprehension source')
                for x in src:
                    sc = dict(scope)
                    self.bind_target(g.target, x, sc)
                    conds = [self.ev(f, c, sc) for c in g.ifs]
                    if any(not (isinstance(c, (bool, int)) or c is None) for c in conds):
                        raise Unknown('comprehension condition')
                    if all(conds):
                        rec(gi + 1, sc)
            rec(0, env)
            return out
        if isinstance(e, ast.UnaryOp) and isinstance(e.op, ast.USub):
            return -self.ev(f, e.operand, env)
        if isinstance(e, ast.BinOp):
            return self.binop(e.op, self.ev(f, e.left, env), self.ev(f, e.right, env))
        if isinstance(e, ast.Compare) and len(e.ops) > 1:
            # a < b < c: pairwise, left to right, short-circuit (each operand evaluated once in Python; ours are pure)
            sides = [e.left] + list(e.comparators)
            res = True
            for op_, a_, b_ in zip(e.ops, sides, sides[1:]):
                res = self.ev(f, ast.Compare(left=a_, ops=[op_], comparators=[b_]), env)
                if isinstance(res, np.ndarray):
                    raise Unknown('chained comparison of arrays')
                if not res:
                    return res
            return res
        if isinstance(e, ast.Compare) and len(e.ops) == 1:
            import operator
            l, r = self.ev(f, e.left, env), self.ev(f, e.comparators[0], env)
            ops = {ast.Eq: operator.eq, ast.NotEq: operator.ne, ast.Lt: operator.lt, ast.LtE: operator.le, ast.Gt: operator.gt, ast.GtE: operator.ge}
            num = (int, float, np.integer, np.floating, np.bool_)
            if type(e.ops[0]) in ops and isinstance(l, num) and isinstance(r, num):
                return bool(ops[type(e.ops[0])](l, r))
            from .bitvec import BV as _BV
            if isinstance(e.ops[0], (ast.NotEq, ast.Gt)) and isinstance(r, (int, np.integer)) and (isinstance(l, _BV) or (isinstance(l, np.ndarray) and l.dtype == object and l.size and isinstance(l.flat[0], _BV))):
                # single-bit tests of bit-slicing code on provenance words: element-wise, the result keeps the provenance
                return (l != r) if isinstance(l, _BV) else np.frompyfunc(lambda a_: a_ != int(r), 1, 1)(l)
            if type(e.ops[0]) in ops and (isinstance(l, np.ndarray) or isinstance(r, np.ndarray)) and all(not isinstance(x, np.ndarray) or x.dtype != object for x in (l, r)) \
                    and all(isinstance(x, (np.ndarray,) + num) for x in (l, r)):
                return ops[type(e.ops[0])](l, r)
            if isinstance(e.ops[0], (ast.Is, ast.IsNot)) and isinstance(l, str) and isinstance(r, str):
                return (l == r) if isinstance(e.ops[0], ast.Is) else (l != r)
            if isinstance(e.ops[0], (ast.Is, ast.IsNot, ast.Eq, ast.NotEq)) and isinstance(l, EnumMember) and isinstance(r, EnumMember):
                return (l is r) if isinstance(e.ops[0], (ast.Is, ast.Eq)) else (l is not r)
            if isinstance(e.ops[0], (ast.Eq, ast.NotEq)) and isinstance(l, (tuple, list)) and isinstance(r, (tuple, list)) \
                    and all(isinstance(x, (int, np.integer)) for x in list(l) + list(r)):
                same_ = type(l) is type(r) and [int(x) for x in l] == [int(x) for x in r]      # shapes and index lists
                return same_ if isinstance(e.ops[0], ast.Eq) else not same_
            if isinstance(e.ops[0], (ast.Is, ast.IsNot)) and isinstance(l, type) and isinstance(r, type):
                return (l is r) if isinstance(e.ops[0], ast.Is) else (l is not r)
            if isinstance(e.ops[0], (ast.Is, ast.IsNot)) and (l is None or r is None):
                same = l is r
                return same if isinstance(e.ops[0], ast.Is) else not same
            if isinstance(e.ops[0], (ast.Eq, ast.NotEq)) and isinstance(l, str) and isinstance(r, str):
                return (l == r) if isinstance(e.ops[0], ast.Eq) else (l != r)
            raise Unknown('comparison of symbolic values')
        if isinstance(e, ast.BoolOp):
            res = None
            for v_ in e.values:                      # short circuit, like Python
                res = self.ev(f, v_, env)
                if not (isinstance(res, (bool, int, np.bool_, np.integer)) or res is None):
                    raise Unknown('boolean of symbolic values')
                if isinstance(e.op, ast.And) and not res:
                    return res
                if isinstance(e.op, ast.Or) and res:
                    return res
            return res
        if isinstance(e, ast.UnaryOp) and isinstance(e.op, ast.Not):
            v_ = self.ev(f, e.operand, env)
            if isinstance(v_, (bool, int, np.bool_, np.integer, list, tuple, range, dict, str)) or v_ is None:
                return not v_
            raise Unknown('negation of a symbolic value')
        if isinstance(e, ast.IfExp):
            c_ = self.ev(f, e.test, env)
            if isinstance(c_, (bool, int, np.bool_, np.integer, list, tuple, range, dict, str)) or c_ is None:
                return self.ev(f, e.body if c_ else e.orelse, env)          # python containers: true when not empty
            raise Unknown('conditional on a symbolic value')
        if isinstance(e, ast.Attribute) and isinstance(e.value, ast.Name) and isinstance(env.get(e.value.id), ObjVal) and isinstance(e.ctx, ast.Load):
            return self.obj_attr(env[e.value.id], e.attr)
        if isinstance(e, ast.Attribute) and isinstance(e.value, ast.Name) and e.value.id in ('_np', 'np', 'numpy') and e.value.id not in env:
            if e.attr in ('inf', 'nan', 'pi', 'newaxis', 'int32', 'int64', 'uint8', 'uint32', 'float32', 'float64', 'bool_', 'r_', 'integer'):
                return getattr(np, e.attr)
        if isinstance(e, ast.UnaryOp) and isinstance(e.op, ast.Invert):
            v_ = self.ev(f, e.operand, env)
            if isinstance(v_, np.ndarray) and v_.dtype == bool:
                return ~v_
            raise Unknown('bit inversion')
        if isinstance(e, ast.Attribute) and isinstance(e.value, ast.Name) and e.value.id not in env and e.attr.isupper():
            r_ = self.prog.resolve(f.mod, e.value)
            if r_ is not None and r_[0] == 'class' and any('Enum' in b for b in r_[1].ext_bases) and e.attr in r_[1].class_assigns:
                from .model import const_value
                return EnumMember(r_[1].key, e.attr, const_value(r_[1].class_assigns[e.attr]))
        if isinstance(e, ast.Attribute) and e.attr == 'value':
            b_ = self.ev(f, e.value, env)
            if isinstance(b_, EnumMember):
                return b_.value
            raise Unknown(f'attribute {t[:40]}')
        if isinstance(e, ast.Attribute) and e.attr in ('start', 'stop', 'step'):
            b_ = self.ev(f, e.value, env)
            if isinstance(b_, (range, slice)):
                return getattr(b_, e.attr)
            raise Unknown(f'attribute {t[:40]}')
        if isinstance(e, ast.Attribute):
            if e.attr == 'T':
                return self.ev(f, e.value, env).T
            if e.attr == 'shape':
                return np.shape(self.ev(f, e.value, env)) if not isinstance(self.ev(f, e.value, env), Q) else ()
            if e.attr == 'ndim':
                return np.ndim(self.ev(f, e.value, env)) if not isinstance(self.ev(f, e.value, env), Q) else 0
            if e.attr == 'newaxis':
                return None
            if e.attr in ('dtype', 'itemsize'):
                return None             # dtypes carry no value information here (the promotion rules own them)
            raise Unknown(f'attribute {t[:40]}')
        if isinstance(e, ast.Subscript) and norm(e.value).endswith('.r_'):
            elts = e.slice.elts if isinstance(e.slice, ast.Tuple) else [e.slice]
            return np.r_[tuple(self.ev(f, x, env) for x in elts)]
        if isinstance(e, ast.Subscript):
            v = self.ev(f, e.value, env)
            i = self.index(f, e.slice, env)
            if isinstance(v, (tuple, list, range)) and isinstance(i, (int, slice, np.integer)):
                return v[i]
            if isinstance(v, np.ndarray):
                return v[i]
            raise Unknown(f'subscript {t[:40]}')
        if isinstance(e, ast.Call):
            return self.call(f, e, env)
        raise Unknown(f'expression {t[:50]}')

    # ---- small value objects of the repository (a constructor storing its arguments, properties computed from them)
    def make_object(self, ci, args, kw):
        init = self.prog.resolve_method(ci, '__init__')
        if init is None or self.depth > 3:
            raise Unknown(f'constructor of {ci.name}')
        sub = TensorEval(self.prog, ci, {})
        sub.summaries, sub.numeric, sub.call_hook, sub.strict_if = self.summaries, self.numeric, self.call_hook, self.strict_if
        ps = [p_ for p_ in init.params if p_ != 'self']
        if len(args) > len(ps) or any(k_ not in ps for k_ in kw):
            raise Unknown(f'arguments of {ci.name}')
        bind = dict(zip(ps, args))
        bind.update(kw)
        sub.run(init, bind)
        fields = {k_[5:]: v_ for k_, v_ in sub.last_env.items() if isinstance(k_, str) and k_.startswith('self.') and '.' not in k_[5:] and '[' not in k_}
        return ObjVal(ci, fields)

    def obj_attr(self, o, name):
        if name in o.fields:
            return o.fields[name]
        if name in o.cache:
            return o.cache[name]
        g = self.prog.resolve_getter(o.cls, name)
        cached = False
        if g is None:
            m = self.prog.resolve_method(o.cls, name)
            if m is not None and any(norm(d).split('.')[-1].lstrip('_') == 'cached_property' for d in m.node.decorator_list):
                g, cached = m, True
        if g is None or self.depth > 3:
            raise Unknown(f'attribute {name} of a {o.cls.name}')
        sub = TensorEval(self.prog, o.cls, {f'self.{k_}': v_ for k_, v_ in o.fields.items()})
        sub.summaries, sub.numeric, sub.call_hook, sub.strict_if = self.summaries, self.numeric, self.call_hook, self.strict_if
        sub.depth = self.depth + 1
        v = sub.run(g, {})
        if cached:
            o.cache[name] = v
        return v

    call_hook = None          # optional: (call node, Func, env, evaluator) -> value or NotImplemented
    strict_if = False         # True: a branch condition that cannot be evaluated aborts the interpretation (exact evaluation of plumbing code)
    PYTYPES = {'list': list, 'tuple': tuple, 'range': range, 'int': int, 'float': float, 'slice': slice, 'str': str, 'bool': bool, 'dict': dict}

    def call(self, f, e, env):
        if self.call_hook is not None:
            r_ = self.call_hook(e, f, env, self)
            if r_ is not NotImplemented:
                return r_
        fn = e.func
        if isinstance(fn, ast.Name) and fn.id == 'getattr' and fn.id not in env and len(e.args) == 3 and isinstance(e.args[0], ast.Name) and e.args[0].id == 'self' \
                and isinstance(e.args[1], ast.Constant) and isinstance(e.args[1].value, str) and not e.keywords:
            # getattr(self, 'name', default): the attribute when this call path (or the seeds) bound it, else the default
            t_ = 'self.' + e.args[1].value
            if t_ in env:
                return env[t_]
            if t_ in self.seeds:
                return self.seeds[t_]
            return self.ev(f, e.args[2], env)
        name = norm(fn).split('.')[-1]
        kw = {k.arg: self.ev(f, k.value, env) for k in e.keywords if k.arg and k.arg != 'dtype'}
        dtype_txt = next((norm(k.value) for k in e.keywords if k.arg == 'dtype'), None)
        np_call = isinstance(fn, ast.Attribute) and norm(fn.value) in ('_np', 'np', 'numpy')
        if name in self.summaries and isinstance(fn, ast.Attribute) and norm(fn.value) == 'self':
            return self.summaries[name]([self.ev(f, a, env) for a in e.args], kw)
        if isinstance(fn, ast.Attribute) and norm(fn.value) == 'self' and self.cls is not None:
            g = self.prog.resolve_method(self.cls, fn.attr)
            if g is None or self.depth > 3:
                raise Unknown(f'method {fn.attr}')
            ps = [p_ for p_ in g.params if p_ != 'self']
            bind = {}
            for p_, a_ in zip(ps, e.args):
                bind[p_] = self.ev(f, a_, env)
            bind.update(kw)
            a_ = g.node.args
            allp = [x.arg for x in a_.posonlyargs + a_.args]
            for p_, d_ in (zip(allp[len(allp) - len(a_.defaults):], a_.defaults) if a_.defaults else ()):
                if p_ not in bind:
                    bind[p_] = self.ev(g, d_, {})
            self.depth += 1
            try:
                return self.run(g, bind)
            finally:
                self.depth -= 1
        if name in self.summaries and (isinstance(fn, ast.Name) or (isinstance(fn, ast.Attribute) and isinstance(fn.value, ast.Name) and fn.value.id not in env)):
            return self.summaries[name]([self.ev(f, a, env) for a in e.args], kw)
        if isinstance(fn, ast.Name) and fn.id == 'isinstance' and fn.id not in env and len(e.args) == 2 and self.numeric:
            tnodes = e.args[1].elts if isinstance(e.args[1], ast.Tuple) else [e.args[1]]
            types = []
            for t_ in tnodes:
                tt = norm(t_)
                if tt in self.PYTYPES and tt not in env:
                    types.append(self.PYTYPES[tt])
                elif tt in ('_np.ndarray', 'np.ndarray', 'numpy.ndarray'):
                    types.append(np.ndarray)
                elif tt in ('_np.integer', 'np.integer', 'numpy.integer'):
                    types.append(np.integer)
                elif tt in ('type(None)', 'NoneType'):
                    types.append(type(None))
                elif tt in ('type(...)', 'type(Ellipsis)'):
                    types.append(type(Ellipsis))
                else:
                    raise Unknown(f'isinstance against `{tt[:30]}`')
            v_ = self.ev(f, e.args[0], env)
            if isinstance(v_, (Q, EnumMember)) or (isinstance(v_, np.ndarray) and v_.dtype == object):
                raise Unknown('isinstance of a symbolic value')
            return isinstance(v_, tuple(types))
        if not self.numeric and np_call and name == 'where' and len(e.args) == 3 and isinstance(e.args[0], ast.Compare):
            v2 = self.ev(f, e.args[2], env)
            if isinstance(v2, np.ndarray) and v2.dtype == object or isinstance(v2, Q):
                return v2                # repair of degenerate (zero / non-finite) cells: symbolic cells are generic, the mask is empty
        args = []
        for a in e.args:
            if isinstance(a, ast.Starred):
                sv_ = self.ev(f, a.value, env)          # `*seq` of a concrete python sequence
                if not isinstance(sv_, (tuple, list, range)):
                    raise Unknown('star argument that is not a plain sequence')
                args.extend(sv_)
            else:
                args.append(self.ev(f, a, env))
        if isinstance(fn, (ast.Name, ast.Attribute)) and name not in self.summaries and not (isinstance(fn, ast.Name) and fn.id in env) and not np_call:
            r_ = self.prog.resolve(f.mod, fn) if not (isinstance(fn, ast.Attribute) and norm(fn.value) == 'self') else None
            if r_ and r_[0] == 'class' and self.prog.resolve_method(r_[1], '__init__') is not None and not r_[1].ext_bases:
                return self.make_object(r_[1], args, kw)
        if np_call and name == 'unpackbits' and len(args) == 1 and isinstance(args[0], np.ndarray) and args[0].dtype == object \
                and kw.get('axis') in (1, -1) and args[0].ndim == 2 and kw.get('bitorder', 'big') == 'big':
            # bytes of provenance words split into their bits, most significant first (one single-bit word per output cell)
            from .bitvec import BV
            src_ = args[0]
            out_ = np.empty((src_.shape[0], src_.shape[1] * 8), dtype=object)
            for i_ in range(src_.shape[0]):
                for j_ in range(src_.shape[1]):
                    w_ = BV.lift(src_[i_, j_])
                    if len(w_.bits) > 8:
                        raise Unknown('unpackbits of words wider than a byte')
                    for b_ in range(8):
                        out_[i_, j_ * 8 + b_] = BV([w_.get(7 - b_)])
            cnt_ = kw.get('count')
            return out_[:, :cnt_] if isinstance(cnt_, (int, np.integer)) else out_
        if isinstance(fn, ast.Attribute) and fn.attr == 'indices' and len(args) == 1 and isinstance(args[0], (int, np.integer)) and not kw:
            try:
                recv_ = self.ev(f, fn.value, env)
            except Unknown:
                recv_ = None
            if isinstance(recv_, slice):
                return recv_.indices(int(args[0]))
        if isinstance(fn, ast.Name) and isinstance(env.get(fn.id), FnVal) and self.depth < 4:
            g = env[fn.id].func
            ps = [x for x in g.params]
            bind = dict(zip(ps, args))
            bind.update(kw)
            self.depth += 1
            try:
                return self.run(g, bind)
            finally:
                self.depth -= 1
        if isinstance(fn, ast.Attribute) and fn.attr == 'get' and 1 <= len(args) <= 2 and not isinstance(fn.value, ast.Constant):
            try:
                recv_ = self.ev(f, fn.value, env)
            except Unknown:
                recv_ = None
            if isinstance(recv_, dict):
                try:
                    return recv_.get(args[0], args[1] if len(args) > 1 else None)
                except TypeError:
                    raise Unknown('unhashable dictionary key')
        if isinstance(fn, ast.Name) and fn.id == 'type' and fn.id not in env and len(args) == 1:
            if isinstance(args[0], (Q, EnumMember, FnVal)) or (isinstance(args[0], np.ndarray) and args[0].dtype == object):
                raise Unknown('type of a symbolic value')
            return type(args[0])
        if isinstance(fn, ast.Name) and fn.id == 'slice' and fn.id not in env and all(a is None or isinstance(a, (int, np.integer)) for a in args) and 1 <= len(args) <= 3:
            return slice(*[None if a is None else int(a) for a in args])
        if isinstance(fn, ast.Name) and fn.id == 'range' and all(isinstance(a, (int, np.integer)) for a in args):
            return range(*[int(a) for a in args])
        if isinstance(fn, ast.Name) and fn.id == 'len' and len(args) == 1:
            return len(args[0])
        seqs = (range, list, tuple) + ((np.ndarray,) if np is not None else ())        # an array iterates over its first axis
        if isinstance(fn, ast.Name) and fn.id == 'enumerate' and len(args) == 1 and isinstance(args[0], seqs) and not (isinstance(args[0], np.ndarray) and args[0].ndim == 0):
            return [(i, x) for i, x in enumerate(args[0])]
        if isinstance(fn, ast.Name) and fn.id == 'zip' and all(isinstance(a, seqs) and not (isinstance(a, np.ndarray) and a.ndim == 0) for a in args):
            return [tuple(t) for t in zip(*args)]
        if name == 'sqrt' and len(args) == 1:
            a = args[0]
            return np.frompyfunc(lambda q: q.sqrt(), 1, 1)(a) if isinstance(a, np.ndarray) else Q.lift(a).sqrt()
        if not np_call and isinstance(fn, (ast.Name, ast.Attribute)) and not (isinstance(fn, ast.Attribute) and isinstance(self_recv(fn, env, self, f), np.ndarray)):
            r = self.prog.resolve(f.mod, fn) if self.prog is not None else None
            if r and r[0] == 'func' and r[1].mod.name.startswith('scared.') and self.depth < 4:
                g = r[1]
                bind = {}
                a_ = g.node.args
                ps = [x.arg for x in a_.posonlyargs + a_.args]
                defaults = dict(zip(ps[len(ps) - len(a_.defaults):], a_.defaults)) if a_.defaults else {}
                for p_, v_ in zip(ps, args):
                    bind[p_] = v_
                bind.update(kw)
                for p_ in ps:
                    if p_ not in bind and p_ in defaults:
                        bind[p_] = self.ev(g, defaults[p_], {})
                self.depth += 1
                try:
                    return self.run(g, bind)
                finally:
                    self.depth -= 1
        if isinstance(fn, ast.Name) and fn.id in ('list', 'tuple') and len(args) == 1:
            return list(args[0]) if fn.id == 'list' else tuple(args[0])
        if isinstance(fn, ast.Name) and fn.id in ('int', 'min', 'max', 'abs') and args and all(isinstance(a, (int, float)) for a in args):
            return {'int': int, 'min': min, 'max': max, 'abs': abs}[fn.id](*args)
        if isinstance(fn, ast.Name) and fn.id == 'sum' and len(args) == 1 and isinstance(args[0], (range, list, tuple)) and all(isinstance(x, int) for x in args[0]):
            return sum(args[0])
        if np_call and name == 'empty' and args:
            out = np.empty(args[0], dtype=object)
            out[...] = Q.sym('UNINITIALISED')
            return out
        if self.numeric and np_call and name in ('array', 'asarray') and len(args) == 1 and isinstance(args[0], (list, tuple, np.ndarray)):
            flat = np.array(args[0], dtype=object).ravel().tolist() if not isinstance(args[0], np.ndarray) else []
            if all(isinstance(x, (int, float, bool, np.integer, np.floating)) for x in flat) and not (isinstance(args[0], np.ndarray) and args[0].dtype == object):
                dt = (dtype_txt or '').strip('\'"').split('.')[-1]
                return np.array(args[0], dtype=dt) if dt in ('int32', 'int64', 'uint8', 'uint16', 'uint32', 'uint64', 'int8', 'int16', 'float32', 'float64', 'bool') else np.array(args[0])
        if self.numeric and np_call and name in ('zeros', 'ones', 'empty') and args:
            dt = (dtype_txt or 'float64').strip('\'"').split('.')[-1]
            dt = {'bool_': bool, 'bool': bool}.get(dt, dt if dt in ('int8', 'int16', 'int32', 'int64', 'uint8', 'uint16', 'uint32', 'uint64', 'float32', 'float64', 'int') else 'float64')
            return getattr(np, 'zeros' if name == 'empty' else name)(args[0], dtype=dt)
        if np_call and name in ('where', 'nonzero', 'flatnonzero', 'bitwise_and', 'bitwise_or', 'logical_and', 'logical_or', 'logical_not', 'vstack', 'hstack', 'tile', 'take',
                                'argsort', 'sort', 'unique', 'isin', 'any', 'all', 'count_nonzero', 'abs', 'absolute', 'sign', 'minimum', 'maximum', 'clip', 'repeat', 'column_stack') and args \
                and all(not isinstance(a, np.ndarray) or a.dtype != object or name in ('take', 'vstack', 'hstack', 'tile', 'repeat', 'column_stack') for a in args):
            kw2 = {k: v for k, v in kw.items() if k in ('axis', 'mode')}
            return getattr(np, name)(*args, **kw2)
        if isinstance(fn, ast.Name) and fn.id in ('abs', 'int', 'min', 'max', 'bool') and args and all(isinstance(a, (int, float, np.integer, np.floating, np.bool_)) for a in args):
            return {'abs': abs, 'int': int, 'min': min, 'max': max, 'bool': bool}[fn.id](*args)
        if np_call and name in ('zeros', 'ones') and args:
            if dtype_txt is not None and dtype_txt.strip('\'"').split('.')[-1] in ('int', 'int64', 'int32', 'intp'):
                return getattr(np, name)(args[0], dtype=int)
            out = np.empty(args[0], dtype=object)
            out[...] = Q.const(0 if name == 'zeros' else 1)
            return out
        if np_call and name in ('cumsum', 'roll', 'flip', 'concatenate', 'diff', 'arange') and args:
            kw2 = {k: v for k, v in kw.items() if k in ('axis', 'shift', 'n')}
            return getattr(np, name)(*args, **kw2)
        recv = None if np_call or not isinstance(fn, ast.Attribute) else self.ev(f, fn.value, env)
        a0 = recv if recv is not None else (args[0] if args else None)
        rest = args if recv is not None else args[1:]
        if isinstance(a0, np.ndarray):
            if name in ('sum', 'nansum'):
                ax = kw.get('axis', rest[0] if rest else None)
                res_ = a0.sum(axis=ax, keepdims=bool(kw.get('keepdims', False)))
                if isinstance(kw.get('out'), np.ndarray):
                    kw['out'][...] = res_              # the reduction written into the caller's buffer (a view writes through)
                    return kw['out']
                return res_
            if name in ('mean', 'nanmean'):
                ax = kw.get('axis', rest[0] if rest else None)
                n = a0.size if ax is None else a0.shape[ax]
                return a0.sum(axis=ax, keepdims=bool(kw.get('keepdims', False))) / n
            if name in ('cumsum', 'cumprod') :
                return getattr(a0, name)(axis=kw.get('axis', rest[0] if rest else None))
            if name == 'swapaxes':
                return a0.swapaxes(*(rest[:2] if rest else (kw['axis1'], kw['axis2'])))
            if name == 'moveaxis':
                return np.moveaxis(a0, rest[0], rest[1])
            if name == 'transpose':
                axes = rest[0] if len(rest) == 1 and isinstance(rest[0], (tuple, list)) else (tuple(rest) if rest else kw.get('axes'))
                return a0.transpose(axes) if axes else a0.transpose()
            if name == 'expand_dims':
                return np.expand_dims(a0, kw.get('axis', rest[0] if rest else None))
            if name in ('log',):
                return np.frompyfunc(lambda q: q.log(), 1, 1)(a0)
            if name in ('astype', 'copy', 'asarray', 'array', 'ascontiguousarray', 'nan_to_num', 'squeeze') and name != 'squeeze':
                return a0.copy()
            if name == 'squeeze':
                return a0.squeeze()
            if name == 'reshape' and rest:
                return a0.reshape(rest[0] if len(rest) == 1 else tuple(rest))
            if name in ('flatten', 'ravel') and not rest:
                return a0.reshape(-1)
            if name in ('multiply', 'divide', 'true_divide', 'subtract', 'add') and len(args) == 2:
                return {'multiply': lambda x, y: x * y, 'divide': lambda x, y: x / y, 'true_divide': lambda x, y: x / y, 'subtract': lambda x, y: x - y, 'add': lambda x, y: x + y}[name](args[0], args[1])
            if name == 'where' and len(args) == 3:
                raise Unknown('where')
        if name == 'where' and len(args) == 3 and isinstance(args[2], np.ndarray):
            from .infnan import is_nan_expr
            if is_nan_expr(e.args[1]):
                return args[2]
        if name == 'len' and args:
            return len(args[0])
        raise Unknown(f'call {norm(fn)[:40]}')
