"""Bit-vector provenance cells for the tensor interpreter (E4 on top of E15).

A BV is a word whose every bit is 0, 1 or one named source bit ('src', name, byte, bit); the operations of bit-slicing code are
closed on them as long as bits never mix: `& constant`, shifts, `* power of two`, `+` / `|` / `^` of words with disjoint support,
`!= 0` / `> 0` on a word with a single live bit.  Anything that would combine two source bits in one position (a carry, an xor of
data) raises Mix - the code then is not a bit selection and the caller reports it.  Held as cells of numpy object arrays, they let
numpy itself do the fancy indexing, strided stores, broadcasting and axis sums of vectorised forms.
"""


class Mix(Exception):
    pass


class BV:
    __slots__ = ('bits',)
    __array_priority__ = 0

    def __init__(self, bits):
        bits = list(bits)
        while bits and bits[-1] == 0:
            bits.pop()
        self.bits = tuple(bits)

    @staticmethod
    def source(name, byte, width=8):
        return BV([('src', name, byte, i) for i in range(width)])

    @staticmethod
    def const(v):
        if v < 0:
            raise Mix('negative constant')
        out = []
        while v:
            out.append(v & 1)
            v >>= 1
        return BV(out)

    def get(self, i):
        return self.bits[i] if 0 <= i < len(self.bits) else 0

    def is_const(self):
        return all(b in (0, 1) for b in self.bits)

    def value(self):
        return sum(1 << i for i, b in enumerate(self.bits) if b == 1)

    @staticmethod
    def lift(o):
        if isinstance(o, BV):
            return o
        if isinstance(o, bool) or type(o).__name__ in ('bool_', 'bool'):
            return BV.const(1 if o else 0)
        if isinstance(o, int) or type(o).__module__ == 'numpy' and type(o).__name__.startswith(('int', 'uint')):
            return BV.const(int(o))
        # rational-function zero / one cells of the symbolic interpreter (np.zeros buffers)
        rf = getattr(o, 'rf', None)
        if rf is not None:
            from .ratfun import Poly
            for c in (0, 1):
                if rf.num == Poly.const(c) * rf.den:
                    return BV.const(c)
        raise Mix(f'operand {type(o).__name__}')

    # ---- bitwise
    def __and__(self, o):
        o = BV.lift(o)
        out = []
        for i in range(max(len(self.bits), len(o.bits))):
            a, b = self.get(i), o.get(i)
            if a == 0 or b == 0:
                out.append(0)
            elif a == 1:
                out.append(b)
            elif b == 1:
                out.append(a)
            elif a == b:
                out.append(a)
            else:
                raise Mix('and of two data bits')
        return BV(out)
    __rand__ = __and__

    def _join(self, o, what):
        o = BV.lift(o)
        out = []
        for i in range(max(len(self.bits), len(o.bits))):
            a, b = self.get(i), o.get(i)
            if a == 0:
                out.append(b)
            elif b == 0:
                out.append(a)
            else:
                raise Mix(f'{what} of overlapping bits at position {i} (bits would mix: carry / combination of data)')
        return BV(out)

    def __or__(self, o):
        return self._join(o, 'or')
    __ror__ = __or__

    def __xor__(self, o):
        return self._join(o, 'xor')
    __rxor__ = __xor__

    def __add__(self, o):
        return self._join(o, 'sum')
    __radd__ = __add__

    def __lshift__(self, k):
        k = BV.lift(k)
        if not k.is_const():
            raise Mix('shift by data')
        return BV([0] * k.value() + list(self.bits))

    def __rshift__(self, k):
        k = BV.lift(k)
        if not k.is_const():
            raise Mix('shift by data')
        return BV(list(self.bits[k.value():]))

    def __mul__(self, o):
        o = BV.lift(o)
        a, b = (self, o) if o.is_const() else (o, self)
        if not b.is_const():
            raise Mix('product of data')
        v = b.value()
        if v == 0:
            return BV([])
        if v & (v - 1):
            # a sum of powers of two of one word: only when the shifted copies do not overlap
            out = BV([])
            i = 0
            while v:
                if v & 1:
                    out = out + (a << i)
                v >>= 1
                i += 1
            return out
        return a << (v.bit_length() - 1)
    __rmul__ = __mul__

    # ---- tests on a single bit
    def _nonzero(self):
        live = [b for b in self.bits if b != 0]
        if not live:
            return BV([])
        if len(live) == 1:
            return BV([live[0]])
        raise Mix('truth value of a word with several live bits')

    def __ne__(self, o):
        o = BV.lift(o)
        if o.is_const() and o.value() == 0:
            return self._nonzero()
        raise Mix('comparison with a non-zero value')

    def __gt__(self, o):
        return self.__ne__(o)

    def __eq__(self, o):
        raise Mix('equality test on data')

    def __hash__(self):
        return hash(self.bits)

    def __repr__(self):
        return 'BV(' + ','.join('0' if b == 0 else ('1' if b == 1 else f'{b[1]}{b[2]}.{b[3]}') for b in reversed(self.bits)) + ')'
