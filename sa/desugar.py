"""Desugaring of `with` statements whose context manager is defined in the repository, so that path/effect rules written for
try/except see the same behaviour.

  generator form   @contextlib.contextmanager def cm(params): <pre>; try: yield ... / yield; <post>
                   `with cm(args): BODY`  ->  the generator body with parameters substituted and the `yield` statement replaced by
                   BODY (the `as` target, if any, is bound to the yielded value first).
  class form       a class whose __enter__ snapshots `dict(<obj>.__dict__)` of the object given to its constructor and whose
                   __exit__ - only when an exception is in flight - clears and restores that dictionary and never returns a true
                   value (the exception propagates):
                   `with CM(obj): BODY`  ->  `_s = dict(obj.__dict__)` / `try: BODY` / `except BaseException: obj.__dict__.clear();
                   obj.__dict__.update(_s); raise`.
  lifecycle form   a class whose __enter__ runs set-up statements on its constructor arguments and whose __exit__ runs the same
                   clean-up whatever the outcome: `with CM(args): BODY` -> set-up; `try: BODY` / `finally: clean-up`.
  translation form a class whose __enter__ returns self and whose __exit__ only re-raises selected exception types as another
                   exception: `with CM(args): BODY` -> `try: BODY` / `except E as _e: raise X(...)`.
Anything else is left untouched (the rules then treat the `with` body as plain statements, as before).
The rewrite mutates the FunctionDef nodes of *this* Program instance only (each check run builds its own).
"""
import ast
import copy

from .model import norm
from .inline import Subst, bind


def _is_ctxmgr(prog, f):
    return any(name.split('.')[-1] == 'contextmanager' for name, _ in prog.decorators(f))


def _class_form(prog, ci):
    """-> name of the constructor parameter whose __dict__ is snapshotted/restored, or None"""
    init, enter, exit_ = ci.methods.get('__init__'), ci.methods.get('__enter__'), ci.methods.get('__exit__')
    if not (init and enter and exit_) or len(init.params) != 2:
        return None
    obj_attr = None
    for s in ast.walk(init.node):
        if isinstance(s, ast.Assign) and isinstance(s.targets[0], ast.Attribute) and norm(s.targets[0].value) == 'self' and norm(s.value) == init.params[1]:
            obj_attr = s.targets[0].attr
    if obj_attr is None:
        return None
    snap_attr = None
    for s in ast.walk(enter.node):
        if isinstance(s, ast.Assign) and isinstance(s.targets[0], ast.Attribute) and norm(s.targets[0].value) == 'self' \
                and norm(s.value).replace(' ', '') in (f'dict(self.{obj_attr}.__dict__)', f'self.{obj_attr}.__dict__.copy()', f'dict(vars(self.{obj_attr}))'):
            snap_attr = s.targets[0].attr
    if snap_attr is None:
        return None
    body = [s for s in exit_.node.body if not (isinstance(s, ast.Expr) and isinstance(s.value, ast.Constant))]
    exc = exit_.params[1] if len(exit_.params) > 1 else None
    if exc is None or not body or not isinstance(body[0], ast.If):
        return None
    t = norm(body[0].test).replace(' ', '')
    if t not in (f'{exc}isnotNone', exc):
        return None
    txt = ';'.join(norm(s).replace(' ', '') for s in body[0].body)
    ok = (f'self.{obj_attr}.__dict__.clear()' in txt and f'self.{obj_attr}.__dict__.update(self.{snap_attr})' in txt) or f'self.{obj_attr}.__dict__=self.{snap_attr}' in txt
    if not ok or body[0].orelse:
        return None
    for r in ast.walk(exit_.node):
        if isinstance(r, ast.Return) and r.value is not None and not (isinstance(r.value, ast.Constant) and not r.value.value):
            return None           # may swallow the exception
    return init.params[1]


def _translation_form(prog, ci):
    """a class whose __enter__ only returns self and whose __exit__ only re-raises selected exception types as another exception
    (`if exc_type is not None and issubclass(exc_type, E): raise X(...)`) and never returns a true value:
    -> ([(E expr, raise statement)], {attribute: constructor parameter}) or None"""
    init, enter, exit_ = ci.methods.get('__init__'), ci.methods.get('__enter__'), ci.methods.get('__exit__')
    if not (enter and exit_) or len(exit_.params) != 4:
        return None
    attrs = {}
    if init is not None:
        for s in init.node.body:
            if isinstance(s, ast.Expr) and isinstance(s.value, ast.Constant):
                continue
            if isinstance(s, ast.Assign) and len(s.targets) == 1 and isinstance(s.targets[0], ast.Attribute) and norm(s.targets[0].value) == 'self' \
                    and isinstance(s.value, ast.Name) and s.value.id in init.params[1:]:
                attrs[s.targets[0].attr] = s.value.id
            else:
                return None
    eb = [s for s in enter.node.body if not (isinstance(s, ast.Expr) and isinstance(s.value, ast.Constant))]
    if not all(isinstance(s, ast.Pass) or (isinstance(s, ast.Return) and (s.value is None or norm(s.value) == 'self')) for s in eb):
        return None
    et, ev = exit_.params[1], exit_.params[2]
    out = []
    for s in exit_.node.body:
        if isinstance(s, ast.Expr) and isinstance(s.value, ast.Constant):
            continue
        if isinstance(s, ast.Return) and (s.value is None or (isinstance(s.value, ast.Constant) and not s.value.value)):
            continue
        if isinstance(s, ast.If) and not s.orelse and len(s.body) == 1 and isinstance(s.body[0], ast.Raise) and s.body[0].exc is not None:
            t = s.test
            vals = t.values if isinstance(t, ast.BoolOp) and isinstance(t.op, ast.And) else [t]
            typ = None
            for v in vals:
                vt = norm(v).replace(' ', '')
                if vt in (f'{et}isnotNone', f'{ev}isnotNone', et, ev):
                    continue
                if isinstance(v, ast.Call) and isinstance(v.func, ast.Name) and len(v.args) == 2 and \
                        ((v.func.id == 'issubclass' and norm(v.args[0]) == et) or (v.func.id == 'isinstance' and norm(v.args[0]) == ev)) and typ is None:
                    typ = v.args[1]
                    continue
                return None
            if typ is None:
                return None
            out.append((typ, s.body[0]))
            continue
        return None
    return (out, attrs, init, ev) if out else None


def _lifecycle_form(prog, ci):
    """a class whose __enter__ runs set-up statements and returns self, and whose __exit__ runs the same clean-up whatever the
    outcome (it never reads its exception arguments) and never returns a true value; the manager keeps nothing but its
    constructor arguments:  `with CM(args): BODY` -> set-up; `try: BODY` / `finally: clean-up`.
    -> (enter statements, exit statements, {attribute: constructor parameter}, __init__) or None"""
    init, enter, exit_ = ci.methods.get('__init__'), ci.methods.get('__enter__'), ci.methods.get('__exit__')
    if not (init and enter and exit_) or len(exit_.params) != 4 or len(enter.params) != 1:
        return None
    attrs = {}
    for s in init.node.body:
        if isinstance(s, ast.Expr) and isinstance(s.value, ast.Constant):
            continue
        if isinstance(s, ast.Assign) and len(s.targets) == 1 and isinstance(s.targets[0], ast.Attribute) and norm(s.targets[0].value) == 'self' \
                and isinstance(s.value, ast.Name) and s.value.id in init.params[1:]:
            attrs[s.targets[0].attr] = s.value.id
        else:
            return None
    parts = []
    for m, kind in ((enter, 'enter'), (exit_, 'exit')):
        body = [s for s in m.node.body if not (isinstance(s, ast.Expr) and isinstance(s.value, ast.Constant))]
        if body and isinstance(body[-1], ast.Return):
            r = body[-1]
            okr = (r.value is None or norm(r.value) == 'self') if kind == 'enter' else (r.value is None or (isinstance(r.value, ast.Constant) and not r.value.value))
            if not okr:
                return None
            body = body[:-1]
        if any(isinstance(n, (ast.Return, ast.Yield, ast.YieldFrom, ast.FunctionDef, ast.Lambda, ast.Global, ast.Nonlocal)) for s in body for n in ast.walk(s)):
            return None
        pm = {}
        for s in body:
            for n in ast.walk(s):
                for c in ast.iter_child_nodes(n):
                    pm[c] = n
        for s in body:
            for n in ast.walk(s):
                if isinstance(n, ast.Name) and n.id == 'self':
                    par = pm.get(n)
                    if not (isinstance(par, ast.Attribute) and par.attr in attrs and isinstance(par.ctx, ast.Load)):
                        return None
                if isinstance(n, ast.Name) and kind == 'exit' and n.id in exit_.params[1:]:
                    return None
        parts.append(body)
    if not parts[1]:
        return None
    return parts[0], parts[1], attrs, init


class _W(ast.NodeTransformer):
    def __init__(self, prog, f):
        self.prog, self.f = prog, f
        self.n = 0
        self.done = []

    def visit_FunctionDef(self, node):
        if node is not self.f.node:
            return node
        self.generic_visit(node)
        return node

    def visit_With(self, node):
        self.generic_visit(node)
        if len(node.items) != 1:
            return node
        item = node.items[0]
        call = item.context_expr
        if not isinstance(call, ast.Call):
            return node
        r = self.prog.resolve(self.f.mod, call.func) if isinstance(call.func, (ast.Name, ast.Attribute)) else None
        if r is None and isinstance(call.func, ast.Attribute) and norm(call.func.value) == 'self' and self.f.cls is not None:
            m = self.prog.resolve_method(self.f.cls, call.func.attr)
            r = ('func', m) if m is not None else None
        if r and r[0] == 'func' and _is_ctxmgr(self.prog, r[1]):
            return self.generator_form(node, item, call, r[1])
        if r and r[0] == 'class':
            p = _class_form(self.prog, r[1])
            if p is not None and len(call.args) + len(call.keywords) == 1:
                obj = call.args[0] if call.args else call.keywords[0].value
                return self.class_form(node, obj)
            lf = _lifecycle_form(self.prog, r[1])
            if lf is not None and item.optional_vars is None:
                rep = self.lifecycle_form(node, call, lf)
                if rep is not None:
                    return rep
            tf = _translation_form(self.prog, r[1])
            if tf is not None and item.optional_vars is None:
                return self.translation_form(node, call, tf)
        return node

    def lifecycle_form(self, node, call, lf):
        enter_b, exit_b, attrs, init = lf
        b = bind(init, call, True)
        if b is None or '__nva__' in b or not all(isinstance(a, (ast.Name, ast.Attribute, ast.Constant)) for a in b.values()):
            return None
        # the arguments are read again at exit: they must not be rebound by the body
        stored = {n.id for s in node.body for n in ast.walk(s) if isinstance(n, ast.Name) and isinstance(n.ctx, (ast.Store, ast.Del))}
        if any(isinstance(n, ast.Name) and n.id in stored for a in b.values() for n in ast.walk(a)):
            return None
        self.n += 1
        tag = f'_cm{self.n}_'

        class A(ast.NodeTransformer):
            def __init__(self_, locals_):
                self_.locals = locals_

            def visit_Attribute(self_, n):
                if norm(n.value) == 'self' and n.attr in attrs and attrs[n.attr] in b:
                    return copy.deepcopy(b[attrs[n.attr]])
                self_.generic_visit(n)
                return n

            def visit_Name(self_, n):
                if n.id in self_.locals:
                    return ast.copy_location(ast.Name(id=tag + n.id, ctx=n.ctx), n)
                return n
        out = []
        for body in (enter_b, exit_b):
            locals_ = {n.id for s in body for n in ast.walk(s) if isinstance(n, ast.Name) and isinstance(n.ctx, (ast.Store, ast.Del))}
            out.append([A(locals_).visit(copy.deepcopy(s)) for s in body])
        t = ast.Try(body=node.body, handlers=[], orelse=[], finalbody=out[1])
        new = out[0] + [t]
        for s_ in new:
            ast.copy_location(s_, node)
            ast.fix_missing_locations(s_)
        self.done.append('lifecycle form')
        return new

    def translation_form(self, node, call, tf):
        handlers_, attrs, init, ev = tf
        b = bind(init, call, True) if init is not None else {}
        if b is None or '__nva__' in b:
            return node
        self.n += 1
        var = f'_cm{self.n}_error'

        class A(ast.NodeTransformer):
            # self.<attr> of the manager reads the constructor argument; the exception value is the handler's name
            def visit_Attribute(self_, n):
                if norm(n.value) == 'self' and n.attr in attrs and attrs[n.attr] in b:
                    return copy.deepcopy(b[attrs[n.attr]])
                self_.generic_visit(n)
                return n

            def visit_Name(self_, n):
                if n.id == ev:
                    return ast.copy_location(ast.Name(id=var, ctx=n.ctx), n)
                return n
        hs = []
        for typ, rs in handlers_:
            rs2 = A().visit(copy.deepcopy(rs))
            if any(isinstance(x, ast.Name) and x.id == 'self' for x in ast.walk(rs2)) and not (self.f.cls is not None):
                return node
            hs.append(ast.ExceptHandler(type=copy.deepcopy(typ), name=var, body=[rs2]))
        t = ast.Try(body=node.body, handlers=hs, orelse=[], finalbody=[])
        ast.copy_location(t, node)
        ast.fix_missing_locations(t)
        self.done.append('translation form')
        return t

    def class_form(self, node, obj):
        self.n += 1
        var = f'_cm{self.n}_state'
        o = norm(obj)
        src = (f'{var} = dict({o}.__dict__)\n'
               f'try:\n    pass\nexcept BaseException:\n    {o}.__dict__.clear()\n    {o}.__dict__.update({var})\n    raise\n')
        new = ast.parse(src).body
        new[1].body = node.body
        for s in new:
            ast.copy_location(s, node)
            ast.fix_missing_locations(s)
        self.done.append('class form')
        return new

    def generator_form(self, node, item, call, g):
        is_method = g.cls is not None
        b = bind(g, call, is_method)
        if b is not None and '__nva__' in b:
            b = None
        if b is None:
            return node
        body = [s for s in g.node.body if not (isinstance(s, ast.Expr) and isinstance(s.value, ast.Constant))]
        yields = [n for s in body for n in ast.walk(s) if isinstance(n, (ast.Yield, ast.YieldFrom))]
        if len(yields) != 1 or isinstance(yields[0], ast.YieldFrom):
            return node
        self.n += 1
        tag = f'_cm{self.n}_'
        locals_ = {n.id for s in body for n in ast.walk(s) if isinstance(n, ast.Name) and isinstance(n.ctx, ast.Store)}
        mapping = {}
        pre = []
        for p, a in b.items():
            if isinstance(a, (ast.Name, ast.Attribute, ast.Constant)) and p not in locals_:
                mapping[p] = a
            else:
                mapping[p] = tag + p
                pre.append(ast.Assign(targets=[ast.Name(id=tag + p, ctx=ast.Store())], value=copy.deepcopy(a)))
        for l in locals_ - set(b):
            mapping[l] = tag + l
        new_body = [Subst(mapping).visit(copy.deepcopy(s)) for s in body]
        with_body = node.body
        target = item.optional_vars

        class Y(ast.NodeTransformer):
            def visit_Expr(self_, st):
                if isinstance(st.value, ast.Yield):
                    out = []
                    if target is not None and st.value.value is not None:
                        out.append(ast.Assign(targets=[copy.deepcopy(target)], value=st.value.value))
                    return out + with_body
                return st

            def visit_FunctionDef(self_, n):
                return n
        out = []
        for s in pre + new_body:
            r = Y().visit(s)
            out.extend(r if isinstance(r, list) else [r])
        for s in out:
            ast.copy_location(s, node)
            ast.fix_missing_locations(s)
        self.done.append('generator form')
        return out


def desugar_with(prog, module_prefixes=('scared.',)):
    """rewrite every recognised `with` in functions of the given modules; returns [(func key, form)]"""
    out = []
    for f in prog.funcs:
        if not any(f.mod.name.startswith(p) or f.mod.name == p.rstrip('.') for p in module_prefixes):
            continue
        if not any(isinstance(n, ast.With) for n in ast.walk(f.node)):
            continue
        w = _W(prog, f)
        new = w.visit(f.node)
        if w.done:
            f.node = new
            ast.fix_missing_locations(f.node)
            out.extend((f.key, d) for d in w.done)
    return out
