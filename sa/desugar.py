"""Desugaring of `with` statements whose context manager is defined in the repository, so that path/effect rules written for
try/except see the same behaviour.

  generator form   @contextlib.contextmanager def cm(params): <pre>; try: yield ... / yield; <post>
                   `with cm(args): BODY`  ->  the generator body with parameters substituted and the `yield` statement replaced by
                   BODY (the `as` target, if any, is bound to the yielded value first).
  class form       a class whose __enter__ snapshots `dict(<obj>.__dict__)` of the object given to its constructor and whose
                   __exit__ - only when an exception is in flight - clears and restores that dictionary and never returns a true
                   value (the exception propagates):
                   `with CM(obj): BODY`  ->  `_s = dict(obj.__dict__)` / `try: BODY` / `except BaseException: obj.__dict__.clear();
                   obj.__dict__.update(_s); raise`.
Anything else is left untouched (the rules then treat the `with` body as plain statements, as before).
The rewrite mutates the FunctionDef nodes of *this* Program instance only (each check run builds its own).
"""
import ast
import copy

from .model import norm
from .inline import Subst, bind


def _is_ctxmgr(prog, f):
    return any(name.split('.')[-1] == 'contextmanager' for name, _ in prog.decorators(f))


def _class_form(prog, ci):
    """-> name of the constructor parameter whose __dict__ is snapshotted/restored, or None"""
    init, enter, exit_ = ci.methods.get('__init__'), ci.methods.get('__enter__'), ci.methods.get('__exit__')
    if not (init and enter and exit_) or len(init.params) != 2:
        return None
    obj_attr = None
    for s in ast.walk(init.node):
        if isinstance(s, ast.Assign) and isinstance(s.targets[0], ast.Attribute) and norm(s.targets[0].value) == 'self' and norm(s.value) == init.params[1]:
            obj_attr = s.targets[0].attr
    if obj_attr is None:
        return None
    snap_attr = None
    for s in ast.walk(enter.node):
        if isinstance(s, ast.Assign) and isinstance(s.targets[0], ast.Attribute) and norm(s.targets[0].value) == 'self' \
                and norm(s.value).replace(' ', '') in (f'dict(self.{obj_attr}.__dict__)', f'self.{obj_attr}.__dict__.copy()', f'dict(vars(self.{obj_attr}))'):
            snap_attr = s.targets[0].attr
    if snap_attr is None:
        return None
    body = [s for s in exit_.node.body if not (isinstance(s, ast.Expr) and isinstance(s.value, ast.Constant))]
    exc = exit_.params[1] if len(exit_.params) > 1 else None
    if exc is None or not body or not isinstance(body[0], ast.If):
        return None
    t = norm(body[0].test).replace(' ', '')
    if t not in (f'{exc}isnotNone', exc):
        return None
    txt = ';'.join(norm(s).replace(' ', '') for s in body[0].body)
    ok = (f'self.{obj_attr}.__dict__.clear()' in txt and f'self.{obj_attr}.__dict__.update(self.{snap_attr})' in txt) or f'self.{obj_attr}.__dict__=self.{snap_attr}' in txt
    if not ok or body[0].orelse:
        return None
    for r in ast.walk(exit_.node):
        if isinstance(r, ast.Return) and r.value is not None and not (isinstance(r.value, ast.Constant) and not r.value.value):
            return None           # may swallow the exception
    return init.params[1]


class _W(ast.NodeTransformer):
    def __init__(self, prog, f):
        self.prog, self.f = prog, f
        self.n = 0
        self.done = []

    def visit_FunctionDef(self, node):
        if node is not self.f.node:
            return node
        self.generic_visit(node)
        return node

    def visit_With(self, node):
        self.generic_visit(node)
        if len(node.items) != 1:
            return node
        item = node.items[0]
        call = item.context_expr
        if not isinstance(call, ast.Call):
            return node
        r = self.prog.resolve(self.f.mod, call.func) if isinstance(call.func, (ast.Name, ast.Attribute)) else None
        if r is None and isinstance(call.func, ast.Attribute) and norm(call.func.value) == 'self' and self.f.cls is not None:
            m = self.prog.resolve_method(self.f.cls, call.func.attr)
            r = ('func', m) if m is not None else None
        if r and r[0] == 'func' and _is_ctxmgr(self.prog, r[1]):
            return self.generator_form(node, item, call, r[1])
        if r and r[0] == 'class':
            p = _class_form(self.prog, r[1])
            if p is not None and len(call.args) + len(call.keywords) == 1:
                obj = call.args[0] if call.args else call.keywords[0].value
                return self.class_form(node, obj)
        return node

    def class_form(self, node, obj):
        self.n += 1
        var = f'_cm{self.n}_state'
        o = norm(obj)
        src = (f'{var} = dict({o}.__dict__)\n'
               f'try:\n    pass\nexcept BaseException:\n    {o}.__dict__.clear()\n    {o}.__dict__.update({var})\n    raise\n')
        new = ast.parse(src).body
        new[1].body = node.body
        for s in new:
            ast.copy_location(s, node)
            ast.fix_missing_locations(s)
        self.done.append('class form')
        return new

    def generator_form(self, node, item, call, g):
        is_method = g.cls is not None
        b = bind(g, call, is_method)
        if b is not None and '__nva__' in b:
            b = None
        if b is None:
            return node
        body = [s for s in g.node.body if not (isinstance(s, ast.Expr) and isinstance(s.value, ast.Constant))]
        yields = [n for s in body for n in ast.walk(s) if isinstance(n, (ast.Yield, ast.YieldFrom))]
        if len(yields) != 1 or isinstance(yields[0], ast.YieldFrom):
            return node
        self.n += 1
        tag = f'_cm{self.n}_'
        locals_ = {n.id for s in body for n in ast.walk(s) if isinstance(n, ast.Name) and isinstance(n.ctx, ast.Store)}
        mapping = {}
        pre = []
        for p, a in b.items():
            if isinstance(a, (ast.Name, ast.Attribute, ast.Constant)) and p not in locals_:
                mapping[p] = a
            else:
                mapping[p] = tag + p
                pre.append(ast.Assign(targets=[ast.Name(id=tag + p, ctx=ast.Store())], value=copy.deepcopy(a)))
        for l in locals_ - set(b):
            mapping[l] = tag + l
        new_body = [Subst(mapping).visit(copy.deepcopy(s)) for s in body]
        with_body = node.body
        target = item.optional_vars

        class Y(ast.NodeTransformer):
            def visit_Expr(self_, st):
                if isinstance(st.value, ast.Yield):
                    out = []
                    if target is not None and st.value.value is not None:
                        out.append(ast.Assign(targets=[copy.deepcopy(target)], value=st.value.value))
                    return out + with_body
                return st

            def visit_FunctionDef(self_, n):
                return n
        out = []
        for s in pre + new_body:
            r = Y().visit(s)
            out.extend(r if isinstance(r, list) else [r])
        for s in out:
            ast.copy_location(s, node)
            ast.fix_missing_locations(s)
        self.done.append('generator form')
        return out


def desugar_with(prog, module_prefixes=('scared.',)):
    """rewrite every recognised `with` in functions of the given modules; returns [(func key, form)]"""
    out = []
    for f in prog.funcs:
        if not any(f.mod.name.startswith(p) or f.mod.name == p.rstrip('.') for p in module_prefixes):
            continue
        if not any(isinstance(n, ast.With) for n in ast.walk(f.node)):
            continue
        w = _W(prog, f)
        new = w.visit(f.node)
        if w.done:
            f.node = new
            ast.fix_missing_locations(f.node)
            out.extend((f.key, d) for d in w.done)
    return out
