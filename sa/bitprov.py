"""E4 - bit-provenance dataflow (constant propagating) over the bit-sliced primitives.

Abstract value of a machine word: a vector of bits (LSB first), each 0, 1, ('src', array, byte, bit) or TOP.  Python ints and
literal tables are constants; `for v in range/arange(K)` with a literal K is unrolled.  Transfer functions only move labels:
& const, | ^ + (only when bit-disjoint: otherwise a carry is possible -> Abort), << >> const, <<=, (x & m) != 0 for a single-bit
m, pow2 * bit.  No expressions are built, no path conditions, no solver; anything else aborts (exit 2, never a verdict).
"""
import ast
import operator

from .model import norm, AnalysisError

TOP = 'T'


class Bits:
    def __init__(self, bits, width=None):
        self.bits = list(bits)
        self.width = width

    def get(self, i):
        return self.bits[i] if i < len(self.bits) else 0

    def __repr__(self):
        return f'Bits({self.bits})'


def const(v, width=64):
    return Bits([(v >> i) & 1 for i in range(width)], width)


def isconst(b):
    return all(x in (0, 1) for x in b.bits)


def cval(b):
    return sum(x << i for i, x in enumerate(b.bits))


class Abort(Exception):
    pass


class Cols(list):
    """several columns at once (a vectorised expression over x[:, a:b:c] or the whole input): one value per column"""


class Grid(list):
    """a table of columns read at once (a[:, TABLE] with TABLE a literal 2-D index table): rows of Cols, addressed [:, row, k]"""


OPS = {ast.Add: operator.add, ast.Sub: operator.sub, ast.Mult: operator.mul, ast.Div: operator.truediv, ast.Mod: operator.mod,
       ast.FloorDiv: operator.floordiv, ast.LShift: operator.lshift, ast.RShift: operator.rshift, ast.BitAnd: operator.and_,
       ast.BitOr: operator.or_, ast.BitXor: operator.xor}


class Interp:
    """interprets one bit-slicing function: locals, one or more output arrays indexed [:, col], an input seen through
    `X = param.reshape(...)` as columns of 8-bit source words."""

    def __init__(self, func, consts=None, params=None, skip=None, env=None, input_cols=None):
        self.func = func
        self.input_cols = input_cols      # number of columns of the input view, when the rule knows it (vectorised reads)
        self.ncols = {}
        self.env = dict(consts or {})
        self.env.update(env or {})
        self.params = set(params if params is not None else func.params)
        self.arrays = {}
        self.width = {}
        self.skip = skip or (lambda st: False)
        self.ret = None

    def run(self):
        for st in self.func.node.body:
            r = self.stmt(st)
            if r is not None and r != 'break':
                self.ret = r
                break
        return self

    def block(self, stmts):
        for b in stmts:
            r = self.stmt(b)
            if r is not None:
                return r
        return None

    def stmt(self, st):
        if self.skip(st):
            return None
        if isinstance(st, ast.Expr):
            return None
        if isinstance(st, ast.Assign):
            tgt = st.targets[0]
            if isinstance(tgt, ast.Name):
                if not self.special(tgt.id, st.value):
                    self.env[tgt.id] = self.ev(st.value)
                return None
            if isinstance(tgt, ast.Subscript):
                arr, col = self.colref(tgt)
                if isinstance(col, tuple):
                    raise Abort('store through a 2-D column table')
                v = self.value(self.ev(st.value))
                if isinstance(col, list):
                    if not isinstance(v, Cols):
                        v = Cols([v] * len(col))
                    if len(v) != len(col):
                        raise Abort(f'{len(v)} columns stored into {len(col)}')
                    for c_, v_ in zip(col, v):
                        self.arrays[arr][c_] = self.trunc(v_, arr)
                    return None
                if isinstance(v, Cols):
                    raise Abort('several columns stored into one')
                self.arrays[arr][col] = self.trunc(v, arr)
                return None
        if isinstance(st, ast.AugAssign):
            if isinstance(st.target, ast.Name):
                cur = self.env[st.target.id]
                self.env[st.target.id] = self.binop(st.op, cur, self.ev(st.value))
                return None
            arr, col = self.colref(st.target)
            if col not in self.arrays[arr] and arr not in getattr(self, 'zeroed', set()):
                raise Abort(f'augmented store into unset column {arr}[:, {col}] of an uninitialised array')
            cur = self.arrays[arr].get(col, const(0))
            self.arrays[arr][col] = self.trunc(self.binop(st.op, cur, self.ev(st.value)), arr)
            return None
        if isinstance(st, ast.For):
            it = self.ev(st.iter)
            if not isinstance(it, list):
                raise Abort('loop iterable is not a literal range')
            for v in it:
                if isinstance(st.target, ast.Tuple):
                    if not isinstance(v, (tuple, list)) or len(v) != len(st.target.elts) or not all(isinstance(x, ast.Name) for x in st.target.elts):
                        raise Abort('loop target unpacking')
                    for x, y in zip(st.target.elts, v):
                        self.env[x.id] = y
                else:
                    self.env[st.target.id] = v
                r = self.block(st.body)
                if r == 'break':
                    break
                if r is not None:
                    return r
            return None
        if isinstance(st, ast.If):
            c = self.ev(st.test)
            if isinstance(c, Bits):
                raise Abort('data-dependent branch')
            return self.block(st.body if c else st.orelse)
        if isinstance(st, ast.Break):
            return 'break'
        if isinstance(st, ast.Return):
            return ('ret', st.value)
        raise Abort(f'statement {type(st).__name__} not modelled: {norm(st)[:60]}')

    def special(self, name, v):
        if isinstance(v, ast.Call) and isinstance(v.func, ast.Attribute):
            last = v.func.attr
            if last in ('zeros', 'empty'):
                dt = [k.value for k in v.keywords if k.arg == 'dtype']
                dtxt = norm(dt[0]) if dt else 'float64'
                w = 8 if 'uint8' in dtxt else (64 if 'int64' in dtxt else None)
                if w is None:
                    raise Abort(f'array dtype {dtxt} not modelled')
                self.arrays[name] = {}
                try:
                    shp = v.args[0] if v.args else None
                    if isinstance(shp, ast.Tuple) and len(shp.elts) == 2:
                        nc = self.ev(shp.elts[1])
                        if isinstance(nc, int):
                            self.ncols[name] = nc
                except (Abort, KeyError, TypeError):
                    pass
                self.zeroed = getattr(self, 'zeroed', set())
                if last == 'zeros':
                    self.zeroed.add(name)
                self.width[name] = w
                self.env[name] = ('ARRAY', name)
                return True
            if last == 'reshape' and isinstance(v.func.value, ast.Name) and (v.func.value.id in self.params or
                                                                             isinstance(self.env.get(v.func.value.id), tuple)):
                src = v.func.value.id
                self.env[name] = ('INPUT', src if src in self.params else self.env[src][1])
                return True
        if isinstance(v, ast.Attribute) and v.attr == 'shape':
            self.env[name] = 'SHAPE'
            return True
        if isinstance(v, ast.Subscript) and isinstance(v.value, ast.Attribute) and v.value.attr == 'shape':
            self.env[name] = 'SHAPE'
            return True
        return False

    def trunc(self, b, arr):
        if not isinstance(b, Bits):
            b = const(b) if isinstance(b, int) else b
        w = self.width[arr]
        return Bits([b.get(i) for i in range(w)], w)

    def colref(self, sub):
        if not isinstance(sub.value, ast.Name):
            raise Abort('store target not a named array')
        arr = sub.value.id
        if arr not in self.arrays:
            raise Abort(f'store into unknown array {arr}')
        idx = sub.slice
        if not (isinstance(idx, ast.Tuple) and len(idx.elts) == 2 and isinstance(idx.elts[0], ast.Slice)):
            raise Abort('store is not of the form a[:, col]')
        if isinstance(idx.elts[1], ast.Slice):
            if arr not in self.ncols:
                raise Abort(f'strided store into {arr}: number of columns unknown')
            sl = idx.elts[1]
            b = [None if x is None else self.ev(x) for x in (sl.lower, sl.upper, sl.step)]
            if any(x is not None and not isinstance(x, int) for x in b):
                raise Abort('slice bound not constant')
            return arr, list(range(*slice(*b).indices(self.ncols[arr])))
        c = self.ev(idx.elts[1])
        if isinstance(c, list) and c and all(isinstance(x, int) for x in c):
            return arr, list(c)                      # a[:, [c0, c1, ...]]
        if isinstance(c, list) and c and all(isinstance(r, list) and r and all(isinstance(x, int) for x in r) for r in c):
            return arr, ('grid', c)                  # a[:, TABLE] with a literal 2-D table of columns
        if not isinstance(c, int):
            raise Abort('column index not constant')
        return arr, c

    def value(self, v):
        """the whole input view used as a value: all its columns"""
        if isinstance(v, tuple) and len(v) == 2 and v[0] == 'INPUT':
            if self.input_cols is None:
                raise Abort('whole-input expression: number of input columns unknown')
            return Cols([Bits([('src', v[1], c, i) for i in range(8)], 8) for c in range(self.input_cols)])
        return v

    def ev(self, e):
        if isinstance(e, ast.Constant):
            return e.value
        if isinstance(e, ast.Name):
            if e.id not in self.env:
                # a module-level literal table / constant of the analysed function's module
                mod = getattr(self.func, 'mod', None)
                node = mod.assigns.get(e.id) if mod is not None else None
                if node is not None:
                    v = node.args[0] if isinstance(node, ast.Call) and norm(node.func).split('.')[-1] in ('array', 'asarray') and node.args else node
                    try:
                        val = ast.literal_eval(v)
                    except Exception:
                        raise Abort(f'module-level `{e.id}` is not a literal')
                    self.env[e.id] = list(val) if isinstance(val, tuple) else val
                    return self.env[e.id]
                raise Abort(f'unknown name {e.id}')
            return self.env[e.id]
        if isinstance(e, (ast.Tuple, ast.List)):
            return [self.ev(x) for x in e.elts]
        if isinstance(e, ast.UnaryOp) and isinstance(e.op, ast.USub):
            return -self.ev(e.operand)
        if isinstance(e, ast.Call):
            f = norm(e.func)
            if f.split('.')[-1] in ('arange', 'range'):
                return list(range(*[self.ev(a) for a in e.args]))
            if f == 'int':
                return int(self.ev(e.args[0]))
            if f == 'len':
                v = self.ev(e.args[0])
                return len(v)
            if f == 'enumerate' and len(e.args) == 1:
                v = self.ev(e.args[0])
                if isinstance(v, list):
                    return [(i, x) for i, x in enumerate(v)]
            if f in ('zip',) and e.args:
                vs = [self.ev(a) for a in e.args]
                if all(isinstance(v, list) for v in vs):
                    return [tuple(t) for t in zip(*vs)]
            if f == 'reversed' and len(e.args) == 1:
                v = self.ev(e.args[0])
                if isinstance(v, list):
                    return list(reversed(v))
            raise Abort('call ' + f)
        if isinstance(e, ast.Subscript):
            base = e.value
            if isinstance(base, ast.Name):
                b = self.env.get(base.id)
                if isinstance(b, tuple) and b[0] == 'INPUT':
                    if not (isinstance(e.slice, ast.Tuple) and len(e.slice.elts) == 2 and isinstance(e.slice.elts[0], ast.Slice)):
                        raise Abort('input read is not of the form x[:, col]')
                    if isinstance(e.slice.elts[1], ast.Slice):
                        if self.input_cols is None:
                            raise Abort('sliced input read: number of input columns unknown')
                        sl = e.slice.elts[1]
                        bb = [None if x is None else self.ev(x) for x in (sl.lower, sl.upper, sl.step)]
                        return Cols([Bits([('src', b[1], c, i) for i in range(8)], 8) for c in range(*slice(*bb).indices(self.input_cols))])
                    col = self.ev(e.slice.elts[1])
                    return Bits([('src', b[1], col, i) for i in range(8)], 8)
                if base.id in self.arrays:
                    arr, col = self.colref(e)
                    if isinstance(col, tuple) and col[0] == 'grid':
                        def rd(c_):
                            if c_ not in self.arrays[arr]:
                                if arr not in getattr(self, 'zeroed', set()):
                                    raise Abort(f'read of unset column {arr}[:, {c_}]')
                                return const(0, self.width[arr])
                            return self.arrays[arr][c_]
                        return Grid([Cols([rd(c_) for c_ in row]) for row in col[1]])
                    if isinstance(col, list):
                        out = Cols()
                        for c_ in col:
                            if c_ not in self.arrays[arr]:
                                if arr not in getattr(self, 'zeroed', set()):
                                    raise Abort(f'read of unset column {arr}[:, {c_}]')
                                out.append(const(0, self.width[arr]))
                            else:
                                out.append(self.arrays[arr][c_])
                        return out
                    if col not in self.arrays[arr]:
                        if arr in getattr(self, 'zeroed', set()):
                            return const(0, self.width[arr])
                        raise Abort(f'read of unset column {arr}[:, {col}]')
                    return self.arrays[arr][col]
            b = self.ev(base)
            if isinstance(b, Grid):
                el = e.slice.elts if isinstance(e.slice, ast.Tuple) else []
                full = lambda x: isinstance(x, ast.Slice) and x.lower is None and x.upper is None and x.step is None    # noqa: E731
                if len(el) == 3 and full(el[0]):
                    k = None if full(el[2]) else self.ev(el[2])
                    r_ = None if full(el[1]) else self.ev(el[1])
                    if (k is None or isinstance(k, int)) and (r_ is None or isinstance(r_, int)) and not (k is None and r_ is None):
                        if r_ is None:
                            return Cols([row[k] for row in b])
                        if k is None:
                            return Cols(list(b[r_]))
                        return b[r_][k]
                raise Abort('subscript of a column table ' + norm(e)[:40])
            i = self.ev(e.slice)
            if isinstance(b, (list, tuple)) and isinstance(i, int):
                return b[i]
            raise Abort('subscript ' + norm(e)[:40])
        if isinstance(e, ast.BinOp):
            return self.binop(e.op, self.ev(e.left), self.ev(e.right))
        if isinstance(e, ast.Compare) and len(e.ops) == 1:
            l, r = self.value(self.ev(e.left)), self.ev(e.comparators[0])
            if isinstance(l, Cols):
                out = Cols()
                for x in l:
                    if not (isinstance(x, Bits) and isinstance(e.ops[0], ast.NotEq) and r == 0):
                        raise Abort('comparison on data')
                    nz = [b for b in x.bits if b != 0]
                    if len(nz) != 1:
                        raise Abort('!= 0 on a multi-bit value')
                    out.append(Bits([nz[0]], 1))
                return out
            if isinstance(l, Bits):
                if isinstance(e.ops[0], ast.NotEq) and r == 0:
                    nz = [b for b in l.bits if b != 0]
                    if len(nz) == 1:
                        return Bits([nz[0]], 1)
                    raise Abort('!= 0 on a multi-bit value')
                raise Abort('comparison on data')
            return {ast.Eq: operator.eq, ast.NotEq: operator.ne, ast.Lt: operator.lt, ast.LtE: operator.le,
                    ast.Gt: operator.gt, ast.GtE: operator.ge}[type(e.ops[0])](l, r)
        raise Abort('expression ' + norm(e)[:50])

    def binop(self, op, a, b):
        a, b = self.value(a), self.value(b)
        if isinstance(a, Cols) or isinstance(b, Cols):
            n = len(a) if isinstance(a, Cols) else len(b)
            if isinstance(a, Cols) and isinstance(b, Cols) and len(a) != len(b):
                raise Abort('column counts differ')
            return Cols([self.binop(op, a[i] if isinstance(a, Cols) else a, b[i] if isinstance(b, Cols) else b) for i in range(n)])
        if not isinstance(a, Bits) and not isinstance(b, Bits):
            if type(op) not in OPS:
                raise Abort('operator ' + type(op).__name__)
            return OPS[type(op)](a, b)
        if isinstance(op, ast.Mult):
            if isinstance(b, Bits):
                a, b = b, a
            if not isinstance(b, int) or b <= 0 or b & (b - 1):
                raise Abort('multiplication of data by a non power of two')
            return self.binop(ast.LShift(), a, b.bit_length() - 1)
        A = a if isinstance(a, Bits) else const(a)
        B = b if isinstance(b, Bits) else const(b)
        n = max(len(A.bits), len(B.bits), 8)
        if isinstance(op, ast.BitAnd):
            out = []
            for i in range(n):
                x, y = A.get(i), B.get(i)
                out.append(0 if 0 in (x, y) else (y if x == 1 else (x if y == 1 else TOP)))
            if TOP in out:
                raise Abort('data & data')
            return Bits(out)
        if isinstance(op, ast.RShift):
            if not isconst(B):
                raise Abort('shift by data')
            k = cval(B)
            return Bits([A.get(i + k) for i in range(n)])
        if isinstance(op, ast.LShift):
            if not isconst(B):
                raise Abort('shift by data')
            k = cval(B)
            return Bits([0] * k + [A.get(i) for i in range(n)])
        if isinstance(op, (ast.Add, ast.BitOr, ast.BitXor)):
            out = []
            for i in range(n):
                x, y = A.get(i), B.get(i)
                if x == 0:
                    out.append(y)
                elif y == 0:
                    out.append(x)
                else:
                    raise Abort(f'overlapping {type(op).__name__} at bit {i}: bits would mix (carry / xor of data)')
            return Bits(out)
        raise Abort('operator ' + type(op).__name__)


def fips_pos(byte, bit, unit):
    """1-based FIPS position (MSB first) of bit `bit` (LSB = 0) of word `byte` with `unit` bits per word"""
    return byte * unit + (unit - 1 - bit) + 1


def relation(arr, n_cols, unit_out, unit_in):
    """provenance table: for output position p (1-based, MSB first over n_cols words of unit_out bits) the input position"""
    rel = []
    for col in range(n_cols):
        if col not in arr:
            raise Abort(f'output column {col} never written')
        b = arr[col]
        for j in range(unit_out):
            src = b.get(unit_out - 1 - j)
            if src in (0, 1, TOP):
                rel.append(src)
            else:
                rel.append(fips_pos(src[2], src[3], unit_in))
        for k in range(unit_out, len(b.bits)):
            if b.get(k) != 0:
                raise Abort(f'output column {col} has data above bit {unit_out - 1}')
    return rel
