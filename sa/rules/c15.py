"""C15 - leakage models and discriminants compute their definitions on every value.

D1 Hamming weight   _HW_LUT[i] = popcount(i) for all 256 i; for every @vectorize lane (_fhw8/16/32/64) the multiset of source
                    bits that reaches a table lookup (through `& mask`, `>> k`, the literal-bound loop; bit-provenance dataflow,
                    width taken from the vectorize signature) is every input bit exactly once and no lookup index can exceed the
                    table; the dispatch table maps item size k to the lane whose signature has 8k bits and _compute applies
                    dispatch[data.dtype.itemsize] to the data itself.
D2 grouping         with nb_words = k > 1 the result sums the consecutive, non overlapping slices [i*k, (i+1)*k) (bounds compared
                    as affine expressions of the loop index) of the chosen axis, which is swapped to the front with
                    swapaxes(0, axis) for input and output and swapped back; the sum runs over that front axis only; the guard
                    selects grouping for every k >= 2.
D3 Monobit / Value  Monobit._compute is `(data & mask(bit)) cmp c` cast to an unsigned byte with mask(b) = 2**b for b = 0..7 and
                    the comparison true exactly on a set bit (decided by evaluating the two constant expressions over the finite
                    configuration domain); the constructor stores the bit unchanged; Value._compute returns its argument.
D4 discriminants    each of the five reduces with a NaN-ignoring reducer over `axis=<the axis parameter>` and nothing else;
                    maxabs/abssum take the absolute value first, opposite_min negates (before nanmax or after nanmin); the
                    decorator and Model.__call__ map axis -1 to ndim - 1, pass the caller's array and that axis on unchanged and
                    return the callee's result.
"""
import ast
import copy
import collections

from .. import bitprov, tables, astutil
from ..model import norm, AnalysisError, const_value

M = 'scared.models'
D = 'scared.discriminants'


# ---------------------------------------------------------------------------------------------------------------- helpers
class Undecidable(Exception):
    pass


def ceval(e, env):
    """evaluate a small integer / boolean expression over a finite configuration environment (constant propagation)"""
    if isinstance(e, ast.Constant) and isinstance(e.value, (int, bool)):
        return e.value
    t = norm(e)
    if t in env:
        return env[t]
    if isinstance(e, ast.UnaryOp):
        v = ceval(e.operand, env)
        if isinstance(e.op, ast.USub):
            return -v
        if isinstance(e.op, ast.Not):
            return not v
        if isinstance(e.op, ast.Invert):
            return ~v
    if isinstance(e, ast.BinOp) and type(e.op) in bitprov.OPS or isinstance(e, ast.BinOp) and isinstance(e.op, ast.Pow):
        a, b = ceval(e.left, env), ceval(e.right, env)
        if isinstance(e.op, ast.Pow):
            if not isinstance(b, int) or b < 0 or b > 256:
                raise Undecidable('power')
            return a ** b
        if isinstance(e.op, (ast.LShift, ast.RShift)) and (not isinstance(b, int) or b < 0 or b > 256):
            raise Undecidable('shift')
        if isinstance(e.op, (ast.Div, ast.FloorDiv, ast.Mod)) and b == 0:
            raise Undecidable('division by zero')
        return bitprov.OPS[type(e.op)](a, b)
    if isinstance(e, ast.Compare) and len(e.ops) == 1:
        import operator
        ops = {ast.Eq: operator.eq, ast.NotEq: operator.ne, ast.Lt: operator.lt, ast.LtE: operator.le, ast.Gt: operator.gt, ast.GtE: operator.ge}
        if type(e.ops[0]) in ops:
            return ops[type(e.ops[0])](ceval(e.left, env), ceval(e.comparators[0], env))
    if isinstance(e, ast.BoolOp):
        vs = [ceval(v, env) for v in e.values]
        return all(vs) if isinstance(e.op, ast.And) else any(vs)
    raise Undecidable(f'expression `{t[:50]}`')


def body_no_doc(f):
    b = list(f.node.body)
    if b and isinstance(b[0], ast.Expr) and isinstance(b[0].value, ast.Constant) and isinstance(b[0].value.value, str):
        b = b[1:]
    return b


def last(name):
    return name.split('.')[-1] if name else ''


# ---------------------------------------------------------------------------------------------------------------- D1
class Count:
    """result of table lookups: how many times each source bit is counted, plus a constant"""

    def __init__(self, bits=None, k=0):
        self.bits = collections.Counter(bits or {})
        self.k = k

    def add(self, o):
        c = Count(self.bits, self.k)
        if isinstance(o, Count):
            c.bits.update(o.bits)
            c.k += o.k
        elif isinstance(o, int):
            c.k += o
        else:
            raise bitprov.Abort('sum of a bit count and raw data')
        return c


class LaneInterp:
    """bit-provenance interpreter for one scalar @vectorize lane: x is a `width`-bit word of source bits"""

    def __init__(self, f, width, lut_names, lut_len, prog=None, depth=0):
        self.prog, self.depth = prog, depth
        self.f = f
        self.width = width
        self.lut = lut_names
        self.lut_len = lut_len
        p = f.params[0]
        self.env = {p: bitprov.Bits([('src', p, 0, i) for i in range(width)], width)}
        self._b = bitprov.Interp.__new__(bitprov.Interp)
        self.lookups = 0
        self.oob = []

    def trunc(self, v):
        if isinstance(v, bitprov.Bits):
            return bitprov.Bits([v.get(i) for i in range(self.width)], self.width)
        return v

    def run(self):
        r = self.block(body_no_doc(self.f))
        if not (isinstance(r, tuple) and r[0] == 'ret'):
            raise bitprov.Abort('lane does not end with a return')
        return r[1]

    def block(self, stmts):
        for st in stmts:
            r = self.stmt(st)
            if r is not None:
                return r
        return None

    def stmt(self, st):
        if isinstance(st, ast.Return):
            return ('ret', self.ev(st.value))
        if isinstance(st, ast.Assign) and len(st.targets) == 1 and isinstance(st.targets[0], ast.Name):
            self.env[st.targets[0].id] = self.ev(st.value)
            return None
        if isinstance(st, ast.AugAssign) and isinstance(st.target, ast.Name):
            cur = self.env.get(st.target.id)
            if cur is None:
                raise bitprov.Abort(f'unknown name {st.target.id}')
            v = self.binop(st.op, cur, self.ev(st.value))
            # an in-place shift of the lane argument keeps the argument's width (numba types x as the signature type)
            self.env[st.target.id] = self.trunc(v) if isinstance(cur, bitprov.Bits) and cur.width == self.width else v
            return None
        if isinstance(st, ast.For) and isinstance(st.target, ast.Name) and not st.orelse:
            it = st.iter
            if not (isinstance(it, ast.Call) and last(norm(it.func)) == 'range'):
                raise bitprov.Abort('loop is not over a range')
            bounds = [self.ev(a) for a in it.args]
            if not all(isinstance(b, int) for b in bounds) or not bounds:
                raise bitprov.Abort('loop bound is not a constant')
            for v in range(*bounds):
                self.env[st.target.id] = v
                r = self.block(st.body)
                if r is not None:
                    return r
            return None
        if isinstance(st, ast.Expr) and isinstance(st.value, ast.Constant):
            return None
        raise bitprov.Abort(f'statement not modelled: {norm(st)[:60]}')

    def binop(self, op, a, b):
        if isinstance(a, Count) or isinstance(b, Count):
            if not isinstance(op, ast.Add):
                raise bitprov.Abort(f'{type(op).__name__} applied to a bit count')
            return a.add(b) if isinstance(a, Count) else b.add(a)
        return self._b.binop(op, a, b)

    def ev(self, e):
        if isinstance(e, ast.Constant) and isinstance(e.value, int):
            return e.value
        if isinstance(e, ast.Name):
            if e.id not in self.env:
                raise bitprov.Abort(f'unknown name {e.id}')
            return self.env[e.id]
        if isinstance(e, ast.BinOp):
            return self.binop(e.op, self.ev(e.left), self.ev(e.right))
        if isinstance(e, ast.Subscript) and isinstance(e.value, ast.Name) and e.value.id in self.lut:
            idx = self.ev(e.slice)
            self.lookups += 1
            if isinstance(idx, int):
                if not 0 <= idx < self.lut_len:
                    self.oob.append(norm(e))
                    return Count()
                return Count(k=bin(idx).count('1'))
            if not isinstance(idx, bitprov.Bits):
                raise bitprov.Abort('table index is not a word')
            c = Count()
            nbits = self.lut_len.bit_length() - 1
            for i, b in enumerate(idx.bits):
                if b == 0:
                    continue
                if i >= nbits:
                    self.oob.append(norm(e))      # the index can exceed the table
                    continue
                if b == 1:
                    c.k += 1
                elif b == bitprov.TOP:
                    raise bitprov.Abort('unknown bit in table index')
                else:
                    c.bits[b] += 1
            return c
        if isinstance(e, ast.Call) and last(norm(e.func)) in ('uint8', 'uint16', 'uint32', 'uint64', 'int') and len(e.args) == 1:
            return self.ev(e.args[0])
        if isinstance(e, ast.Call) and isinstance(e.func, ast.Name) and self.prog is not None and self.depth < 3:
            r = self.prog.resolve(self.f.mod, e.func)
            if r and r[0] == 'func' and r[1].mod is self.f.mod and not e.keywords and len(e.args) == len(r[1].params):
                callee = r[1]
                sub = LaneInterp(callee, self.width, self.lut, self.lut_len, prog=self.prog, depth=self.depth + 1)
                sub.env = {p_: self.ev(a) for p_, a in zip(callee.params, e.args)}
                res = sub.run()
                self.lookups += sub.lookups
                self.oob += sub.oob
                return res
        raise bitprov.Abort(f'expression not modelled: {norm(e)[:50]}')


def vectorize_sig(prog, f):
    """(argument bits, return type text) from @numba.vectorize([ret(arg)])"""
    kind, call = prog.numba_kind(f)
    if kind != 'vectorize' or call is None or not call.args:
        return None
    sigs = call.args[0].elts if isinstance(call.args[0], (ast.List, ast.Tuple)) else [call.args[0]]
    out = []
    for s in sigs:
        if not (isinstance(s, ast.Call) and len(s.args) == 1):
            return None
        at, rt = last(norm(s.args[0])), last(norm(s.func))
        if not at.startswith('uint') or not at[4:].isdigit():
            return None
        out.append((int(at[4:]), rt))
    return out


def d1(ctx, prog):
    lut, node = tables.literal(prog, M, '_HW_LUT')
    lut = list(lut)
    want = [bin(i).count('1') for i in range(256)]
    diff = tables.first_diff(lut, want)
    ctx.check(diff is None, 'C15-D1', f'{M}::_HW_LUT', f'_HW_LUT{list(diff[0]) if diff else ""} = {diff[1] if diff else ""}, the population count is {diff[2] if diff else ""}',
              'all 256 entries equal the population count of their index', tables.where(prog, M, node), entries=256)
    m = prog.need_mod(M)
    # dispatch table: item size -> lane
    dnode = m.assigns.get('_hw_functions_list')
    if dnode is None:
        raise AnalysisError('dispatch table _hw_functions_list not found')
    pairs = []
    src = dnode
    if isinstance(src, ast.Call) and norm(src.func) == 'dict' and src.args:
        src = src.args[0]
    if isinstance(src, ast.Dict):
        pairs = list(zip(src.keys, src.values))
    elif isinstance(src, (ast.List, ast.Tuple)):
        for t in src.elts:
            if not (isinstance(t, (ast.Tuple, ast.List)) and len(t.elts) == 2):
                raise AnalysisError('dispatch table entry is not a pair')
            pairs.append((t.elts[0], t.elts[1]))
    else:
        raise AnalysisError('dispatch table is not a literal dict / list of pairs')
    lanes = {}
    for k, v in pairs:
        kv = const_value(k)
        r = prog.resolve(m, v) if isinstance(v, (ast.Name, ast.Attribute)) else None
        if not isinstance(kv, int) or not r or r[0] != 'func':
            raise AnalysisError(f'dispatch entry `{norm(k)}: {norm(v)}` not resolved')
        lanes[kv] = r[1]
    ctx.floor('C15 Hamming-weight lanes (item sizes 1,2,4,8)', len(set(lanes) & {1, 2, 4, 8}), 4)
    nbits = 0
    for k, f in sorted(lanes.items()):
        sig = vectorize_sig(prog, f)
        if not sig or len(sig) != 1:
            ctx.undecided('C15-D1', f'{f.key}::signature', 'vectorize signature not understood', f.where())
            continue
        width, rt = sig[0]
        ctx.check(width == 8 * k, 'C15-D1', f'{M}::_hw_functions_list[{k}]', f'item size {k} is dispatched to {f.name}, compiled for {width}-bit words: '
                  f'{"the upper bytes are never counted" if width < 8 * k else "numba refuses/casts the narrower input"}',
                  f'item size {k} -> {f.name} ({width}-bit signature)', tables.where(prog, M, dnode))
        rbits = int(rt[4:]) if rt.startswith('uint') and rt[4:].isdigit() else (int(rt[3:]) - 1 if rt.startswith('int') and rt[3:].isdigit() else None)
        if rbits is not None:
            ctx.check((1 << rbits) > width, 'C15-D1', f'{f.key}::return type', f'return type {rt} cannot hold the weight {width}', f'return type {rt} holds 0..{width}', f.where())
        if len(f.params) != 1:
            ctx.undecided('C15-D1', f'{f.key}::lane', 'lane does not take exactly one word', f.where())
            continue
        li = LaneInterp(f, width, {'_HW_LUT'}, len(lut), prog=prog)
        try:
            res = li.run()
        except bitprov.Abort as e:
            ctx.undecided('C15-D1', f'{f.key}::lane', f'bit provenance not derivable: {e}', f.where())
            continue
        key = f'{f.key}::counted bits'
        if not isinstance(res, Count):
            ctx.fail('C15-D1', key, f'{f.name} does not return a sum of table lookups', f.where())
            continue
        p = f.params[0]
        wanted = {('src', p, 0, i): 1 for i in range(width)}
        got = dict(res.bits)
        missing = sorted(b[3] for b in wanted if got.get(b, 0) == 0)
        twice = sorted(b[3] for b, n in got.items() if n > 1)
        nbits += width
        if li.oob:
            ctx.fail('C15-D1', key, f'a lookup index of {f.name} can exceed the {len(lut)}-entry table: `{li.oob[0]}`', f.where(), lookups=li.lookups)
        elif missing or twice or res.k:
            ctx.fail('C15-D1', key, f'{f.name}: input bits {missing[:8]} are never counted, bits {twice[:8]} are counted more than once, constant {res.k} '
                     f'(every one of the {width} bits must be counted exactly once)', f.where(), lookups=li.lookups)
        else:
            ctx.ok('C15-D1', key, f'each of the {width} input bits reaches exactly one table lookup ({li.lookups} lookups)', f.where(), lookups=li.lookups)
    ctx.unit('hamming_weight_input_bits_traced', nbits)
    # _compute applies dispatch[data.dtype.itemsize] to the data
    hw = prog.need_class(M, 'HammingWeight')
    f = prog.resolve_method(hw, '_compute')
    data = f.params[1]
    calls = [c for c in ast.walk(f.node) if isinstance(c, ast.Call) and isinstance(c.func, ast.Subscript) and norm(c.func.value) == '_hw_functions_list']
    if len(calls) != 1:
        raise AnalysisError('HammingWeight._compute does not dispatch exactly once through _hw_functions_list')
    c = calls[0]
    keytxt = norm(c.func.slice)
    ctx.check(keytxt == f'{data}.dtype.itemsize' and len(c.args) == 1 and norm(c.args[0]) == data and not c.keywords, 'C15-D1', f'{f.key}::dispatch',
              f'`{norm(c)[:80]}`: the lane is not selected by the item size of `{data}` and applied to `{data}` itself',
              f'lane chosen by {data}.dtype.itemsize and applied to {data}', f.where(c))
    return c


# ---------------------------------------------------------------------------------------------------------------- D2
def swap_args(prog, f, e):
    """(array expr, a, b) if e is swapaxes(array, a, b) / array.swapaxes(a, b)"""
    if isinstance(e, ast.Call) and last(norm(e.func)) == 'swapaxes':
        if isinstance(e.func, ast.Attribute) and (prog.dotted(f.mod, e.func) or '').startswith('numpy') and len(e.args) == 3:
            return e.args[0], norm(e.args[1]), norm(e.args[2])
        if isinstance(e.func, ast.Attribute) and len(e.args) == 2:
            return e.func.value, norm(e.args[0]), norm(e.args[1])
    return None


def d2_values(ctx, prog, f, data, axis, key):
    """the grouping decided by value numbering (sa.symtensor): on symbolic per-word weights of ranks 1..3 (extents chosen both equal
    and different), every axis, nb_words 1..3, the value returned must be, at every position, the sum of the nb_words consecutive
    weights of its group along the axis - every other axis in place, incomplete trailing groups dropped.  True when decided."""
    from .. import symtensor, ratfun
    np = symtensor.np
    if np is None:
        return False
    Q = ratfun.Q

    def hook(e, fn_, env, te):
        # the per-word weights: the dispatch through the table of popcount lanes (checked by C15-D1) applied to the data
        if isinstance(e.func, ast.Subscript) and len(e.args) == 1 and not e.keywords and isinstance(e.args[0], ast.Name) and e.args[0].id == data:
            return te.ev(fn_, e.args[0], env)
        return NotImplemented
    n = 0
    bad = None
    try:
        for shape in ((5,), (2, 4), (4, 2), (3, 3), (2, 2, 4), (2, 3, 2), (4, 2, 2), (3, 3, 3)):
            arr = np.empty(shape, dtype=object)
            for idx in np.ndindex(*shape):
                arr[idx] = Q.sym('h' + ''.join(map(str, idx)))
            for ax in range(len(shape)):          # Model.__call__ hands _compute a non-negative axis (C15-D4 checks the -1 mapping)
                for k in (1, 2, 3):
                    if shape[ax] < k:
                        continue
                    te = symtensor.TensorEval(prog, f.cls, {'self.nb_words': k, f'{data}.dtype.kind': 'u', f'{data}.dtype': 'DT', 'self.expected_dtype': 'DT'})
                    te.call_hook = hook
                    n += 1
                    got = te.run(f, {data: arr.copy(), axis: ax})
                    moved = np.moveaxis(arr, ax, -1)
                    g = shape[ax] // k
                    want = np.empty(moved.shape[:-1] + (g,), dtype=object)
                    for idx in np.ndindex(*want.shape):
                        tot = Q.const(0)
                        for j in range(k):
                            tot = tot + moved[idx[:-1] + (idx[-1] * k + j,)]
                        want[idx] = tot
                    want = np.moveaxis(want, -1, ax)
                    if not isinstance(got, np.ndarray) or got.shape != want.shape:
                        bad = bad or f'data of shape {shape}, axis {ax}, nb_words {k}: result of shape {getattr(got, "shape", None)}, the definition gives {want.shape}'
                        continue
                    for idx in np.ndindex(*want.shape):
                        g_ = got[idx] if isinstance(got[idx], Q) else Q.lift(got[idx])
                        if not g_.same(want[idx]) and bad is None:
                            bad = f'data of shape {shape}, axis {ax}, nb_words {k}: entry {idx} is not the sum of the weights of its group of {k} consecutive words along the axis (other axes in place)'
    except (ratfun.Unknown, symtensor.Raised) as e:
        ctx.note(f'{key} values: not evaluable by value numbering ({e}); the axis-label interpretation decides alone')
        return False
    except (ValueError, IndexError, TypeError) as e:
        bad = bad or f'the grouping code fails on a symbolic array ({type(e).__name__}: {e})'
    ctx.check(bad is None, 'C15-D2', f'{key} values', f'{bad}', f'{n} (shape, axis, nb_words) cases: every entry is the sum of its group of consecutive words, other axes in place', f.where(), cases=n)
    return True


def d5_axes(ctx, prog):
    """every axis numpy accepts (-ndim .. ndim-1) through the public entry points, by value numbering (sa.symtensor):
      HammingWeight(nb_words = 1, 2)(data, axis) for negative axes equals the result for the equivalent non-negative axis;
      the discriminant wrapper hands its function an axis and accepts the result reduced along that axis for every such axis.
    An entry point that maps only -1 leaves -2, -3, ... to code that compares the axis with enumerated dimension numbers: the
    grouping then returns an unshrunk, zero-padded array without any error, the discriminants refuse a valid request."""
    from .. import symtensor, ratfun
    np = symtensor.np
    if np is None:
        return 0
    Q = ratfun.Q
    n = 0
    hw = prog.need_class(M, 'HammingWeight')
    call = prog.resolve_method(hw, '__call__')
    comp = prog.resolve_method(hw, '_compute')
    data_p, axis_p = [p_ for p_ in call.params if p_ != 'self'][:2]
    cdata = comp.params[1]

    def hook(e, fn_, env, te):
        if isinstance(e.func, ast.Subscript) and len(e.args) == 1 and not e.keywords and isinstance(e.args[0], ast.Name) and e.args[0].id == cdata:
            return te.ev(fn_, e.args[0], env)
        return NotImplemented
    key = f'{call.key}::negative axes'
    bad = None
    try:
        for shape in ((4,), (2, 4), (4, 3), (2, 4, 2), (3, 3, 3)):
            arr = np.empty(shape, dtype=object)
            for idx in np.ndindex(*shape):
                arr[idx] = Q.sym('h' + ''.join(map(str, idx)))
            for k in (1, 2):
                ref = {}
                for ax in list(range(len(shape))) + list(range(-len(shape), 0)):
                    if shape[ax] < k:
                        continue
                    te = symtensor.TensorEval(prog, hw, {'self.nb_words': k, 'self.expected_dtype': 'DT'})
                    te.call_hook = hook
                    n += 1
                    try:
                        got = te.run(call, {data_p: arr.copy(), axis_p: ax})
                    except symtensor.Raised as e_:
                        got = ('raises', e_.kind)
                    a_ = ax % len(shape)
                    moved = np.moveaxis(arr, a_, -1)
                    g_ = shape[a_] // k
                    want = np.empty(moved.shape[:-1] + (g_,), dtype=object)
                    for idx in np.ndindex(*want.shape):
                        tot = Q.const(0)
                        for j in range(k):
                            tot = tot + moved[idx[:-1] + (idx[-1] * k + j,)]
                        want[idx] = tot
                    want = np.moveaxis(want, -1, a_)
                    same = isinstance(got, np.ndarray) and isinstance(want, np.ndarray) and got.shape == want.shape and \
                        all((got[i] if isinstance(got[i], Q) else Q.lift(got[i])).same(want[i] if isinstance(want[i], Q) else Q.lift(want[i])) for i in np.ndindex(*want.shape))
                    if not same and bad is None:
                        bad = (f'HammingWeight(nb_words={k}) on data of shape {shape}: axis={ax} gives ' + (f'an array of shape {got.shape}' if isinstance(got, np.ndarray) else f'{got}') +
                               f'; the weights grouped by {k} along dimension {ax % len(shape)} have shape {want.shape}' + (' - a negative axis other than -1 is not mapped before it is compared with dimension numbers' if ax < -1 else ' - the requested axis is not the one that is grouped'))
        ctx.check(bad is None, 'C15-D5', key, f'{bad}', f'{n} (shape, nb_words, axis) cases through Model.__call__: every negative axis gives the result of its non-negative equivalent', call.where(), cases=n)
    except ratfun.Unknown as e:
        ctx.undecided('C15-D5', key, f'Model.__call__ / HammingWeight._compute not evaluable: {e}', call.where())
    # the discriminant wrapper
    dec = prog.need_func(D, 'discriminant')
    inner = [g for g in prog.funcs if g.parent is dec]
    if len(inner) != 1:
        ctx.undecided('C15-D5', f'{dec.key}::wrapper', 'wrapper function of the discriminant decorator not identified', dec.where())
        return n
    w = inner[0]
    fn = dec.params[0]
    wd, wa = w.params[0], w.params[1]
    key = f'{w.key}::negative axes'
    bad = None
    m = 0

    def hook2(e, fn_, env, te):
        if isinstance(e.func, ast.Name) and e.func.id == fn and fn not in env:
            args = [te.ev(fn_, a, env) for a in e.args]
            kws = {k.arg: te.ev(fn_, k.value, env) for k in e.keywords}
            ax_ = kws.get('axis', args[1] if len(args) > 1 else None)
            return args[0].sum(axis=ax_)             # any reducer: what matters is along which axis the wrapper asks and what it accepts
        return NotImplemented
    try:
        for shape in ((2, 4), (3, 3), (2, 3, 4)):
            arr = np.empty(shape, dtype=object)
            for idx in np.ndindex(*shape):
                arr[idx] = Q.sym('x' + ''.join(map(str, idx)))
            for ax in range(-len(shape), len(shape)):
                te = symtensor.TensorEval(prog, None, {})
                te.call_hook = hook2
                m += 1
                want = arr.sum(axis=ax)
                try:
                    got = te.run(w, {wd: arr.copy(), wa: ax})
                except symtensor.Raised as e_:
                    bad = bad or f'a discriminant called with axis={ax} on data of shape {shape} is refused ({e_.kind}) although the function reduced exactly that axis: only -1 is mapped before the shape test'
                    continue
                if not (isinstance(got, np.ndarray) or isinstance(got, Q)) or np.shape(got) != np.shape(want):
                    bad = bad or f'a discriminant called with axis={ax} on data of shape {shape} returns shape {np.shape(got)}, the reduction along that axis has shape {np.shape(want)}'
        ctx.check(bad is None, 'C15-D5', key, f'{bad}', f'{m} (shape, axis) cases: the wrapper reduces along the requested axis and accepts the result for every axis in -ndim .. ndim-1', w.where(), cases=m)
    except ratfun.Unknown as e:
        ctx.undecided('C15-D5', key, f'discriminant wrapper not evaluable: {e}', w.where())
    return n + m


def d2(ctx, prog, dispatch_call):
    from .. import grouplayout as gl
    hw = prog.need_class(M, 'HammingWeight')
    f = prog.resolve_method(hw, '_compute')
    data, axis = f.params[1], f.params[2]
    ifs = [n for n in f.node.body if isinstance(n, ast.If) and 'nb_words' in norm(n.test) and not isinstance(n.body[-1], ast.Raise)]
    if len(ifs) != 1:
        raise AnalysisError('grouping branch (if on nb_words) not identified')
    br = ifs[0]
    key = f'{f.key}::grouping'
    # guard: every nb_words >= 2 takes one arm of the branch, nb_words = 1 the other; which arm groups is decided by the layout
    # interpretation below (the arm taken for nb_words >= 2 must return the group sums)
    sel = None
    try:
        sel = {k: bool(ceval(br.test, {'self.nb_words': k})) for k in range(1, 10)}
        bad = [k for k in range(3, 10) if sel[k] != sel[2]] if sel[2] != sel[1] else [k for k in range(2, 10) if sel[k] == sel[1]]
        ctx.check(not bad, 'C15-D2', f'{key} guard', f'`{norm(br.test)}` skips the grouping for nb_words = {bad[:3]}: the words are returned ungrouped',
                  f'`{norm(br.test)}` separates nb_words = 1 from every nb_words >= 2', f.where(br))
    except Undecidable as e:
        ctx.undecided('C15-D2', f'{key} guard', f'guard not evaluable: {e}', f.where(br))
        return

    def test_value(test, take):
        if norm(test) == norm(br.test):
            return sel[2] if take else sel[1]
        return bool(ceval(test, {'self.nb_words': 2 if take else 1}))
    decided_by_value = d2_values(ctx, prog, f, data, axis, key)
    # layout interpretation over every (rank, axis) configuration, both branches
    nconf = 0
    seen_events = {}
    for rank in range(1, 5):
        for a in range(rank):
            for take in (True, False):
                nconf += 1
                it = gl.Interp(prog, f, data, axis, rank, a, dispatch_call, take_branch=take, test_value=test_value)
                ckey = f'{key} layout rank={rank} axis={a}' + ('' if take else ' (nb_words = 1)')
                try:
                    ret = it.run()
                except gl.Unknown as e:
                    if decided_by_value:
                        ctx.note(f'{ckey}: the axis-label interpretation does not model this code shape ({e}); the configuration is decided by value numbering (C15-D2 values)')
                    else:
                        ctx.undecided('C15-D2', ckey, f'layout not derivable: {e}', f.where(br))
                    continue
                for kind, node, text in it.events:
                    ek = (kind, norm(node)[:90], text)
                    seen_events.setdefault(ek, (node, rank, a))
                if not isinstance(ret, gl.Arr):
                    ctx.fail('C15-D2', ckey, 'the function does not return an array', f.where())
                    continue
                if take:
                    want = [l if l != 'W' else 'G' for l in it.labels]
                    if any(k == 'bad' for k, _, _ in it.events):
                        continue      # reported once below, by construct
                    if ret.labels != want:
                        ctx.fail('C15-D2', ckey, f'for {rank}-dimensional data grouped along axis {a} the result is laid out ({",".join(ret.labels)}); every other dimension must stay '
                                 f'in place: ({",".join(want)}) (d_i = untouched axes, G = groups) - invisible at run time when the exchanged extents are equal', f.where(br))
                    elif not ret.grouped:
                        ctx.fail('C15-D2', ckey, 'the value returned is not the array of group sums', f.where(br))
                    else:
                        ctx.ok('C15-D2', ckey, f'result ({",".join(ret.labels)}): groups on axis {a}, other axes in place', f.where(br))
                else:
                    ctx.check(ret.labels == it.labels and ret.origin == 'hw' and not any(k == 'bad' for k, _, _ in it.events), 'C15-D2', ckey,
                              f'with nb_words = 1 the function returns {ret} ({ret.origin}), not the per-word weights unchanged', 'nb_words = 1 returns the per-word weights unchanged', f.where())
    for (kind, ntxt, text), (node, rank, a) in seen_events.items():
        if kind == 'bad':
            ctx.fail('C15-D2', f'{key}::{ntxt}', f'{text} (first seen for rank {rank}, axis {a})', f.where(node))
        else:
            ctx.ok('C15-D2', f'{key}::{ntxt}', text, f.where(node))
    ctx.unit('grouping_configurations_interpreted', nconf)


# ---------------------------------------------------------------------------------------------------------------- D3
WIDTH = {'uint8': 8, 'uint16': 16, 'uint32': 32, 'uint64': 64, 'int8': 8, 'int16': 16, 'int32': 32, 'int64': 64, 'bool': 1, 'bool_': 1}


def typed_width(e):
    """bit width of an expression whose static type is a fixed-width numpy scalar (np.uint8(1), its shifts / bit operations with
    plain Python integers - which numpy keeps in that type, so a shift past the width gives 0), else None"""
    if isinstance(e, ast.Call) and isinstance(e.func, ast.Attribute) and norm(e.func.value) in ('_np', 'np', 'numpy'):
        name = e.func.attr
        if name in WIDTH and len(e.args) == 1:
            return WIDTH[name]
        if name in ('left_shift', 'right_shift', 'bitwise_and', 'bitwise_or', 'bitwise_xor') and len(e.args) == 2:
            ws = [typed_width(a) for a in e.args]
            return max([w for w in ws if w], default=None) if any(ws) and all(w or isinstance(a, (ast.Constant, ast.Attribute, ast.BinOp)) for w, a in zip(ws, e.args)) else None
    if isinstance(e, ast.BinOp) and isinstance(e.op, (ast.LShift, ast.RShift, ast.BitAnd, ast.BitOr, ast.BitXor)):
        ws = [typed_width(e.left), typed_width(e.right)]
        return max([w for w in ws if w], default=None)
    return None


def bit_eval(e, x, b, data, width=16):
    """value of a pure bit expression for the input word x (held in `width` bits) and bit number b"""
    tw = typed_width(e)
    if tw and (isinstance(e, ast.BinOp) or (isinstance(e, ast.Call) and e.func.attr in ('left_shift', 'right_shift', 'bitwise_and', 'bitwise_or', 'bitwise_xor'))):
        v = _bit_eval(e, x, b, data, width)
        return v & ((1 << tw) - 1)
    return _bit_eval(e, x, b, data, width)


def _bit_eval(e, x, b, data, width=16):
    if isinstance(e, ast.Constant) and isinstance(e.value, (int, bool)):
        return int(e.value)
    if isinstance(e, ast.Name):
        if e.id == data:
            return x
        raise Undecidable(f'name {e.id}')
    if isinstance(e, ast.Attribute) and norm(e) == 'self.bit':
        return b
    if isinstance(e, ast.UnaryOp) and isinstance(e.op, ast.Invert):
        return ~bit_eval(e.operand, x, b, data, width) & ((1 << width) - 1)
    if isinstance(e, ast.UnaryOp) and isinstance(e.op, ast.Not):
        return int(not bit_eval(e.operand, x, b, data, width))
    if isinstance(e, ast.BinOp):
        l, r = bit_eval(e.left, x, b, data, width), bit_eval(e.right, x, b, data, width)
        if isinstance(e.op, ast.Pow):
            if not 0 <= r <= 64:
                raise Undecidable('power')
            return l ** r
        if type(e.op) in bitprov.OPS and not isinstance(e.op, (ast.Div,)):
            if isinstance(e.op, (ast.LShift, ast.RShift)) and not 0 <= r <= 64:
                raise Undecidable('shift')
            if isinstance(e.op, (ast.FloorDiv, ast.Mod)) and r == 0:
                raise Undecidable('division')
            return bitprov.OPS[type(e.op)](l, r)
        raise Undecidable('operator')
    if isinstance(e, ast.Compare) and len(e.ops) == 1:
        import operator
        ops = {ast.Eq: operator.eq, ast.NotEq: operator.ne, ast.Lt: operator.lt, ast.LtE: operator.le, ast.Gt: operator.gt, ast.GtE: operator.ge}
        if type(e.ops[0]) in ops:
            return int(ops[type(e.ops[0])](bit_eval(e.left, x, b, data, width), bit_eval(e.comparators[0], x, b, data, width)))
    if isinstance(e, ast.Call):
        name = last(norm(e.func))
        if isinstance(e.func, ast.Attribute) and norm(e.func.value) in ('_np', 'np', 'numpy'):
            args = [bit_eval(a, x, b, data, width) for a in e.args]
            f2 = {'bitwise_and': lambda p, q: p & q, 'bitwise_or': lambda p, q: p | q, 'bitwise_xor': lambda p, q: p ^ q, 'right_shift': lambda p, q: p >> q,
                  'left_shift': lambda p, q: p << q}
            if name in f2 and len(args) == 2:
                return f2[name](*args)
            if name in WIDTH and len(args) == 1:
                return args[0] & ((1 << WIDTH[name]) - 1) if WIDTH[name] > 1 else int(args[0] != 0)
            raise Undecidable(f'numpy.{name}')
        if isinstance(e.func, ast.Attribute) and e.func.attr == 'astype' and len(e.args) == 1:
            t = norm(e.args[0]).strip('\'"').split('.')[-1]
            v = bit_eval(e.func.value, x, b, data, width)
            if t in WIDTH:
                return v & ((1 << WIDTH[t]) - 1) if WIDTH[t] > 1 else int(v != 0)
            raise Undecidable(f'astype({t})')
        if isinstance(e.func, ast.Name) and e.func.id == 'int' and len(e.args) == 1:
            return bit_eval(e.args[0], x, b, data, width)
    raise Undecidable(f'expression `{norm(e)[:40]}`')


def d3(ctx, prog):
    mono = prog.need_class(M, 'Monobit')
    f = prog.resolve_method(mono, '_compute')
    init = prog.resolve_method(mono, '__init__')
    data = f.params[1]
    key = f'{f.key}::bit test'
    paths = astutil.return_paths(f.node)
    if not paths or len(paths) != 1 or paths[0][1] is None:
        raise AnalysisError('Monobit._compute: returned expression not derivable')
    e = paths[0][1]
    # admitted bit numbers: from the constructor's refusals (bit < lo or bit > hi)
    hi = 8
    for n_ in ast.walk(init.node):
        if isinstance(n_, ast.Compare) and len(n_.ops) == 1 and norm(n_.left) == init.params[1] and isinstance(n_.ops[0], ast.Gt) and isinstance(const_value(n_.comparators[0]), int):
            hi = const_value(n_.comparators[0])
    try:
        bad = None
        n_eval = 0
        domain = list(range(512)) + [v | 0xFE00 for v in range(0, 512, 37)] + [0xFFFF, 0x8000, 0x0100, 0xFEFF]
        for b in range(0, min(hi, 15) + 1):
            for x in domain:
                n_eval += 1
                got = bit_eval(e, x, b, data)
                if got != (x >> b) & 1:
                    bad = (b, x, got)
                    break
            if bad:
                break
        if bad:
            b, x, got = bad
            ctx.fail('C15-D3', key, f'`{norm(e)[:70]}` is not bit b of the value: Monobit({b}) of the 16-bit word {x:#06x} gives {got}, bit {b} is {(x >> b) & 1}'
                     + (' (the constructor admits bit 8: data wider than one byte must keep their upper byte)' if b >= 8 else ''), f.where(), evaluations=n_eval)
        else:
            ctx.ok('C15-D3', key, f'`{norm(e)[:70]}` equals bit b of the value for b = 0..{min(hi, 15)} on {len(domain)} 16-bit words (all 9-bit patterns, with and without upper bits)', f.where(), evaluations=n_eval)
    except Undecidable as ex:
        ctx.undecided('C15-D3', key, f'bit expression not evaluable: {ex}', f.where())
    # result type: an unsigned / boolean 0-1 array (the expression ends in a cast or is a masked shift of the data)
    outer = e
    cast = None
    if isinstance(outer, ast.Call) and isinstance(outer.func, ast.Attribute) and outer.func.attr == 'astype' and outer.args:
        cast = norm(outer.args[0]).strip('\'"').split('.')[-1]
    elif isinstance(outer, ast.Call) and last(norm(outer.func)) in WIDTH:
        cast = last(norm(outer.func))
    if cast is not None:
        ctx.check(cast.startswith('uint') or cast.startswith('bool'), 'C15-D3', f'{f.key}::cast', f'result type `{cast}`: the bit is not returned as an unsigned integer 0/1', f'result cast to {cast}', f.where())
    elif isinstance(outer, ast.Compare):
        ctx.ok('C15-D3', f'{f.key}::cast', 'result is a boolean 0/1 array', f.where())
    else:
        ctx.ok('C15-D3', f'{f.key}::cast', 'result keeps the (unsigned) type of the masked data', f.where())
    # the constructor stores the bit unchanged
    stores = [s for s in ast.walk(init.node) if isinstance(s, ast.Assign) and norm(s.targets[0]) == 'self.bit']
    ctx.check(len(stores) == 1 and norm(stores[0].value) == init.params[1], 'C15-D3', f'{init.key}::self.bit', 'the constructor does not store its `bit` argument unchanged', 'self.bit = bit', init.where())
    val = prog.need_class(M, 'Value')
    fv = prog.resolve_method(val, '_compute')
    body = body_no_doc(fv)
    dv = fv.params[1]
    key = f'{fv.key}::identity'
    if len(body) == 1 and isinstance(body[0], ast.Return) and body[0].value is not None:
        e = body[0].value
        copies = (f'{dv}.copy()',)
        is_np_copy = isinstance(e, ast.Call) and isinstance(e.func, ast.Attribute) and (prog.dotted(fv.mod, e.func) or '') in ('numpy.copy', 'numpy.array', 'numpy.asarray', 'numpy.ascontiguousarray') \
            and len(e.args) == 1 and norm(e.args[0]) == dv and not e.keywords
        if norm(e) == dv or norm(e) in copies or is_np_copy:
            ctx.ok('C15-D3', key, f'Value returns `{norm(e)}`: the data unchanged', fv.where())
        elif any(isinstance(n, (ast.BinOp, ast.UnaryOp, ast.Compare)) for n in ast.walk(e)) or (isinstance(e, ast.Call) and isinstance(e.func, ast.Attribute) and e.func.attr in ('astype', 'view', 'clip', 'reshape', 'ravel', 'flatten')):
            ctx.fail('C15-D3', key, f'Value returns `{norm(e)[:60]}`, which transforms the data', fv.where())
        else:
            ctx.undecided('C15-D3', key, f'`{norm(e)[:60]}` not recognised as the identity', fv.where())
    else:
        ctx.undecided('C15-D3', key, 'Value._compute is not a single return', fv.where())


# ---------------------------------------------------------------------------------------------------------------- D4
ABS = {'absolute', 'abs', 'fabs'}
EXPECT = {   # from the property statement / the functions' documentation
    'nanmax': {('nanmax', 'id', 'id')},
    'maxabs': {('nanmax', 'abs', 'id')},
    'opposite_min': {('nanmax', 'neg', 'id'), ('nanmin', 'id', 'neg')},
    'nansum': {('nansum', 'id', 'id')},
    'abssum': {('nansum', 'abs', 'id')},
}
NAN_BLIND = {'max': 'nanmax', 'amax': 'nanmax', 'min': 'nanmin', 'amin': 'nanmin', 'sum': 'nansum'}


def reducer_term(prog, f, e, data, axis, _depth=0):
    """(reducer, pre, post, axis expression) of the returned expression, or None"""
    post = 'id'
    if isinstance(e, ast.UnaryOp) and isinstance(e.op, ast.USub):
        post, e = 'neg', e.operand
    if not isinstance(e, ast.Call):
        return None
    # a private one-return helper of the module (`_max_ignoring_nan(data, axis)`): read through it
    if isinstance(e.func, ast.Name) and _depth < 3 and not e.keywords:
        r0 = prog.resolve(f.mod, e.func)
        if r0 and r0[0] == 'func' and r0[1].mod is f.mod and not prog.decorators(r0[1]) and len(r0[1].params) == len(e.args):
            hb = body_no_doc(r0[1])
            if len(hb) == 1 and isinstance(hb[0], ast.Return) and hb[0].value is not None:
                from ..inline import Subst
                import copy as _copy
                inner = Subst(dict(zip(r0[1].params, e.args))).visit(_copy.deepcopy(hb[0].value))
                ast.fix_missing_locations(inner)
                t_ = reducer_term(prog, f, inner, data, axis, _depth + 1)
                if t_ is None:
                    return None
                red_, pre_, post_, ax_ = t_
                if post == 'neg':
                    post_ = {'id': 'neg', 'neg': 'id'}.get(post_)
                return (red_, pre_, post_, ax_) if post_ else None
    name = last(norm(e.func))
    sibling = None
    if isinstance(e.func, ast.Attribute) and (prog.dotted(f.mod, e.func) or '').startswith('numpy'):
        if not e.args:
            return None
        arr, rest = e.args[0], e.args[1:]
    elif isinstance(e.func, ast.Name) and _depth < 3:
        r = prog.resolve(f.mod, e.func)
        if not (r and r[0] == 'func' and any(last(n) == 'discriminant' for n, _ in prog.decorators(r[1]))) or not e.args:
            return None
        sibling = r[1]
        arr, rest = e.args[0], e.args[1:]
    elif isinstance(e.func, ast.Attribute):
        arr, rest = e.func.value, e.args
    else:
        return None
    ax = None
    for k in e.keywords:
        if k.arg == 'axis':
            ax = k.value
        elif k.arg not in ('out',):
            return None
    if ax is None and rest:
        ax = rest[0]
    pre = 'id'
    if isinstance(arr, ast.UnaryOp) and isinstance(arr.op, ast.USub):
        pre, arr = 'neg', arr.operand
    elif isinstance(arr, ast.Call) and last(norm(arr.func)) in ABS and len(arr.args) == 1 and not arr.keywords:
        pre, arr = 'abs', arr.args[0]
    elif isinstance(arr, ast.Call) and last(norm(arr.func)) == 'negative' and len(arr.args) == 1:
        pre, arr = 'neg', arr.args[0]
    n2n = None
    if isinstance(arr, ast.Call) and last(norm(arr.func)) == 'nan_to_num' and arr.args and norm(arr.args[0]) == data and sibling is None:
        n2n, arr = arr, arr.args[0]                 # abs / neg of nan_to_num(data)
    if norm(arr) != data:
        return None
    if n2n is not None:
        kws = {k.arg: norm(k.value).replace(' ', '') for k in n2n.keywords}
        infs = ('_np.inf', 'np.inf', 'numpy.inf', "float('inf')", 'math.inf')
        ninfs = tuple('-' + x for x in infs)
        nanv = kws.get('nan', '0')
        nan_kind = '0' if nanv in ('0', '0.0') else ('-inf' if nanv in ninfs else ('+inf' if nanv in infs else None))
        if len(n2n.args) > 1 or nan_kind is None:
            return None
        kept = kws.get('posinf') in infs and kws.get('neginf') in ninfs
        return f'nan_to_num:{name}:{"kept" if kept else "rewritten"}:{nan_kind}', pre, post, ax
    if sibling is not None:
        # a decorated sibling discriminant: its own term, composed; without an axis argument its wrapper default (-1) applies
        body = body_no_doc(sibling)
        if len(body) != 1 or not isinstance(body[0], ast.Return):
            return None
        sd, sa = (sibling.params + ['?', '?'])[:2]
        t = reducer_term(prog, sibling, body[0].value, sd, sa, _depth + 1)
        if t is None:
            return None
        sred, spre, spost, sax = t
        if sax is None or norm(sax) != sa:
            return None            # the sibling itself is reported on its own
        comp = {('id', 'id'): 'id', ('id', 'abs'): 'abs', ('id', 'neg'): 'neg', ('abs', 'id'): 'abs', ('neg', 'id'): 'neg', ('neg', 'neg'): 'id',
                ('abs', 'abs'): 'abs', ('neg', 'abs'): 'abs'}
        p2 = comp.get((pre, spre))          # first `pre` (here), then the sibling's
        q2 = comp.get((spost, post))
        if p2 is None or q2 is None:
            return None
        return sred, p2, q2, (ax if ax is not None else ast.Constant(-1))
    return name, pre, post, ax


def axis_norm(ctx, rule, f, data, axis, key):
    """the only stores to the axis variable are `axis = ndim - 1` under `axis == -1`"""
    pm = astutil.parents(f.node)
    n = 0
    for s in ast.walk(f.node):
        if isinstance(s, (ast.Assign, ast.AugAssign)):
            t = s.targets[0] if isinstance(s, ast.Assign) else s.target
            if norm(t) != axis:
                continue
            n += 1
            g = astutil.guards(s, pm, f.node)
            gt = [(norm(t_), pos) for t_, pos in g]
            val = astutil.affine(s.value) if isinstance(s, ast.Assign) else None
            nd = {f'len({data}.shape)', f'{data}.ndim'}
            ok_val = val is not None and val.get('', 0) == -1 and len([k for k in val if k]) == 1 and [k for k in val if k][0] in nd and val[[k for k in val if k][0]] == 1
            ok_guard = gt in ([(f'{axis} == -1', True)], [(f'-1 == {axis}', True)], [(f'{axis} < 0', True)])
            if ok_guard and val is not None and not ok_val and set(k for k in val if k) <= nd | {axis}:
                if gt[0][0] == f'{axis} < 0' and astutil.affine_eq(val, {axis: 1, [k for k in val if k and k != axis][0] if [k for k in val if k and k != axis] else '': 1}):
                    ok_val = True
            if isinstance(s, ast.Assign) and isinstance(s.value, ast.BinOp) and isinstance(s.value.op, ast.Mod) and norm(s.value.right) in nd and astutil.affine(s.value.left) is not None \
                    and set(k_ for k_ in astutil.affine(s.value.left) if k_) <= {axis}:
                lhs = astutil.affine(s.value.left)
                ctx.check(lhs == {axis: 1}, rule, f'{key}::axis normalisation', f'`{norm(s)}` maps the requested axis to another dimension (the axis itself modulo the number of dimensions is its non-negative equivalent)',
                          f'`{norm(s)}`: every axis in -ndim .. ndim-1 is mapped to its non-negative equivalent', f.where(s))
            elif ok_guard and ok_val:
                ctx.ok(rule, f'{key}::axis normalisation', f'`{norm(s)}` under `{gt[0][0]}`: -1 means the last axis', f.where(s))
            elif ok_guard and val is not None:
                ctx.fail(rule, f'{key}::axis normalisation', f'`{norm(s)}` under `{gt[0][0]}`: axis -1 is not mapped to the last axis (ndim - 1)', f.where(s))
            else:
                ctx.undecided(rule, f'{key}::axis normalisation', f'store `{norm(s)[:60]}` to the axis not understood', f.where(s))
    return n


def passes_through(ctx, rule, f, callee_pred, data, axis, key, what):
    """exactly one call of the wrapped computation, with the caller's array and axis; its value is what is returned"""
    calls = [c for c in ast.walk(f.node) if isinstance(c, ast.Call) and callee_pred(c)]
    if len(calls) != 1:
        ctx.undecided(rule, f'{key}::delegation', f'{len(calls)} calls of {what} found, expected one', f.where())
        return
    c = calls[0]
    pm = astutil.parents(f.node)
    args = [norm(a) for a in c.args]
    kws = {k.arg: norm(k.value) for k in c.keywords}
    ok_data = (args[:1] == [data]) or kws.get('data') == data
    ok_axis = kws.get('axis') == axis or args[1:2] == [axis]
    ctx.check(ok_data and ok_axis, rule, f'{key}::delegation', f'`{norm(c)[:70]}` does not pass the caller\'s array `{data}` and the normalised `{axis}` on unchanged',
              f'`{norm(c)[:70]}`: array and axis passed on unchanged', f.where(c))
    st = pm.get(c)
    rets = [r for r in ast.walk(f.node) if isinstance(r, ast.Return) and r.value is not None]
    if isinstance(st, ast.Return):
        ctx.ok(rule, f'{key}::result', 'the callee\'s result is returned directly', f.where(st))
        return
    if not (isinstance(st, ast.Assign) and isinstance(st.targets[0], ast.Name)):
        ctx.undecided(rule, f'{key}::result', 'callee result not bound to a local', f.where(c))
        return
    var = st.targets[0].id
    rebinds = [s for s in ast.walk(f.node) if isinstance(s, (ast.Assign, ast.AugAssign)) and s is not st and norm(s.targets[0] if isinstance(s, ast.Assign) else s.target).split('[')[0] == var]
    ok = len(rets) == 1 and norm(rets[0].value) == var and not rebinds
    ctx.check(ok, rule, f'{key}::result', f'what is returned (`{norm(rets[0].value)[:50] if rets else "nothing"}`) is not the unmodified result of {what}', f'returns the result of {what} unmodified', f.where(rets[0]) if rets else f.where())


class _WhereIsNan(ast.NodeTransformer):
    """`where(isnan(x), c, x)` is `nan_to_num(x, nan=c)` with the infinities kept"""

    def visit_Call(self, n):
        self.generic_visit(n)
        if last(norm(n.func)) == 'where' and len(n.args) == 3 and not n.keywords and isinstance(n.args[0], ast.Call) and last(norm(n.args[0].func)) == 'isnan' \
                and len(n.args[0].args) == 1 and norm(n.args[0].args[0]) == norm(n.args[2]) and isinstance(n.args[2], ast.Name):
            pref = norm(n.func).rsplit('.', 1)[0] + '.' if '.' in norm(n.func) else ''
            new = ast.parse(f'{pref}nan_to_num(X, nan=0, posinf={pref}inf, neginf=-{pref}inf)', mode='eval').body
            new.args[0] = n.args[2]
            new.keywords[0].value = n.args[1]
            return ast.copy_location(new, n)
        return n


def d4(ctx, prog):
    m = prog.need_mod(D)
    found = {}
    for f in prog.funcs_in(D):
        if f.parent is None and any(last(n) == 'discriminant' for n, _ in prog.decorators(f)):
            found[f.name] = f
    ctx.floor('C15 built-in discriminants', len(set(found) & set(EXPECT)), 5)
    for name, f in sorted(found.items()):
        data, axis = (f.params + ['?', '?'])[:2]
        from .. import inline as _inl
        f = _inl.inlined(prog, f)                 # private one-line helpers read in place
        f_ = copy.copy(f)
        f_.node = _WhereIsNan().visit(copy.deepcopy(f.node))
        f = f_
        body = body_no_doc(f)
        key = f'{f.key}::reduction'
        if len(body) != 1 or not isinstance(body[0], ast.Return):
            ctx.undecided('C15-D4', key, 'discriminant body is not a single return', f.where())
            continue
        t = reducer_term(prog, f, body[0].value, data, axis)
        if t is None:
            ctx.undecided('C15-D4', key, f'`{norm(body[0].value)[:70]}` is not [-]reducer([-|abs](data), axis=...)', f.where())
            continue
        red, pre, post, ax = t
        if red.startswith('nan_to_num:'):
            _, inner_red, infs, nan_kind = red.split(':')
            neutral = {'sum': '0', 'nansum': '0', 'max': '-inf', 'amax': '-inf', 'nanmax': '-inf', 'min': '+inf', 'amin': '+inf', 'nanmin': '+inf'}.get(inner_red)
            if neutral != nan_kind:
                ctx.fail('C15-D4', key, f'{name} replaces NaN by {nan_kind} and reduces with `{inner_red}`: {nan_kind} is not neutral for it, NaN entries are not ignored but counted as {nan_kind}', f.where(body[0]))
                continue
            if infs != 'kept':
                ctx.fail('C15-D4', key, f'{name} passes the data through nan_to_num without keeping the infinities (posinf / neginf): an infinite entry is replaced by the largest finite number, '
                         'so more than the NaN entries is changed (a +inf entry no longer gives inf, +inf with -inf no longer gives NaN)', f.where(body[0]))
                continue
            red = {'sum': 'nansum', 'max': 'nanmax', 'amax': 'nanmax', 'min': 'nanmin', 'amin': 'nanmin'}.get(inner_red, inner_red)
        if red in NAN_BLIND:
            ctx.fail('C15-D4', key, f'{name} reduces with `{red}`, which propagates NaN: NaN entries are not ignored (use {NAN_BLIND[red]})', f.where(body[0]))
            continue
        if ax is None or norm(ax) != axis:
            ctx.fail('C15-D4', f'{f.key}::axis', f'{name} reduces over `{norm(ax) if ax is not None else "the flattened array"}`, not over the requested axis `{axis}`', f.where(body[0]))
        else:
            ctx.ok('C15-D4', f'{f.key}::axis', f'{name} reduces exactly `axis={axis}`', f.where(body[0]))
        if name in EXPECT:
            ctx.check((red, pre, post) in EXPECT[name], 'C15-D4', key, f'{name} computes {post}({red}({pre}(data))): its definition is one of {sorted(EXPECT[name])} (post, reducer, pre)',
                      f'{name} = {post}({red}({pre}(data)))', f.where(body[0]))
        elif red.startswith('nan'):
            ctx.ok('C15-D4', key, f'{name} = {post}({red}({pre}(data))) (not one of the five documented ones)', f.where(body[0]))
    # the decorator
    dec = prog.need_func(D, 'discriminant')
    inner = [g for g in prog.funcs if g.parent is dec]
    if len(inner) != 1:
        raise AnalysisError('discriminant decorator: wrapper function not identified')
    w = inner[0]
    data, axis = w.params[0], w.params[1]
    fn = dec.params[0]
    n = axis_norm(ctx, 'C15-D4', w, data, axis, w.key)
    ctx.check(n == 1, 'C15-D4', f'{w.key}::axis stores', f'{n} stores to `{axis}` in the wrapper', 'one axis normalisation', w.where())
    passes_through(ctx, 'C15-D4', w, lambda c: isinstance(c.func, ast.Name) and c.func.id == fn, data, axis, w.key, f'the wrapped function `{fn}`')
    rets = [r for r in ast.walk(dec.node) if isinstance(r, ast.Return) and r.value is not None and not any(r in ast.walk(w.node) for _ in [0])]
    ctx.check(any(norm(r.value) == w.name for r in rets), 'C15-D4', f'{dec.key}::returns wrapper', 'the decorator does not return the checking wrapper', 'the decorator returns the wrapper', dec.where())
    d = w.node.args.defaults
    ctx.check(len(d) == 1 and const_value(d[0]) == -1, 'C15-D4', f'{w.key}::default axis', 'default axis is not -1 (last)', 'default axis -1', w.where())
    # Model.__call__
    model = prog.need_class(M, 'Model')
    call = prog.resolve_method(model, '__call__')
    data, axis = call.params[1], call.params[2]
    n = axis_norm(ctx, 'C15-D4', call, data, axis, call.key)
    ctx.check(n == 1, 'C15-D4', f'{call.key}::axis stores', f'{n} stores to `{axis}` in Model.__call__', 'one axis normalisation', call.where())
    passes_through(ctx, 'C15-D4', call, lambda c: norm(c.func) == 'self._compute', data, axis, call.key, 'self._compute')
    for cname in ('Value', 'Monobit', 'HammingWeight'):
        ci = prog.need_class(M, cname)
        ctx.check(prog.resolve_method(ci, '__call__') is call, 'C15-D4', f'{ci.key}::__call__', f'{cname} overrides Model.__call__', f'{cname} is called through Model.__call__', ci.mod.relpath)


def run(ctx, prog):
    ctx.rule('C15-D1', 'popcount table exact; every input bit of each vectorize lane reaches exactly one in-range table lookup (bit-provenance dataflow, width from the signature); dispatch by item size to the lane of that width')
    ctx.rule('C15-D2', 'nb_words grouping: consecutive non-overlapping affine slices of width nb_words on the axis swapped to the front, summed over that axis only, swapped back; guard true for all k >= 2')
    ctx.rule('C15-D3', 'Monobit = (data & 2**bit) compared so that exactly a set bit is true (finite evaluation over bit = 0..7), unsigned cast; Value = identity')
    ctx.rule('C15-D4', 'five discriminants: NaN-ignoring reducer over axis=<axis parameter>, abs / negation as documented; wrappers map -1 to ndim-1, delegate once with the same array and axis, return the result unchanged')
    ctx.assume('numba types the lane argument as the unsigned type of the vectorize signature and integer literals as int64 (bitwise ops keep the bits)')
    ctx.assume('numpy.nanmax/nanmin/nansum ignore NaN entries and reduce exactly the axis given; numpy.swapaxes returns a view')
    c = d1(ctx, prog)
    d2(ctx, prog, c)
    d3(ctx, prog)
    d4(ctx, prog)
    ctx.unit('functions_analysed', ['_fhw8', '_fhw16', '_fhw32', '_fhw64', 'HammingWeight._compute', 'Monobit._compute', 'Value._compute', 'Model.__call__',
                                    'discriminant', 'nanmax', 'maxabs', 'opposite_min', 'nansum', 'abssum'])
    ctx.rule('C15-D5', 'every axis in -ndim .. ndim-1 through the public entry points: HammingWeight grouping along a negative axis equals the grouping along its non-negative equivalent; the discriminant wrapper reduces along the requested axis and accepts the result')
    ctx.floor('axis cases interpreted', d5_axes(ctx, prog), 30)
