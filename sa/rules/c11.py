"""C11 - results are independent of run-time kernel selection and of the numba thread count.

D1 sibling agreement   kernels selected by timing at one call site have the same parameter list, write the same
                       parameters, only with +=, and a direct call of one of them passes the same arguments.
D2 precision cast      in every kernel that takes the precision, no product/power/matmul/reduction runs on raw values of
                       the read-only inputs (it would be computed in the traces' own dtype by one kernel and in the
                       requested precision by its sibling).
D3 prange disjointness in every prange(iv) body each store to a shared array is indexed by iv in one fixed axis or sits
                       under `if iv == const` (single writer): no two iterations write the same element, so any thread
                       count gives the same element-wise sums.
D4 sentinel            both siblings ignore the lookup sentinel -1 (guard before indexing / equality with a class index).
"""
import ast

from .. import kernels, kernelrules, universe, lut
from ..model import AnalysisError, norm


def emit(ctx, rule, findings):
    n = 0
    for status, construct, detail, where in findings:
        n += 1
        if status == 'ok':
            ctx.ok(rule, construct, detail, where)
        elif status == 'bad':
            ctx.fail(rule, construct, detail, where)
        else:
            ctx.undecided(rule, construct, detail, where)
    return n


def dispatch_functions(prog):
    """[(class used for resolution, Func)] functions containing a kernel dispatch site"""
    out = []
    allc, concrete = universe.distinguisher_classes(prog)
    for f in prog.funcs:
        if f.cls is None or not kernels.dispatch_sites(prog, f):
            continue
        owner = next((c for c in concrete if prog.resolve_method(c, f.name) is f), None)
        if owner is None:
            owner = f.cls
        out.append((owner, f))
    return out


def run(ctx, prog):
    from .. import universe as _uni0
    _uni0.inline_base_entry_points(ctx, prog)
    ctx.rule('C11-D1', 'kernels selectable at one dispatch site agree on parameters, written parameters (+= only) and call arguments')
    ctx.rule('C11-D2', 'no product/power/matmul/reduction on raw read-only inputs in a kernel that takes the precision')
    ctx.rule('C11-D3', 'prange stores are indexed by the induction variable in one fixed axis, or single-writer guarded')
    ctx.rule('C11-D4', 'values that may be the lookup sentinel -1 are never used as an index without a guard on that value')
    ctx.assume('numba array-expression parallelism inside njit(parallel=True) without an explicit prange is trusted')
    ctx.assume('the magnitude of rounding differences between loop-order and matmul-order summation is not decided')
    lk = lut.Lookup(prog)
    nk = kernels.numba_funcs(prog)
    ctx.unit('numba_functions', [f.key for f, k, c in nk])
    n_prange = 0
    n_prec = 0
    kernels_with_prange = []
    for f, kind, call in nk:
        if kind != 'njit':
            continue
        res, n = kernelrules.prange_disjoint(prog, f)
        n_prange += n
        if n:
            kernels_with_prange.append(f.key)
            if not kernels.is_parallel(call):
                ctx.note(f'{f.key} uses prange without parallel=True (runs sequentially)')
        emit(ctx, 'C11-D3', res)
        res, prec = kernelrules.precision_taint(prog, f)
        if prec:
            n_prec += 1
            if not res:
                ctx.ok('C11-D2', f'{f.key}::precision `{prec}`', 'no arithmetic on raw inputs')
        emit(ctx, 'C11-D2', res)
        mp = lk.maybe_params(f)
        res, arrays = kernelrules.sentinel_discipline(prog, f, mp)
        if mp:
            emit(ctx, 'C11-D4', res)
            if not res:
                # no index use at all: the kernel must then only compare the values
                ctx.ok('C11-D4', f'{f.key}::lookup output `{sorted(mp)[0]}`', 'never used as an index (compared with class positions only)')
    dfs = dispatch_functions(prog)
    n_sites = 0
    for owner, f in dfs:
        res, sites = kernelrules.sibling_agreement(prog, owner, f)
        n_sites += len(sites)
        emit(ctx, 'C11-D1', res)
        # both siblings must take the precision and be clean under D2/D4 (already judged above); record the pairing
        for var, names, node, calls in sites:
            ks = [prog.resolve_method(owner, n) for n in names]
            precs = [kernelrules.precision_param(k) for k in ks if k is not None]
            if len(set(bool(p) for p in precs)) > 1:
                known = next(p for p in precs if p)
                for k, p in zip(ks, precs):
                    if not p and known in k.params:
                        # the sibling receives the precision (same parameter list) but never uses it as a dtype
                        res, _ = kernelrules.precision_taint(prog, k, prec=known)
                        emit(ctx, 'C11-D2', res)
                        n_prec += 1
                        if not any(r[0] == 'bad' for r in res):
                            ctx.fail('C11-D2', f'{k.key}::precision `{known}`',
                                     f'{k.name} receives the precision `{known}` but never casts with it while its sibling does', k.where())
    ctx.unit('dispatch_sites', [f.key for o, f in dfs])
    ctx.unit('prange_kernels', kernels_with_prange)
    ctx.floor('prange loops', n_prange, 5)
    ctx.floor('kernels taking the precision', n_prec, 5)
    ctx.floor('timing-based dispatch sites', n_sites, 2)
    from .. import kernelvalues as _kv
    ctx.floor('kernel value cases interpreted', _kv.clause(ctx, prog, 'C11-D5', ('partitioned', 'template')), 20)
