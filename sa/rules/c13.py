"""C13 - MIA: binning, zero handling and bin-edge validation.

D1 validation        the bin_edges setter refuses non-increasing and non-uniform edges with a test that is not
                     sign-cancelling and not one-sided: the (second) differences pass through abs/square/ptp/allclose before
                     they are compared with the tolerance; consecutive edges are compared strictly.
D2 one bin or none   in the kernel the bin index is defined on exactly two guarded branches - the scaling formula under
                     `lo <= x` and a *strict* `x < hi`, and `x == hi` -> nbins - 1 - and the remaining branch skips the trace
                     before any store; bin count = len(edges) - 1 in setter, allocation, automatic edges and kernel.
D3 0 log 0 = 0       every argument of log had its zeros replaced before the call; every pdf denominator is zero-protected.
"""
import ast

from .. import astutil, kernels
from ..model import norm, AnalysisError, self_attr, const_value, root_name

MIA = 'scared.distinguishers.mia'
SIGN_KILLERS = {'abs', 'absolute', 'fabs', 'square', 'ptp', 'allclose', 'isclose', 'var', 'std', 'nanstd', 'nanvar'}
CANCELLING = {'sum', 'nansum', 'mean', 'nanmean', 'average', 'cumsum'}


def d1(ctx, prog):
    ci = prog.need_class(MIA, 'MIADistinguisherMixin')
    setter = prog.resolve_setter(ci, 'bin_edges')
    if setter is None:
        raise AnalysisError('bin_edges setter not found')
    from .. import inline
    setter = inline.inlined(prog, setter)
    pm = astutil.parents(setter.node)
    raising_ifs = [n for n in ast.walk(setter.node) if isinstance(n, ast.If) and any(isinstance(b, ast.Raise) for b in n.body)]
    # uniformity: tests mentioning diff
    def order_test(t):
        # a first-order difference compared with zero decides the *order* of the edges, not their spacing
        return any(isinstance(c, ast.Compare) and len(c.ops) == 1 and const_value(c.comparators[0]) == 0 and isinstance(c.left, (ast.Call, ast.Name))
                   and (isinstance(c.left, ast.Name) or norm(c.left.func).split('.')[-1] in ('diff', 'ediff1d'))
                   and not any(isinstance(x, ast.Call) and x is not c.left and norm(x.func).split('.')[-1] in ('diff', 'ediff1d', 'abs', 'absolute') for x in ast.walk(c.left))
                   for c in ast.walk(t))
    uni = [n for n in raising_ifs if any(isinstance(c, ast.Call) and norm(c.func).split('.')[-1] in ('diff', 'ediff1d', 'allclose', 'ptp')
                                         for c in ast.walk(n.test)) and not order_test(n.test)]
    key = f'{setter.key}::uniformity test'
    if not uni:
        ctx.fail('C13-D1', key, 'the setter has no test refusing non-uniform bin edges (the kernel assumes a constant width)', setter.where())
    for n in uni:
        k = f'{setter.key}::{norm(n.test)[:120]}'
        tpm = astutil.parents(n.test)
        diffs = [c for c in ast.walk(n.test) if isinstance(c, ast.Call) and norm(c.func).split('.')[-1] in ('diff', 'ediff1d')]
        closes = [c for c in ast.walk(n.test) if isinstance(c, ast.Call) and norm(c.func).split('.')[-1] in ('allclose', 'isclose')]
        rel_bad = None
        for c in closes:
            rtol = next((kk.value for kk in c.keywords if kk.arg == 'rtol'), c.args[2] if len(c.args) > 2 else None)
            on_widths = any(isinstance(x, ast.Call) and norm(x.func).split('.')[-1] in ('diff', 'ediff1d') for a in c.args[:2] for x in ast.walk(a))
            if not on_widths and not (rtol is not None and const_value(rtol) == 0):
                rel_bad = c
        if rel_bad is not None:
            ctx.fail('C13-D1', k, f'`{norm(rel_bad)[:70]}` compares edge *positions* with a relative tolerance (rtol scales with the magnitude of the edges, not with '
                                  f'the bin width): for edges far from zero widening/narrowing/compensating edge lists pass', setter.where(n))
            continue
        if not diffs:
            ctx.ok('C13-D1', k, 'uniformity decided by allclose/ptp (sign-insensitive)', setter.where(n))
            continue
        # innermost diff chain -> walk outwards to the root of the test
        inner = [d for d in diffs if not any(isinstance(c, ast.Call) and c is not d and norm(c.func).split('.')[-1] in ('diff', 'ediff1d')
                                             for c in ast.walk(d))][0]
        cur = inner
        chain = []
        killed = False
        while cur in tpm:
            cur = tpm[cur]
            if isinstance(cur, ast.Call):
                nm = norm(cur.func).split('.')[-1]
                chain.append(nm)
                if nm in SIGN_KILLERS:
                    killed = True
                    break
                if nm in CANCELLING and not killed:
                    ctx.fail('C13-D1', k, f'`{nm}` of signed differences is compared with the tolerance: positive and negative width changes '
                                          f'cancel (it telescopes to last width - first width), so narrowing or compensating edges pass', setter.where(n))
                    break
            elif isinstance(cur, ast.BinOp) and isinstance(cur.op, ast.Pow) and const_value(cur.right) in (2, 4):
                killed = True
                break
            elif isinstance(cur, ast.Compare):
                # comparison reached with the sign still alive: one-sided unless both sides are tested
                ops = {type(o) for o in cur.ops}
                other = [x for x in ast.walk(n.test) if isinstance(x, ast.Compare) and x is not cur]
                two_sided = any({type(o) for o in x.ops} & {ast.Lt, ast.LtE} for x in other) and (ops & {ast.Gt, ast.GtE})
                if not two_sided:
                    ctx.fail('C13-D1', k, 'signed differences are compared with the tolerance on one side only: width changes of the other sign '
                                          '(narrowing edges) pass', setter.where(n))
                    break
                killed = True
                break
        else:
            pass
        if killed:
            ctx.ok('C13-D1', k, f'width differences pass through {chain[-1] if chain else "a sign-insensitive form"} before the tolerance comparison', setter.where(n))
    # strictly increasing
    strict = None
    for n in raising_ifs:
        t = n.test
        neg = isinstance(t, ast.UnaryOp) and isinstance(t.op, ast.Not)
        c = t.operand if neg else t
        if isinstance(c, ast.Compare) and len(c.ops) == 1 and isinstance(c.left, ast.Name) and isinstance(c.comparators[0], ast.Name):
            # inside `for a, b in zip(e, e[1:])`
            loop = next((p for p, f_ in astutil.enclosing(n, pm) if isinstance(p, ast.For)), None)
            if loop is not None and isinstance(loop.iter, ast.Call) and norm(loop.iter.func) == 'zip' and len(loop.iter.args) == 2 \
                    and norm(loop.iter.args[1]).replace(' ', '') == norm(loop.iter.args[0]) + '[1:]' \
                    and isinstance(loop.target, ast.Tuple) and [e.id for e in loop.target.elts] == [c.left.id, c.comparators[0].id]:
                op = type(c.ops[0])
                refuses_equal = (neg and op is ast.Lt) or (not neg and op is ast.GtE)
                strict = (n, refuses_equal)
            elif loop is not None and isinstance(loop.target, ast.Name) and isinstance(loop.iter, ast.Call) and norm(loop.iter.func) == 'range' and len(loop.iter.args) in (1, 2):
                # index loop: for i in range(lo, hi): a = E[i + c]; b = E[i + c + 1] with i + c running over 0 .. len(E) - 2; if not a < b: raise
                iv = loop.target.id
                lo_ = astutil.affine(loop.iter.args[0]) if len(loop.iter.args) == 2 else {}
                hi_ = astutil.affine(loop.iter.args[-1])
                ldef = {s_.targets[0].id: s_.value for s_ in loop.body if isinstance(s_, ast.Assign) and len(s_.targets) == 1 and isinstance(s_.targets[0], ast.Name)}
                ea, eb = ldef.get(c.left.id, c.left), ldef.get(c.comparators[0].id, c.comparators[0])
                if isinstance(ea, ast.Subscript) and isinstance(eb, ast.Subscript) and norm(ea.value) == norm(eb.value) and lo_ is not None and hi_ is not None:
                    sa_, sb_ = astutil.affine(ea.slice), astutil.affine(eb.slice)
                    ln = f'len({norm(ea.value)})'
                    if sa_ is not None and sb_ is not None and sa_.get(iv) == 1 and sb_.get(iv) == 1 and set(sa_) <= {iv, ''} and set(sb_) <= {iv, ''} \
                            and sb_.get('', 0) - sa_.get('', 0) == 1 and set(lo_) <= {''} and lo_.get('', 0) + sa_.get('', 0) == 0 \
                            and {k_: v_ for k_, v_ in hi_.items() if v_} == {k_: v_ for k_, v_ in {ln: 1, '': -1 - sa_.get('', 0)}.items() if v_}:
                        op = type(c.ops[0])
                        strict = (n, (neg and op is ast.Lt) or (not neg and op is ast.GtE))
    key = f'{setter.key}::increasing test'
    if strict is None:
        # vectorised forms: any(E[1:] <= E[:-1]) / not all(E[1:] > E[:-1])  (element comparison: right for every dtype), or the same
        # on np.diff(E) against 0 - which wraps for unsigned integer edge arrays unless E was converted to a float / signed type first
        ldefs = astutil.local_defs(setter.node)
        pname = setter.params[1] if len(setter.params) > 1 else None
        for n in raising_ifs:
            t = astutil.expand_locals(n.test, ldefs)
            neg = False
            while isinstance(t, ast.UnaryOp) and isinstance(t.op, ast.Not):
                neg, t = not neg, t.operand
            red = arg = None
            if isinstance(t, ast.Call) and isinstance(t.func, ast.Attribute) and t.func.attr in ('any', 'all'):
                if norm(t.func.value) in ('_np', 'np', 'numpy') and len(t.args) == 1:
                    red, arg = t.func.attr, t.args[0]
                elif not t.args:
                    red, arg = t.func.attr, t.func.value
            if red is None or not (isinstance(arg, ast.Compare) and len(arg.ops) == 1):
                continue
            l, r, op = arg.left, arg.comparators[0], type(arg.ops[0])
            is_diff = isinstance(l, ast.Call) and norm(l.func).split('.')[-1] in ('diff', 'ediff1d') and len(l.args) == 1 and const_value(r) == 0
            upper = lambda e: isinstance(e, ast.Subscript) and isinstance(e.slice, ast.Slice) and const_value(e.slice.lower) == 1 and e.slice.upper is None      # noqa: E731
            lower = lambda e: isinstance(e, ast.Subscript) and isinstance(e.slice, ast.Slice) and e.slice.lower is None and const_value(e.slice.upper) == -1    # noqa: E731
            pair = None
            if is_diff:
                pair = 'diff'
            elif upper(l) and lower(r) and norm(l.value) == norm(r.value):
                pair = 'elements'
            elif lower(l) and upper(r) and norm(l.value) == norm(r.value):
                pair, op = 'elements', {ast.Lt: ast.Gt, ast.LtE: ast.GtE, ast.Gt: ast.Lt, ast.GtE: ast.LtE}.get(op, op)
            if pair is None:
                continue
            # refuses equal-or-decreasing: any(next <= prev) / not all(next > prev)
            refuses_equal = (red == 'any' and not neg and op is ast.LtE) or (red == 'all' and neg and op is ast.Gt)
            accepts_equal = (red == 'any' and not neg and op is ast.Lt) or (red == 'all' and neg and op is ast.GtE)
            if not (refuses_equal or accepts_equal):
                continue
            if pair == 'diff':
                casts = [st_ for st_ in setter.node.body if isinstance(st_, ast.Assign) and len(st_.targets) == 1 and norm(st_.targets[0]) == pname and isinstance(st_.value, ast.Call)
                         and norm(st_.value.func).split('.')[-1] in ('array', 'asarray', 'astype', 'asfarray')
                         and any(k_.arg == 'dtype' and ('float' in norm(k_.value) or norm(k_.value).strip('\'"') in ('int64', 'f8', 'd')) for k_ in st_.value.keywords)
                         and st_.lineno < n.lineno]
                if not casts:
                    ctx.fail('C13-D1', key, f'`{norm(n.test)[:70]}` decides the order of the edges from np.diff: for an unsigned integer edge array the differences wrap around, so a '
                             f'decreasing (or overflowed) edge list passes as increasing (the edges are converted to float64 only when they are not already an ndarray)', setter.where(n))
                    strict = 'reported'
                    break
            strict = (n, refuses_equal)
            break
    if strict == 'reported':
        pass
    elif strict is None:
        ctx.undecided('C13-D1', key, 'test that consecutive edges increase not recognised', setter.where())
    else:
        ctx.check(strict[1], 'C13-D1', key, f'`{norm(strict[0].test)}` accepts equal consecutive edges (a zero-width bin)',
                  'consecutive edges must be strictly increasing', setter.where(strict[0]))
    # bins_number = len(edges) - 1
    sets = [n for n in ast.walk(setter.node) if isinstance(n, ast.Assign) and self_attr(n.targets[0]) == 'bins_number']
    a = astutil.affine(sets[0].value) if sets else None
    p = setter.params[1] if len(setter.params) > 1 else None
    ctx.check(bool(sets) and a == {f'len({p})': 1, '': -1}, 'C13-D2', f'{setter.key}::bins_number',
              f'bins_number is not set to len({p}) - 1 in the setter', 'bins_number = number of edges - 1', setter.where())
    return ci


def d2(ctx, prog, ci):
    """the binning kernel.  When the kernel as a whole is decided by evaluation over the positions of a sample relative to the edges
    (C13-D9 holds), the structural reading below (guard shapes, scaling formula spelling) is advisory: what it does not recognise
    is another spelling of a kernel that bins every position correctly, and is recorded as a note.  Otherwise it decides."""
    from .. import kernelvalues as _kv0, report as _rep
    k0 = prog.resolve_method(ci, '_accumulate_core')
    try:
        by_value = k0 is not None and _kv0.check_mia(prog, k0, ctx.tier)[0] is None
    except Exception:
        by_value = False
    if not by_value:
        return _d2_structural(ctx, prog, ci)
    scratch = _rep.Ctx(ctx.prop, ctx.tier, ctx.seed)
    try:
        _d2_structural(scratch, prog, ci)
    except AnalysisError as e:
        scratch.undecided('C13-D2', f'{k0.key}::structure', str(e))
    odd = [o for o in scratch.obs if o.status != _rep.HOLDS and o.construct.startswith(k0.key)]
    for o in odd:
        ctx.note(f'C13-D2 (advisory, kernel decided by evaluation): {o.construct}: {o.detail[:160]}')
    for o in scratch.obs:
        if o.status == _rep.HOLDS:
            ctx.ok(o.rule, o.construct, o.detail, o.where, **o.facts)
        elif not o.construct.startswith(k0.key):          # allocation / automatic edges: outside the kernel, decided structurally
            (ctx.fail if o.status == _rep.VIOLATED else ctx.undecided)(o.rule, o.construct, o.detail, o.where, **o.facts)
    ctx.ok('C13-D2', f'{k0.key}::bins by evaluation', 'the kernel bins every position relative to the edges correctly (C13-D9)' +
           (f'; {len(odd)} structural reading(s) not recognised, kept as notes' if odd else ''), k0.where())


def _d2_structural(ctx, prog, ci):
    k = prog.resolve_method(ci, '_accumulate_core')
    if k is None:
        raise AnalysisError('MIA kernel not found')
    written = kernels.written_params(k)
    if len(written) != 1:
        raise AnalysisError('MIA kernel: expected one written array')
    accp, sts = list(written.items())[0]
    st = sts[0]
    sub = st.target
    elts = sub.slice.elts if isinstance(sub.slice, ast.Tuple) else [sub.slice]
    if len(elts) != 4 or not isinstance(elts[1], ast.Name):
        raise AnalysisError('MIA accumulator store is not a 4-axis subscript with a named bin index')
    binv = elts[1].id
    # scalars
    defs = {}
    for n in ast.walk(k.node):
        if isinstance(n, ast.Assign) and len(n.targets) == 1 and isinstance(n.targets[0], ast.Name):
            defs.setdefault(n.targets[0].id, []).append(n)
    edges = next((p for p in k.params if any(isinstance(n, ast.Subscript) and isinstance(n.value, ast.Name) and n.value.id == p
                                             and const_value(n.slice) in (0, -1) for n in ast.walk(k.node)) and p != accp), None)

    def single(name):
        return defs[name][0].value if name in defs and len(defs[name]) == 1 else None
    lo = next((nm for nm, d in defs.items() if len(d) == 1 and norm(d[0].value) == f'{edges}[0]'), None)
    hi = next((nm for nm, d in defs.items() if len(d) == 1 and norm(d[0].value) == f'{edges}[-1]'), None)
    nb = next((nm for nm, d in defs.items() if len(d) == 1 and astutil.affine(d[0].value) == {f'len({edges})': 1, '': -1}), None)
    key = f'{k.key}::bin index'
    if None in (edges, lo, hi, nb):
        ctx.undecided('C13-D2', key, f'kernel scalars not recognised (edges={edges}, lo={lo}, hi={hi}, nbins={nb})', k.where())
        return
    normv = next((nm for nm, d in defs.items() if len(d) == 1 and norm(d[0].value).replace(' ', '') in (
        f'{nb}/({hi}-{lo})',)), None)
    pm = astutil.parents(k.node)
    assigns = defs.get(binv, [])
    if len(assigns) != 2:
        ctx.fail('C13-D2', key, f'the bin index `{binv}` is assigned on {len(assigns)} branches, expected the scaling formula and the right-most edge case', k.where())
        return
    xvar = None
    seen = {'scale': False, 'edge': False}
    # the kernel as a whole is decided by evaluation over the positions of a sample relative to the edges (C13-D9): when that holds,
    # a bin-index expression this structural rule does not recognise is an equivalent spelling, not a defect
    from .. import kernelvalues as _kv2
    try:
        by_value = _kv2.check_mia(prog, k, ctx.tier)[0] is None
    except Exception:
        by_value = False
    for a in assigns:
        g = astutil.guards(a, pm)
        conds = []
        for test, pol in g:
            vals = test.values if isinstance(test, ast.BoolOp) and isinstance(test.op, ast.And) and pol else [test]
            conds += [(v, pol) for v in vals]
        av = a.value
        if isinstance(av, ast.Name) and av.id not in (lo, hi, nb) and single(av.id) is not None:
            av = single(av.id)            # a named loop invariant (`last_bin = nbins - 1`)
        txt = norm(av).replace(' ', '')
        akey = f'{k.key}::{norm(a)[:100]}'
        if txt.startswith('int(') and normv and normv in txt:
            seen['scale'] = True
            # which variable is scaled
            names = [n.id for n in ast.walk(a.value) if isinstance(n, ast.Name) and n.id not in (lo, hi, nb, normv, 'int')]
            xvar = names[0] if names else None
            good_formula = txt == f'int(({xvar}-{lo})*{normv})'
            lower = any(pol and isinstance(c, ast.Compare) and len(c.ops) == 1 and (
                (norm(c.left) == xvar and isinstance(c.ops[0], ast.GtE) and norm(c.comparators[0]) == lo) or
                (norm(c.left) == lo and isinstance(c.ops[0], ast.LtE) and norm(c.comparators[0]) == xvar)) for c, pol in conds)
            upper_strict = any(pol and isinstance(c, ast.Compare) and len(c.ops) == 1 and (
                (norm(c.left) == xvar and isinstance(c.ops[0], ast.Lt) and norm(c.comparators[0]) == hi) or
                (norm(c.left) == hi and isinstance(c.ops[0], ast.Gt) and norm(c.comparators[0]) == xvar)) for c, pol in conds)
            chained = any(pol and isinstance(c, ast.Compare) and len(c.ops) == 2 and norm(c.left) == lo and isinstance(c.ops[0], ast.LtE)
                          and norm(c.comparators[0]) == xvar and isinstance(c.ops[1], ast.Lt) and norm(c.comparators[1]) == hi for c, pol in conds)
            if chained:
                lower = upper_strict = True
            ctx.check(good_formula or by_value, 'C13-D2', akey + ' formula', f'bin index is `{norm(a.value)}`, not int(({xvar} - {lo}) * {normv})',
                      'bin index = int((x - lowest edge) * nbins / range)' if good_formula else 'an equivalent spelling of the scaling formula (the kernel bins every position correctly, C13-D9)', k.where(a))
            ctx.check(lower, 'C13-D2', akey + ' lower bound', f'the scaling formula is not guarded by {lo} <= {xvar}: samples below the first edge get a negative (wrapping) bin',
                      f'guarded by {lo} <= {xvar}', k.where(a))
            ctx.check(upper_strict, 'C13-D2', akey + ' upper bound', f'the scaling formula is not guarded by a strict {xvar} < {hi}: x == {hi} (or above) yields bin index nbins, out of range',
                      f'guarded by strict {xvar} < {hi}', k.where(a))
        elif astutil.affine(av) == {nb: 1, '': -1}:
            seen['edge'] = True
            eq = any(pol and isinstance(c, ast.Compare) and len(c.ops) == 1 and isinstance(c.ops[0], ast.Eq) and
                     {norm(c.left), norm(c.comparators[0])} == {xvar or norm(c.left), hi} for c, pol in conds)
            ctx.check(eq, 'C13-D2', akey + ' right-most edge', f'`{binv} = {nb} - 1` is not restricted to samples equal to the right-most edge `{hi}`',
                      'right-most edge inclusive: x == last edge goes to the last bin', k.where(a))
        elif by_value:
            ctx.ok('C13-D2', akey, f'bin index `{norm(a.value)[:60]}`: not one of the recognised spellings; the kernel bins every position correctly (C13-D9)', k.where(a))
            seen['scale'] = seen['scale'] or isinstance(av, ast.Call)
        else:
            ctx.undecided('C13-D2', akey, f'bin index assignment `{norm(a.value)}` not recognised', k.where(a))
    ctx.check((seen['scale'] and seen['edge']) or by_value, 'C13-D2', key + ' branches', 'the scaling branch or the right-most-edge branch is missing',
              'both the scaling branch and the right-most-edge branch exist', k.where())
    # the remaining branch skips the trace: the if-chain's final else contains `continue`
    top = assigns[0]
    chain_if = None
    for par, field in astutil.enclosing(top, pm):
        if isinstance(par, ast.If):
            chain_if = par
    cur = chain_if
    while cur is not None and len(cur.orelse) == 1 and isinstance(cur.orelse[0], ast.If):
        cur = cur.orelse[0]
    skips = cur is not None and any(isinstance(s, ast.Continue) for s in cur.orelse)
    ctx.check(skips, 'C13-D2', key + ' out of range', 'samples outside the edges are not skipped (`continue`) before the accumulator store: a stale or undefined bin index would be counted',
              'out-of-range samples skip the store', k.where(chain_if) if chain_if is not None else k.where())
    # allocation and automatic edges agree on the bin count
    alloc = prog.resolve_method(ci, '_initialize_accumulators')
    for n in ast.walk(alloc.node):
        if isinstance(n, ast.Call) and norm(n.func).split('.')[-1] == 'zeros' and n.args and isinstance(n.args[0], ast.Tuple):
            ctx.check(len(n.args[0].elts) == 4 and norm(n.args[0].elts[1]) == 'self.bins_number', 'C13-D2', f'{alloc.key}::bin axis extent',
                      f'the bin axis of the accumulator is allocated with `{norm(n.args[0].elts[1]) if len(n.args[0].elts) > 1 else "?"}`, not self.bins_number',
                      'bin axis allocated with bins_number entries', alloc.where(n))
    accf = prog.resolve_method(ci, '_accumulate')
    for n in ast.walk(accf.node):
        if isinstance(n, ast.Call) and norm(n.func).split('.')[-1] == 'linspace':
            last = n.args[-1] if n.args else None
            ctx.check(last is not None and astutil.affine(last) == {'self.bins_number': 1, '': 1}, 'C13-D2', f'{accf.key}::automatic edges',
                      f'automatic edges are built with `{norm(last) if last is not None else "?"}` points, not bins_number + 1',
                      'automatic edges: bins_number + 1 points', accf.where(n))


def d3(ctx, prog, ci):
    n_log = 0
    for name in ('_compute', '_compute_pdf'):
        f = prog.resolve_method(ci, name)
        if f is None:
            raise AnalysisError(f'MIA {name} not found')
        zero_free = set()
        repl = {}           # array name -> value its zeros were replaced by
        for st in f.node.body:
            # uses first (right-hand sides are evaluated before the store)
            for n in ast.walk(st):
                if isinstance(n, ast.Call) and norm(n.func).split('.')[-1] in ('log', 'log2', 'log10'):
                    n_log += 1
                    a = n.args[0] if n.args else None
                    key = f'{f.key}::{norm(n)[:80]}'
                    if isinstance(a, ast.Name):
                        ctx.check(a.id in zero_free, 'C13-D3', key, f'`{a.id}` can still contain zeros when its logarithm is taken: 0 * log 0 becomes NaN instead of 0',
                                  f'zeros of `{a.id}` were replaced before the logarithm', f.where(n))
                        if a.id in zero_free:
                            ctx.check(repl.get(a.id) == 1, 'C13-D3', key + ' neutral value', f'the zeros of `{a.id}` are replaced by {repl.get(a.id)}: an empty cell then contributes '
                                      f'{repl.get(a.id)} * log({repl.get(a.id)}) instead of 0 (only 1 makes x log x vanish)', f'zeros of `{a.id}` replaced by 1 (1 log 1 = 0)', f.where(n))
                    else:
                        ctx.undecided('C13-D3', key, 'logarithm of a compound expression: zero replacement cannot be tracked', f.where(n))
                if name == '_compute_pdf' and isinstance(n, ast.BinOp) and isinstance(n.op, ast.Div) and isinstance(n.right, ast.Name):
                    key = f'{f.key}::{norm(n)[:80]}'
                    ctx.check(n.right.id in zero_free, 'C13-D3', key, f'denominator `{n.right.id}` is not zero-protected: an empty class/bin gives 0/0',
                              f'denominator `{n.right.id}` has its zeros replaced first', f.where(n))
            def one_value(e):
                # the replacement constant: 1, 1.0, dtype.type(1), np.float64(1) ...
                if const_value(e) is not None:
                    return const_value(e)
                if isinstance(e, ast.Call) and len(e.args) == 1 and not e.keywords and const_value(e.args[0]) is not None and norm(e.func).split('.')[-1] in ('type', 'float64', 'float32', 'int64', 'uint32', 'float', 'int'):
                    return const_value(e.args[0])
                return None
            # np.putmask(x, x == 0, c) / np.place(x, x == 0, c) / np.copyto(x, c, where=x == 0): the in-place forms of x[x == 0] = c
            if isinstance(st, ast.Expr) and isinstance(st.value, ast.Call) and norm(st.value.func).split('.')[-1] in ('putmask', 'place', 'copyto'):
                c_ = st.value
                nm_ = norm(c_.func).split('.')[-1]
                if nm_ in ('putmask', 'place') and len(c_.args) == 3 and isinstance(c_.args[0], ast.Name) and norm(c_.args[1]).replace(' ', '') == f'{c_.args[0].id}==0' \
                        and one_value(c_.args[2]) not in (None, 0):
                    zero_free.add(c_.args[0].id)
                    repl[c_.args[0].id] = one_value(c_.args[2])
                elif nm_ == 'copyto' and len(c_.args) == 2 and isinstance(c_.args[0], ast.Name) and one_value(c_.args[1]) not in (None, 0) \
                        and any(k_.arg == 'where' and norm(k_.value).replace(' ', '') == f'{c_.args[0].id}==0' for k_ in c_.keywords):
                    zero_free.add(c_.args[0].id)
                    repl[c_.args[0].id] = one_value(c_.args[1])
            if isinstance(st, ast.Assign) and len(st.targets) == 1:
                t = st.targets[0]
                v_ = st.value
                if isinstance(t, ast.Name) and isinstance(v_, ast.Call) and norm(v_.func).split('.')[-1] == 'where' and len(v_.args) == 3 and isinstance(v_.args[2], ast.Name) \
                        and norm(v_.args[0]).replace(' ', '') == f'{v_.args[2].id}==0' and one_value(v_.args[1]) not in (None, 0):
                    zero_free.add(t.id)                   # y = np.where(x == 0, c, x): y is x with its zeros replaced
                    repl[t.id] = one_value(v_.args[1])
                elif isinstance(t, ast.Name):
                    zero_free.discard(t.id)
                elif isinstance(t, ast.Subscript) and isinstance(t.value, ast.Name) and isinstance(t.slice, ast.Compare) \
                        and norm(t.slice).replace(' ', '') == f'{t.value.id}==0' and const_value(st.value) not in (None, 0):
                    zero_free.add(t.value.id)
                    repl[t.value.id] = const_value(st.value)
            elif isinstance(st, ast.AugAssign) and isinstance(st.target, ast.Name):
                zero_free.discard(st.target.id)
    return n_log


def d5(ctx, prog, ci):
    """the samples compared with the bin edges are the samples given: the kernel receives the batch of _accumulate unchanged, or a
    cast that cannot move a value across an edge (float64).  A narrowing cast (float32 / float16 / an integer type) rounds float64
    samples next to an edge into the neighbouring bin, or a sample just above the last edge onto it."""
    acc = prog.resolve_method(ci, '_accumulate')
    k = prog.resolve_method(ci, '_accumulate_core')
    if acc is None or k is None:
        raise AnalysisError('MIA _accumulate / kernel not found')
    from .. import normalize
    accn = normalize.normal(prog, acc, skip={'_accumulate_core', '_initialize_accumulators'})
    calls = [c for c in ast.walk(accn.node) if isinstance(c, ast.Call) and isinstance(c.func, ast.Attribute) and c.func.attr == k.name]
    key = f'{acc.key}::samples handed to the kernel'
    if len(calls) != 1:
        ctx.undecided('C13-D5', key, f'{len(calls)} kernel calls in _accumulate', acc.where())
        return
    amap = kernels.call_arg_map(k, calls[0])
    tparam = acc.params[1]
    a = amap.get(k.params[0])
    # follow rebinding of the batch parameter before the call
    rebinds = [s_ for s_ in ast.walk(accn.node) if isinstance(s_, ast.Assign) and len(s_.targets) == 1 and isinstance(s_.targets[0], ast.Name)
               and s_.targets[0].id == (a.id if isinstance(a, ast.Name) else tparam)]
    exprs = [a] + [s_.value for s_ in rebinds]
    verdict = 'ok'
    why = ''
    for e in exprs:
        if isinstance(e, ast.Name):
            continue
        cast = None
        if isinstance(e, ast.Call):
            nm = norm(e.func).split('.')[-1]
            dt = next((kw_.value for kw_ in e.keywords if kw_.arg == 'dtype'), None)
            if nm == 'astype' and e.args:
                dt = e.args[0]
            elif nm in ('asarray', 'ascontiguousarray', 'array', 'require') and dt is None and len(e.args) > 1:
                dt = e.args[1]
            elif nm in ('float32', 'float16', 'single', 'half', 'int32', 'int16', 'int8', 'uint8', 'uint16', 'uint32'):
                dt = ast.Constant(nm)
            elif nm in ('float64', 'double'):
                dt = ast.Constant('float64')
            if nm in ('astype', 'asarray', 'ascontiguousarray', 'array', 'require', 'float32', 'float16', 'single', 'half', 'float64', 'double', 'int32', 'int16', 'int8', 'uint8', 'uint16', 'uint32', 'copy'):
                cast = norm(dt).strip('\'"').split('.')[-1] if dt is not None else 'same'
        if cast in ('same', 'float64', 'double', 'longdouble', 'float128'):
            continue
        if cast is not None:
            verdict, why = 'bad', f'`{norm(e)[:70]}` narrows the samples to {cast} before they are compared with the bin edges'
            break
        verdict, why = 'unknown', f'`{norm(e)[:70]}`'
    if verdict == 'ok':
        ctx.ok('C13-D5', key, 'the kernel bins the samples of the batch as given (no narrowing cast)', acc.where(calls[0]))
    elif verdict == 'bad':
        ctx.fail('C13-D5', key, why + ': a float64 sample within rounding distance of an edge changes bin, one just above the last edge is counted instead of discarded', acc.where(calls[0]))
    else:
        ctx.undecided('C13-D5', key, f'how the batch reaches the kernel is not understood: {why}', acc.where(calls[0]))


WIDE = ('float64', 'float', 'double', 'f8', 'd', 'int64', 'uint64', 'longdouble', 'float128')


def d6(ctx, prog, ci):
    """the marginals are sums of histogram cells: numpy sums integer arrays in 64 bits by default; a `dtype=` on a reduction of the
    counts that is not one of the wide literal types (in particular the configurable accumulator precision, which may be uint8 /
    uint16) makes the totals wrap while every cell still fits"""
    n = 0
    for name in ('_compute', '_compute_pdf'):
        f = prog.resolve_method(ci, name)
        if f is None or f.mod.name != MIA:
            continue
        for c in ast.walk(f.node):
            if not (isinstance(c, ast.Call) and norm(c.func).split('.')[-1] in ('sum', 'cumsum', 'nansum', 'mean', 'prod', 'add.reduce', 'reduce')):
                continue
            n += 1
            dt = next((k.value for k in c.keywords if k.arg == 'dtype'), None)
            key = f'{f.key}::{norm(c)[:80]}'
            if dt is None:
                ctx.ok('C13-D6', key, 'reduction in numpy\'s default accumulator type (64-bit for integers)', f.where(c))
                continue
            txt = norm(dt).strip('\'"').split('.')[-1]
            ctx.check(txt in WIDE, 'C13-D6', key, f'`{norm(c)[:70]}` forces the reduction into `{norm(dt)}`: with a narrow accumulator precision (uint8 / uint16) the per-bin and per-class totals '
                      f'wrap around although every histogram cell fits, and the result is no longer H(B) - H(B|V)', f'reduction forced to the wide type {txt}', f.where(c))
    return n


def d7(ctx, prog, ci):
    """the statistic itself, by algebraic value numbering over tensors (sa.symtensor): with symbolic histogram cells a[s, b, p, w]
    (1 sample, 2 bins, 3 classes, 2 words) what `_compute` returns must be, for every word and sample, the same function of the
    cells as   sum_p (n_p / N) [ sum_b f(a_bp / n_p) - sum_b f(a_b. / N) ]   with f(x) = x log x, n_p = sum_b a_bp, N = sum a -
    i.e. H(B) - H(B|V) in nats - `log` being an uninterpreted atom (two logs are the same atom iff their arguments are equal
    rational functions).  The layout (W, S) of the result is part of the comparison."""
    from .. import symtensor, ratfun
    f = prog.resolve_method(ci, '_compute')
    key = f'{f.key}::formula'
    if symtensor.np is None:
        ctx.undecided('C13-D7', key, 'numpy is not available to the analysis interpreter', f.where())
        return 0
    np = symtensor.np
    S, B, P, W = (1, 2, 2, 2) if ctx.tier != 'thorough' else (1, 2, 3, 2)
    ratfun.Q.atoms = []
    a = np.empty((S, B, P, W), dtype=object)
    for s_ in range(S):
        for b in range(B):
            for p in range(P):
                for w in range(W):
                    a[s_, b, p, w] = ratfun.Q.sym(f'a{s_}{b}{p}{w}')
    try:
        te = symtensor.TensorEval(prog, ci, {'self.accumulators': a, 'self.processed_traces': ratfun.Q.sym('T')})   # T: every trace seen, counted in a bin or not
        got = te.run(f, {})
        if not isinstance(got, np.ndarray) or got.shape != (W, S):
            ctx.fail('C13-D7', key, f'_compute returns an array of shape {getattr(got, "shape", None)} for {W} words and {S} sample(s), expected (words, samples)', f.where())
            return 1
        bad = None
        for w in range(W):
            for s_ in range(S):
                cells = a[s_, :, :, w]
                N = cells.sum()
                want = ratfun.Q.const(0)
                pb = [cells[b, :].sum() / N for b in range(B)]
                hb = ratfun.Q.const(0)
                for b in range(B):
                    hb = hb + pb[b] * pb[b].log()
                for p in range(P):
                    n_p = cells[:, p].sum()
                    inner = ratfun.Q.const(0)
                    for b in range(B):
                        x = cells[b, p] / n_p
                        inner = inner + x * x.log()
                    want = want + (n_p / N) * (inner - hb)
                if not got[w, s_].same(want):
                    bad = (w, s_)
        ctx.check(bad is None, 'C13-D7', key, f'what _compute returns for word {bad[0] if bad else ""}, sample {bad[1] if bad else ""} is not H(B) - H(B|V) = sum_p (n_p/N) [sum_b f(a_bp/n_p) - sum_b f(a_b/N)], '
                  f'f(x) = x log x, as a function of the histogram cells', 'the result is H(B) - H(B|V) in nats for every word and sample (normal forms over symbolic cells, log as an uninterpreted atom)', f.where())
    except ratfun.Unknown as e:
        ctx.undecided('C13-D7', key, f'formula not derivable: {e}', f.where())
    return 1


def d8(ctx, prog, ci):
    """scale independence of the edge validation (dimensional analysis, sa.units): the edges carry the unit u of the samples; every
    comparison of the setter - and every max()/min() that builds a tolerance - must combine values of the same dimension (or test
    against zero).  A width difference compared with a bare number such as 1e-9 makes the verdict depend on the unit of the traces:
    the automatic edges (linspace over the observed window) of samples of magnitude 1e7 are then refused as 'not uniform' because
    of the rounding of the edges themselves."""
    from .. import units, inline
    setter = prog.resolve_setter(ci, 'bin_edges')
    setter = inline.inlined(prog, setter)
    p = [x for x in setter.params if x != 'self'][0]
    xc = units.Units(setter, seeds={p: units.D(u=1)}, prog=prog).run()
    n = 0
    judged_uniformity = False

    def dim(e):
        try:
            return xc.ev(e)
        except Exception:
            return units.TOP

    def scaled(d_):
        return isinstance(d_, dict) and d_.get('u', 0) != 0

    def bare_number(e, d_):
        # a dimensionless operand that is not zero (zero is the same in every unit)
        return d_ == units.CONST and const_value(e) != 0 or (isinstance(d_, dict) and not d_ and not isinstance(e, ast.Constant))
    for node in ast.walk(setter.node):
        pairs = []
        if isinstance(node, ast.Compare):
            sides = [node.left] + list(node.comparators)
            pairs = [(a, b) for a, b in zip(sides, sides[1:]) if not isinstance(node.ops[0], (ast.Is, ast.IsNot, ast.In, ast.NotIn))]
        elif isinstance(node, ast.Call) and (isinstance(node.func, ast.Name) and node.func.id in ('max', 'min') and len(node.args) >= 2 or
                                            isinstance(node.func, ast.Attribute) and node.func.attr in ('maximum', 'minimum', 'fmax', 'fmin') and len(node.args) >= 2):
            pairs = [(node.args[0], b) for b in node.args[1:]]
        for a, b in pairs:
            da, db = dim(a), dim(b)
            if not (scaled(da) or scaled(db)):
                continue
            n += 1
            key = f'{setter.key}::{norm(node)[:90]}'
            uses_widths = any(isinstance(c, ast.Call) and norm(c.func).split('.')[-1] in ('diff', 'ediff1d') for c in ast.walk(astutil.expand_locals(node, astutil.local_defs(setter.node))))
            if scaled(da) and scaled(db):
                if da == db:
                    ctx.ok('C13-D8', key, f'both sides have the dimension of the samples ({units.show(da)}): the verdict does not depend on their unit', setter.where(node))
                    judged_uniformity = judged_uniformity or uses_widths
                else:
                    ctx.fail('C13-D8', key, f'`{norm(a)[:40]}` ({units.show(da)}) is compared / combined with `{norm(b)[:40]}` ({units.show(db)})', setter.where(node))
                    judged_uniformity = judged_uniformity or uses_widths
            elif (scaled(da) and bare_number(b, db)) or (scaled(db) and bare_number(a, da)):
                other = b if scaled(da) else a
                ctx.fail('C13-D8', key, f'a quantity in the unit of the samples is compared / combined with the bare number `{norm(other)[:30]}`: the verdict depends on the magnitude of the traces - '
                         'the automatic edges of samples around 1e7 and above (raw 32-bit acquisitions) are refused as non uniform because of their own rounding, and edges of tiny magnitude are never refused',
                         setter.where(node))
                judged_uniformity = judged_uniformity or uses_widths
            elif da is units.TOP or db is units.TOP:
                if uses_widths:
                    ctx.undecided('C13-D8', key, 'dimension of one side of the uniformity comparison not derivable', setter.where(node))
                    judged_uniformity = True
            else:
                ctx.ok('C13-D8', key, 'comparison with zero (the same in every unit)', setter.where(node))
    if not judged_uniformity:
        # allclose / isclose forms: atol is a bare number unless it is 0 and rtol applies to widths
        closes = [c for c in ast.walk(setter.node) if isinstance(c, ast.Call) and norm(c.func).split('.')[-1] in ('allclose', 'isclose')]
        for c in closes:
            atol = next((k.value for k in c.keywords if k.arg == 'atol'), c.args[3] if len(c.args) > 3 else None)
            key = f'{setter.key}::{norm(c)[:90]}'
            n += 1
            da = dim(atol) if atol is not None else units.CONST
            if atol is None or (da == units.CONST and const_value(atol) != 0):
                ctx.fail('C13-D8', key, f'the absolute tolerance of `{norm(c.func)}` is the bare number {norm(atol) if atol is not None else "1e-08 (default)"}: the verdict depends on the magnitude of the traces', setter.where(c))
            else:
                ctx.ok('C13-D8', key, 'absolute tolerance zero or in the unit of the samples', setter.where(c))
            judged_uniformity = True
    if not judged_uniformity:
        ctx.undecided('C13-D8', f'{setter.key}::uniformity comparison', 'no comparison of the edge widths with a tolerance was identified', setter.where())
    return n


def run(ctx, prog):
    from .. import universe as _uni0
    _uni0.inline_base_entry_points(ctx, prog)
    ctx.rule('C13-D1', 'bin-edge validation: width differences pass through a sign-insensitive form before the tolerance test; consecutive edges strictly increasing')
    ctx.rule('C13-D2', 'kernel: scaling formula under lo <= x < hi (strict), x == hi -> last bin, else skip; bin count = len(edges) - 1 everywhere')
    ctx.rule('C13-D3', 'log arguments and pdf denominators have their zeros replaced first')
    ctx.assume('the numeric value H(B) - H(B|V) and float rounding of the bin index next to an edge are not decided')
    ci = d1(ctx, prog)
    d2(ctx, prog, ci)
    n = d3(ctx, prog, ci)
    ctx.rule('C13-D5', 'the kernel bins the samples of the batch as given: no narrowing cast between _accumulate and the comparison with the edges')
    d5(ctx, prog, ci)
    ctx.rule('C13-D7', 'algebraic value numbering over tensors: _compute returns H(B) - H(B|V) (nats) as a function of symbolic histogram cells, log uninterpreted, layout (words, samples) included')
    ctx.floor('MIA statistic compared with its definition', d7(ctx, prog, ci), 1)
    ctx.rule('C13-D6', 'reductions of the histogram counts run in numpy\'s default (64-bit) accumulator or an explicitly wide type, never in the configurable accumulator precision')
    ctx.floor('count reductions judged (MIA)', d6(ctx, prog, ci), 3)
    ctx.rule('C13-D8', 'scale independence of the edge validation: every comparison / max / min of the bin_edges setter combines values of the same dimension (or tests against zero) - a width difference is never compared with a bare number')
    ctx.floor('dimension obligations (bin edges)', d8(ctx, prog, ci), 2)
    ctx.rule('C13-D4', 'axis-label typing of the MIA kernel, _compute_pdf and _compute: every broadcast aligned, (S,B,P,W) reduced to the documented (W,S)')
    from .. import axes
    n4 = axes.check_family(ctx, prog, 'C13-D4', [MIA])
    ctx.floor('logarithm call sites', n, 1)
    ctx.floor('axis obligations (MIA)', n4, 6)
    from .. import kernelvalues as _kvm
    ctx.floor('MIA kernel cases interpreted', _kvm.mia_clause(ctx, prog, 'C13-D9'), 8)
