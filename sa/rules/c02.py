"""C02 - Analysis.run on a Container equals the one-shot statistic on the whole trace set.

D1 every batch once, then final compute   paths of run(): the loop iterates what container.batches(...) returned; on every path of
                                          the body process(<loop batch>) is called exactly once, before _batch_loop_compute();
                                          no break/continue/return; _final_compute() follows the loop and reaches compute_results.
D2 pairing                                process() feeds update with samples and intermediate values of the *same* batch object; the
                                          batch wrapper reads samples and metadata from the same sub trace set; iterator and
                                          indexer build the wrapper from one sliced trace set.
D3 frame, then preprocesses in order      samples = ths.samples[:, frame] first (all rows), then exactly self.preprocesses in list
                                          order, each applied to the previous result; frame and preprocess list travel unchanged
                                          from the Container constructor to the wrapper.
D4 accessors agree                        __iter__, __getitem__ and __len__ all range over the whole slice list.
D5 scores = discriminant(results)         results is written only by _BaseAnalysis.compute_results (= self.compute()), scores only
                                          by BaseAttack.compute_results (= self.discriminant(self.results), after super()).
D7 batch-size function is total           every path of Container._compute_batch_size returns a value.
"""
import ast

from .. import flow, kernels, astutil, universe
from ..model import norm, AnalysisError, self_attr, kw

AB = 'scared.analysis.base'
CT = 'scared.container'


def d1(ctx, prog):
    base = prog.need_class(AB, '_BaseAnalysis')
    allc, concrete = universe.distinguisher_classes(prog)
    classes = universe.analysis_classes(prog, concrete)
    seen = set()
    n = 0
    from .. import inline
    HOOKS = {'_batch_loop_compute', '_final_compute', '_compute_batch_size', '_compute_convergence_traces', '_compute', '_update', '_initialize', '_check'}
    for ci in classes:
        run = inline.inlined(prog, prog.resolve_method(ci, 'run'), skip=HOOKS)
        sig = (run.key, prog.resolve_method(ci, '_batch_loop_compute').key, prog.resolve_method(ci, '_final_compute').key,
               prog.resolve_method(ci, 'process').key)
        if sig in seen:
            continue
        seen.add(sig)
        n += 1
        loops = [l for l in ast.walk(run.node) if isinstance(l, ast.For)]
        key = f'{run.key}::batch loop ({ci.name})'
        if len(loops) != 1:
            ctx.undecided('C02-D1', key, f'{len(loops)} loops in run()', run.where())
            continue
        loop = loops[0]
        it = loop.iter
        tgt = loop.target
        if isinstance(it, ast.Call) and norm(it.func) == 'enumerate' and isinstance(tgt, ast.Tuple):
            it, batch = it.args[0], tgt.elts[1].id
        elif isinstance(tgt, ast.Name):
            batch = tgt.id
        else:
            ctx.undecided('C02-D1', key, 'loop target not understood', run.where(loop))
            continue
        # iterable = result of container.batches(batch_size=...)
        src = None
        if isinstance(it, ast.Name):
            defs = [s for s in ast.walk(run.node) if isinstance(s, ast.Assign) and isinstance(s.targets[0], ast.Name) and s.targets[0].id == it.id]
            src = defs[0].value if len(defs) == 1 else None
        elif isinstance(it, ast.Call):
            src = it
        cparam = [p for p in run.params if p != 'self'][0]
        good = isinstance(src, ast.Call) and norm(src.func) == f'{cparam}.batches'
        ctx.check(good, 'C02-D1', key + ' iterable', f'the loop iterates `{norm(it)}` = `{norm(src) if src is not None else "?"}`, not the batches of the container as given '
                  f'(a slice / filter / reversed view drops or reorders traces)', 'the loop iterates container.batches(...) itself', run.where(loop))

        def keep(ev, fl):
            return ev[0] == 'call' and ev[1] in ('self.process', 'self._batch_loop_compute', 'self._final_compute', 'self.compute_results', 'self.update')
        fl = flow.Flow(prog, ci, keep=keep, inline=lambda callee, call, caller: False)
        fl.stack.append(run)
        body_paths = flow.dedupe(fl.block(run, loop.body, [flow.Path()]))
        fl.stack.pop()
        probs = []
        for p in body_paths:
            if p.outcome != flow.NORMAL:
                probs.append(f'an iteration can end with {p.outcome[0]}: the rest of the batches (or this one) is skipped')
                continue
            names = [e[1] for e in p.events]
            procs = [e for e in p.events if e[1] == 'self.process']
            if len(procs) != 1:
                probs.append(f'process() is called {len(procs)} times on a path through the loop body')
                continue
            pcall = fl.node_of(procs[0])
            pf = prog.resolve_method(ci, 'process')
            pname = [p_ for p_ in pf.params if p_ != 'self'][0] if pf is not None else 'traces_batch'
            a0 = argof(pcall, pname, 0)
            if not (len(pcall.args) + len(pcall.keywords) == 1 and isinstance(a0, ast.Name) and a0.id == batch):
                probs.append(f'process() receives `{norm(a0) if a0 is not None else "?"}`, not the loop batch `{batch}`')
            if 'self._batch_loop_compute' in names and names.index('self._batch_loop_compute') < names.index('self.process'):
                probs.append('_batch_loop_compute() runs before the batch is processed')
        if probs:
            ctx.fail('C02-D1', key, '; '.join(sorted(set(probs))[:2]), run.where(loop))
        else:
            ctx.ok('C02-D1', key, f'process(<batch>) exactly once per iteration on all {len(body_paths)} body paths', run.where(loop))
        # whole function: _final_compute after the loop on every normal path
        fl2 = flow.Flow(prog, ci, keep=keep, inline=lambda callee, call, caller: callee.mod.name.startswith('scared.analysis') and callee.name != 'process')
        paths = fl2.run(run)
        probs = []
        for p in paths:
            if p.outcome != flow.NORMAL:
                continue
            names = [e[1] for e in p.events]
            if 'self._final_compute' not in names:
                probs.append('a normal path through run() never calls _final_compute()')
            else:
                i = names.index('self._final_compute')
                if 'self.compute_results' not in names[i:]:
                    probs.append('_final_compute() does not reach compute_results(): results are not refreshed after the last batch')
                if 'self.process' in names[i:]:
                    probs.append('a batch is processed after _final_compute()')
        k2 = f'{run.key}::final compute ({ci.name})'
        if probs:
            ctx.fail('C02-D1', k2, '; '.join(sorted(set(probs))), run.where())
        else:
            ctx.ok('C02-D1', k2, f'_final_compute() follows the loop and reaches compute_results() on every normal path ({len(paths)} paths)', run.where())
        # batch size handed to batches() comes from _compute_batch_size(container.batch_size)
    return n


def d2(ctx, prog):
    base = prog.need_class(AB, '_BaseAnalysis')
    proc = base.methods['process']
    bp = [p for p in proc.params if p != 'self'][0]
    calls = [c for c in ast.walk(proc.node) if isinstance(c, ast.Call) and norm(c.func) == 'self.update']
    if len(calls) != 1:
        raise AnalysisError('process() does not call self.update exactly once')
    c = calls[0]
    defs = {s.targets[0].id: s.value for s in ast.walk(proc.node) if isinstance(s, ast.Assign) and isinstance(s.targets[0], ast.Name)}

    ldefs_ = astutil.local_defs(proc.node)

    def expand(e):
        return astutil.expand_locals(defs.get(e.id, e) if isinstance(e, ast.Name) else e, ldefs_)
    tr = kw(c, 'traces') or (c.args[0] if c.args else None)
    da = kw(c, 'data') or (c.args[1] if len(c.args) > 1 else None)
    tr, da = expand(tr), expand(da)
    key = f'{proc.key}::{norm(c)[:60]}'
    ctx.check(norm(tr) == f'{bp}.samples', 'C02-D2', key + ' traces', f'update receives traces=`{norm(tr)}`, not the samples of the batch being processed',
              'traces = samples of the processed batch', proc.where(c))
    civ_ = base.methods.get('compute_intermediate_values')
    mpn = [p_ for p_ in civ_.params if p_ != 'self'][0] if civ_ is not None else 'metadata'
    ctx.check(isinstance(da, ast.Call) and norm(da.func) == 'self.compute_intermediate_values' and len(da.args) + len(da.keywords) == 1 and norm(argof(da, mpn, 0)) == f'{bp}.metadatas',
              'C02-D2', key + ' data', f'update receives data=`{norm(da)}`, not the intermediate values of the same batch\'s metadata',
              'data = intermediate values of the same batch\'s metadata', proc.where(c))
    civ = base.methods['compute_intermediate_values']
    mp = [p for p in civ.params if p != 'self'][0]
    rp = astutil.return_paths(civ.node)
    e_ = rp[0][1] if rp and len(rp) == 1 else None
    if isinstance(e_, ast.Call) and norm(e_.func) == 'self.model' and len(e_.args) + len(e_.keywords) == 1:
        inner_ = e_.args[0] if e_.args else e_.keywords[0].value
        ok_ = isinstance(inner_, ast.Call) and norm(inner_.func) == 'self.selection_function' and not inner_.args and len(inner_.keywords) == 1 \
            and inner_.keywords[0].arg is None and norm(inner_.keywords[0].value) == mp
        ctx.check(ok_, 'C02-D2', f'{civ.key}::return', f'intermediate values are `{norm(e_)[:70]}`: the model is not applied to selection_function(**{mp})',
                  'intermediate values = model(selection_function(**metadata))', civ.where())
    else:
        ctx.undecided('C02-D2', f'{civ.key}::return', f'intermediate values `{norm(e_)[:70] if e_ is not None else "?"}` not of the form model(selection_function(**metadata))', civ.where())
    # wrapper
    w = prog.need_class(CT, '_TracesBatchWrapper')
    s, m = w.getters.get('samples'), w.getters.get('metadatas')
    if s is None or m is None:
        raise AnalysisError('batch wrapper properties not found')
    mr = [r.value for r in ast.walk(m.node) if isinstance(r, ast.Return)]
    ctx.check(len(mr) == 1 and norm(mr[0]) == 'self.ths.metadatas', 'C02-D2', f'{m.key}::return', 'metadata are not those of the wrapper\'s own sub trace set',
              'metadata come from self.ths', m.where())
    first = [st for st in s.node.body if isinstance(st, ast.Assign)][0]
    ctx.check(norm(first.value).startswith('self.ths.samples['), 'C02-D2', f'{s.key}::source', 'samples are not read from the wrapper\'s own sub trace set',
              'samples come from self.ths', s.where(first))
    it = prog.need_class(CT, '_TracesBatchIterable')
    for name in ('__iter__', '__getitem__'):
        f = it.methods[name]
        cs = [c for c in ast.walk(f.node) if isinstance(c, ast.Call) and prog.dotted(f.mod, c.func) == f'{CT}._TracesBatchWrapper']
        winit = w.methods.get('__init__')
        wp = [p_ for p_ in winit.params if p_ != 'self'] if winit is not None else ['ths', 'frame', 'preprocesses']
        a0 = argof(cs[0], wp[0], 0) if len(cs) == 1 else None
        good = len(cs) == 1 and a0 is not None and norm(a0).startswith('self._ths[')
        ctx.check(bool(good), 'C02-D2', f'{f.key}::wrapper construction', 'the wrapper is not built from one slice of the iterable\'s trace set',
                  'wrapper built from self._ths[<slice>]', f.where())
        if cs:
            ctx.check(norm(kw(cs[0], 'frame') or (cs[0].args[1] if len(cs[0].args) > 1 else ast.Constant(None))) == 'self.frame'
                      and norm(kw(cs[0], 'preprocesses') or (cs[0].args[2] if len(cs[0].args) > 2 else ast.Constant(None))) == 'self.preprocesses',
                      'C02-D3', f'{f.key}::frame/preprocesses', 'the wrapper does not receive the iterable\'s frame and preprocess list unchanged', 'frame and preprocesses passed on unchanged', f.where())
    return s


FRAME_BATTERY = [[2, 3, 4], [4, 6, 5, 7, 8], [2, 3, 3, 5], [5, 3, 1], [4, 2, 0], [0, 2, 4], [-3, -2, -1], [-1, -2, -3], [7], [1, 1], [9, 0], [0, 9],
                 range(2, 6), range(6, 0, -2), range(4, -1, -2), range(0, 10, 3), slice(2, 7), slice(None, None, 2), slice(7, 2, -1), ..., 3]


def frame_counterexample(prog, f, value, param):
    """`value` (an expression over the parameter `param`) is evaluated exactly (sa.symtensor, numeric mode, conditions must be
    decidable) for a battery of frames; a frame for which indexing the sample axis with the result selects other columns than the
    frame itself is a concrete failing input -> (frame, columns selected, columns wanted).  None: no counterexample (no verdict)."""
    from .. import symtensor, ratfun
    np = symtensor.np
    if np is None:
        return None
    probe = np.arange(30).reshape(3, 10)
    for fr in FRAME_BATTERY:
        te = symtensor.TensorEval(prog, f.cls, {})
        te.numeric = True
        te.strict_if = True
        try:
            got = te.ev(f, value, {param: fr})
            want = probe[:, fr]
            sel = probe[:, got]
        except (ratfun.Unknown, symtensor.Raised):
            return None
        except (IndexError, TypeError, ValueError):
            continue
        if np.shape(sel) != np.shape(want) or not np.array_equal(sel, want):
            return fr, np.asarray(sel)[0].tolist() if np.ndim(sel) else int(sel[()]) , np.asarray(want)[0].tolist() if np.ndim(want) else want
    return None


def frame_method_counterexample(prog, f, param, attr):
    """the whole storing method interpreted exactly for each battery frame: what it leaves in self.<attr> must select the same
    columns as the frame given (None -> everything); a frame for which it does not is a concrete failing input"""
    from .. import symtensor, ratfun
    np = symtensor.np
    if np is None:
        return None
    probe = np.arange(30).reshape(3, 10)
    for fr in FRAME_BATTERY + [None]:
        te = symtensor.TensorEval(prog, f.cls, {})
        te.numeric = True
        te.strict_if = True
        te.PYTYPES = dict(te.PYTYPES)

        def hook(e, fn_, env, ev):
            # isinstance against the tuple of index types the trace reader supports: every battery frame is of a supported type
            if isinstance(e.func, ast.Name) and e.func.id == 'isinstance' and len(e.args) == 2 and 'SUPPORTED_INDICES_TYPES' in norm(e.args[1]):
                return True
            return NotImplemented
        te.call_hook = hook
        try:
            te.run(f, {param: fr})
            got = te.last_env.get(f'self.{attr}', 'MISSING')
            if isinstance(got, str) and got == 'MISSING':
                return None
            want = probe[:, fr] if fr is not None else probe[:, ...]
            sel = probe[:, got]
        except (ratfun.Unknown, symtensor.Raised):
            return None
        except (IndexError, TypeError, ValueError):
            continue
        if np.shape(sel) != np.shape(want) or not np.array_equal(sel, want):
            return fr, np.asarray(sel)[0].tolist() if np.ndim(sel) else int(sel[()]), np.asarray(want)[0].tolist() if np.ndim(want) else want
    return None


def d3(ctx, prog, s):
    stmts = [st for st in s.node.body if not (isinstance(st, ast.Expr) and isinstance(st.value, ast.Constant))]
    key = f'{s.key}::frame then preprocesses'
    ok = len(stmts) == 3 and isinstance(stmts[0], ast.Assign) and isinstance(stmts[1], ast.For) and isinstance(stmts[2], ast.Return)
    if not ok:
        ctx.undecided('C02-D3', key, 'samples property is not <select frame>; <loop over preprocesses>; return', s.where())
        return
    v = stmts[0].targets[0].id
    sel = stmts[0].value
    good = isinstance(sel, ast.Subscript) and norm(sel.value) == 'self.ths.samples' and isinstance(sel.slice, ast.Tuple) and len(sel.slice.elts) == 2 \
        and isinstance(sel.slice.elts[0], ast.Slice) and sel.slice.elts[0].lower is None and sel.slice.elts[0].upper is None and sel.slice.elts[0].step is None \
        and norm(sel.slice.elts[1]) == 'self.frame'
    ctx.check(good, 'C02-D3', key + ' frame', f'`{norm(sel)}` is not samples[:, self.frame]: the frame must select sample columns of all rows before any preprocess',
              'frame applied on the sample axis of all rows, first', s.where(stmts[0]))
    loop = stmts[1]
    ctx.check(norm(loop.iter) == 'self.preprocesses', 'C02-D3', key + ' order', f'the preprocess loop iterates `{norm(loop.iter)}`, not self.preprocesses in list order',
              'loop iterates self.preprocesses in list order', s.where(loop))
    body_ok = len(loop.body) == 1 and isinstance(loop.body[0], ast.Assign) and norm(loop.body[0].targets[0]) == v and isinstance(loop.body[0].value, ast.Call) \
        and isinstance(loop.target, ast.Name) and norm(loop.body[0].value.func) == loop.target.id and [norm(a) for a in loop.body[0].value.args] == [v]
    ctx.check(body_ok, 'C02-D3', key + ' chaining', 'each preprocess is not applied to the result of the previous one', 'each preprocess applied to the previous result', s.where(loop))
    ctx.check(norm(stmts[2].value) == v, 'C02-D3', key + ' return', 'the property does not return the chained result', 'returns the chained result', s.where(stmts[2]))
    # plumbing: frame / preprocesses stored and forwarded unchanged
    cont = prog.need_class(CT, 'Container')
    sf = cont.methods['_set_frame']
    st = [n for n in ast.walk(sf.node) if isinstance(n, ast.Assign) and self_attr(n.targets[0]) == 'frame']
    fp = [p for p in sf.params if p != 'self'][0]
    reb = [n for n in ast.walk(sf.node) if isinstance(n, ast.Assign) and isinstance(n.targets[0], ast.Name) and n.targets[0].id == fp]
    kinds_ = [astutil.passthrough_kind(n.value, fp) for n in st + reb]
    cex = None
    if 'unknown' in kinds_ or len(st) != 1:
        cex = frame_method_counterexample(prog, sf, fp, 'frame')
    if cex is None and len(st) == 1 and 'unknown' in kinds_:
        cex = frame_counterexample(prog, sf, (st + reb)[kinds_.index('unknown')].value, fp)
    if cex is not None:
        ctx.fail('C02-D3', f'{sf.key}::stores frame', f'the frame {cex[0]!r} given to the Container is stored as `{norm((st + reb)[kinds_.index("unknown")].value)[:60] if "unknown" in kinds_ else "?"}`, which selects the sample columns {cex[1]} '
                 f'instead of {cex[2]}: index lists must be applied as given (order and repetitions included)', sf.where())
    elif len(st) != 1 or 'unknown' in kinds_:
        ctx.undecided('C02-D3', f'{sf.key}::stores frame', f'how the frame is stored (`{norm((st + reb)[kinds_.index("unknown")].value)[:60] if "unknown" in kinds_ else "?"}`) is not understood', sf.where())
    else:
        bad_ = [n for n, k_ in zip(st + reb, kinds_) if k_ == 'derived']
        ctx.check(not bad_, 'C02-D3', f'{sf.key}::stores frame', f'the frame given to the Container is transformed before it is stored (`{norm(bad_[0])[:70] if bad_ else ""}`): '
                  f'index lists must be applied as given (order and repetitions included)', 'frame stored as given (None -> Ellipsis)', sf.where())
    sp = cont.methods['_set_preprocesses']
    st = [n for n in ast.walk(sp.node) if isinstance(n, ast.Assign) and self_attr(n.targets[0]) == 'preprocesses']
    pp = [p for p in sp.params if p != 'self'][0]
    reb = [n for n in ast.walk(sp.node) if isinstance(n, ast.Assign) and isinstance(n.targets[0], ast.Name) and n.targets[0].id == pp]
    kinds_ = [astutil.passthrough_kind(n.value, pp) for n in st + reb]
    if len(st) != 1 or 'unknown' in kinds_:
        ctx.undecided('C02-D3', f'{sp.key}::stores preprocesses', 'how the preprocess list is stored is not understood', sp.where())
    else:
        bad_ = [n for n, k_ in zip(st + reb, kinds_) if k_ == 'derived']
        ctx.check(not bad_, 'C02-D3', f'{sp.key}::stores preprocesses', f'the preprocess list is transformed (`{norm(bad_[0])[:70] if bad_ else ""}`: reordered / filtered) before it is stored',
                  'preprocess list stored as given (single callable wrapped in a list)', sp.where())
    b = cont.methods['batches']
    cs = [c for c in ast.walk(b.node) if isinstance(c, ast.Call) and prog.dotted(b.mod, c.func) == f'{CT}._TracesBatchIterable']
    it0 = prog.need_class(CT, '_TracesBatchIterable').methods['__init__']
    ip = [p_ for p_ in it0.params if p_ != 'self']

    def arg_(name):
        v = argof(cs[0], name, ip.index(name)) if name in ip else None
        return norm(v) if v is not None else None
    good = len(cs) == 1 and arg_('ths') == 'self._ths' and arg_('frame') == 'self.frame' and arg_('preprocesses') == 'self.preprocesses'
    ctx.check(bool(good), 'C02-D3', f'{b.key}::forwards', 'batches() does not forward the whole trace set, the frame and the preprocess list unchanged', 'batches() forwards ths, frame, preprocesses unchanged', b.where())
    it = prog.need_class(CT, '_TracesBatchIterable')
    init = it.methods['__init__']
    for a in ('frame', 'preprocesses', '_ths'):
        stt = [n for n in ast.walk(init.node) if isinstance(n, ast.Assign) and self_attr(n.targets[0]) == a]
        ctx.check(len(stt) == 1 and norm(stt[0].value) == a.lstrip('_'), 'C02-D3', f'{init.key}::self.{a}', f'the iterable does not keep `{a.lstrip("_")}` as given', f'`{a}` kept as given', init.where())
    # the wrapper of one batch keeps what it is given as well
    w0 = prog.need_class(CT, '_TracesBatchWrapper').methods.get('__init__')
    if w0 is None:
        ctx.undecided('C02-D3', f'{CT}:_TracesBatchWrapper.__init__::keeps', 'the batch wrapper has no constructor of its own', s.where())
    else:
        for a in ('ths', 'frame', 'preprocesses'):
            stt = [n for n in ast.walk(w0.node) if isinstance(n, ast.Assign) and self_attr(n.targets[0]) == a]
            reb = [n for n in ast.walk(w0.node) if isinstance(n, ast.Assign) and isinstance(n.targets[0], ast.Name) and n.targets[0].id == a]
            kinds_ = [astutil.passthrough_kind(n.value, a) for n in stt + reb]
            k_ = f'{w0.key}::self.{a}'
            cex = frame_counterexample(prog, w0, (stt + reb)[kinds_.index('unknown')].value, a) if a == 'frame' and len(stt) == 1 and 'unknown' in kinds_ else None
            if cex is not None:
                ctx.fail('C02-D3', k_, f'the frame {cex[0]!r} is stored by the batch wrapper as `{norm((stt + reb)[kinds_.index("unknown")].value)[:60]}`, which selects the sample columns {cex[1]} instead of {cex[2]}: '
                         'index lists must be applied as given (order and repetitions included)', w0.where())
            elif len(stt) != 1 or 'unknown' in kinds_:
                ctx.undecided('C02-D3', k_, f'how the batch wrapper stores `{a}` (`{norm((stt + reb)[kinds_.index("unknown")].value)[:60] if "unknown" in kinds_ else "?"}`) is not understood: '
                              'index lists must be applied as given (order and repetitions included)', w0.where())
            else:
                ctx.check('derived' not in kinds_, 'C02-D3', k_, f'the batch wrapper transforms `{a}` before it is stored', f'`{a}` kept as given', w0.where())


def d4(ctx, prog):
    it = prog.need_class(CT, '_TracesBatchIterable')
    f = it.methods['__iter__']
    loops = [l for l in ast.walk(f.node) if isinstance(l, ast.For)]
    ctx.check(len(loops) == 1 and norm(loops[0].iter) == 'self._slices', 'C02-D4', f'{f.key}::range', f'__iter__ iterates `{norm(loops[0].iter) if loops else "?"}`, not the whole slice list',
              '__iter__ ranges over all of self._slices, in order', f.where())
    g = it.methods['__getitem__']
    kp = [p for p in g.params if p != 'self'][0]
    subs = [s for s in ast.walk(g.node) if isinstance(s, ast.Subscript) and norm(s.value) == 'self._slices']
    ctx.check(len(subs) == 1 and norm(subs[0].slice) == kp, 'C02-D4', f'{g.key}::index', '__getitem__ does not index the slice list with its key', '__getitem__ indexes self._slices[key]', g.where())
    ln = it.methods['__len__']
    rets = [r.value for r in ast.walk(ln.node) if isinstance(r, ast.Return)]
    ctx.check(len(rets) == 1 and norm(rets[0]) == 'len(self._slices)', 'C02-D4', f'{ln.key}::count', '__len__ is not the length of the slice list', '__len__ = len(self._slices)', ln.where())
    # the yielded wrapper uses the loop slice
    if loops:
        l = loops[0]
        ys = [y for y in ast.walk(l) if isinstance(y, ast.Yield)]
        winit = prog.need_class(CT, '_TracesBatchWrapper').methods.get('__init__')
        wp0 = [p_ for p_ in winit.params if p_ != 'self'][0] if winit is not None else 'ths'
        ya = argof(ys[0].value, wp0, 0) if len(ys) == 1 and isinstance(ys[0].value, ast.Call) else None
        good = ya is not None and norm(ya) == f'self._ths[{l.target.id}]'
        ctx.check(bool(good), 'C02-D4', f'{f.key}::yield', 'the yielded batch is not the loop slice of the trace set', 'yields the wrapper of self._ths[<loop slice>]', f.where())


def argof(call, name, pos):
    """argument bound to parameter `name` (keyword) or to position `pos`"""
    v = kw(call, name)
    if v is None and len(call.args) > pos:
        v = call.args[pos]
    return v


def d5(ctx, prog):
    writers = {'results': [], 'scores': []}
    for f in prog.funcs:
        if not f.mod.name.startswith('scared.'):
            continue
        for t, st, how in kernels.stores(f.node):
            node = t
            while isinstance(node, ast.Subscript):
                node = node.value
            if isinstance(node, ast.Attribute) and node.attr in writers and isinstance(node.value, ast.Name) and node.value.id in ('self', 'obj'):
                writers[node.attr].append((f, st, t))
    for attr, lst in writers.items():
        for f, st, t in lst:
            key = f'{f.key}::{norm(st)[:80]}'
            init_none = f.name == '__init__' and isinstance(st.value if isinstance(st, ast.Assign) else None, ast.Constant) and st.value.value is None
            if init_none:
                ctx.ok('C02-D5', key, f'{attr} initialised to None at construction', f.where(st))
                continue
            if isinstance(t, ast.Subscript) or isinstance(st, ast.AugAssign):
                ctx.fail('C02-D5', key, f'`{attr}` is modified in place outside its single writer: scores would no longer equal discriminant(results)', f.where(st))
                continue
            if attr == 'results':
                good = f.key == f'{AB}:_BaseAnalysis.compute_results' and norm(st.value) == 'self.compute()'
                ctx.check(good, 'C02-D5', key, f'`results` is written by {f.qualname} as `{norm(st.value)[:50]}`; the only writer must be _BaseAnalysis.compute_results = self.compute()',
                          'results = self.compute() in _BaseAnalysis.compute_results', f.where(st))
            else:
                # single-assignment locals at the top level of the body are expanded; each must be read after the refresh as well
                body = [s for s in f.node.body if not (isinstance(s, ast.Expr) and isinstance(s.value, ast.Constant))]
                nstores = {}
                for n_ in ast.walk(f.node):
                    if isinstance(n_, ast.Name) and isinstance(n_.ctx, ast.Store):
                        nstores[n_.id] = nstores.get(n_.id, 0) + 1
                ldefs = {s.targets[0].id: s for s in body if isinstance(s, ast.Assign) and len(s.targets) == 1 and isinstance(s.targets[0], ast.Name) and nstores.get(s.targets[0].id) == 1}
                used = []
                import copy as _copy

                class Exp(ast.NodeTransformer):
                    def visit_Name(self, n):
                        if isinstance(n.ctx, ast.Load) and n.id in ldefs:
                            used.append(ldefs[n.id])
                            return self.visit(_copy.deepcopy(ldefs[n.id].value))
                        return n
                value = Exp().visit(_copy.deepcopy(st.value))
                good = f.key == f'{AB}:BaseAttack.compute_results' and norm(value) == 'self.discriminant(self.results)'
                if good:
                    idx_super = next((i for i, s in enumerate(body) if 'super().compute_results()' in norm(s)), None)
                    idx_first = min((i for i, s in enumerate(body) if s is st or any(s is u for u in used)), default=None)
                    good = idx_super is not None and idx_first is not None and idx_super < idx_first
                ctx.check(good, 'C02-D5', key, f'`scores` is written by {f.qualname} as `{norm(st.value)[:50]}`; it must be self.discriminant(self.results) computed after super().compute_results()',
                          'scores = discriminant(results) after the results were refreshed', f.where(st))
    ctx.floor('writers of results/scores', sum(len(v) for v in writers.values()), 4)


def d7(ctx, prog):
    cont = prog.need_class(CT, 'Container')
    f = cont.methods['_compute_batch_size']
    fl = flow.Flow(prog, cont, keep=lambda e, fl_: e[0] == 'return', inline=lambda c, call, caller: False)
    paths = fl.run(f)
    fall = [p for p in paths if p.outcome == flow.NORMAL and not (p.events and p.events[-1][0] == 'return')]
    valued = all(fl.node_of(p.events[-1]).value is not None for p in paths if p.outcome == flow.NORMAL and p.events and p.events[-1][0] == 'return')
    key = f'{f.key}::falls off the end'
    if fall or not valued:
        ctx.fail('C02-D7', key, 'a path through the batch-size function ends without returning a value (None): run() then fails with a TypeError instead of processing '
                                'the traces, e.g. a size table whose first threshold is above the trace length', f.where(), paths=len(paths), falling=len(fall))
    else:
        ctx.ok('C02-D7', key, f'each of {len(paths)} paths returns a value or raises', f.where())
    # its result is what run() hands to batches()
    base = prog.need_class(AB, '_BaseAnalysis')
    from .. import normalize
    run = normalize.normal(prog, base.methods['run'], skip={'_batch_loop_compute', '_final_compute', '_compute_batch_size', '_compute_convergence_traces'})
    cparam = [p_ for p_ in run.params if p_ != 'self'][0]
    bcalls = [c_ for c_ in ast.walk(run.node) if isinstance(c_, ast.Call) and norm(c_.func) == f'{cparam}.batches']
    ldefs = {}
    for n_ in ast.walk(run.node):
        if isinstance(n_, ast.Assign) and len(n_.targets) == 1 and isinstance(n_.targets[0], ast.Name):
            ldefs.setdefault(n_.targets[0].id, []).append(n_.value)
    key_ = f'{run.key}::batch size'
    if len(bcalls) != 1:
        ctx.undecided('C02-D1', key_, f'{len(bcalls)} calls of {cparam}.batches() in run()', run.where())
    else:
        a_ = argof(bcalls[0], 'batch_size', 0)
        if isinstance(a_, ast.Name) and len(ldefs.get(a_.id, [])) == 1:
            a_ = ldefs[a_.id][0]
        txt = norm(a_).replace(' ', '') if a_ is not None else ''
        if txt in (f'self._compute_batch_size({cparam}.batch_size)', f'self._compute_batch_size(base_batch_size={cparam}.batch_size)'):
            ctx.ok('C02-D1', key_, 'batch size = _compute_batch_size(container.batch_size), handed to batches()', run.where())
        elif txt in (f'{cparam}.batch_size', '', 'None'):
            ctx.fail('C02-D1', key_, f'run() hands `{txt or "nothing"}` to batches(): the batch size is not derived through _compute_batch_size (a convergence step is ignored)', run.where())
        else:
            ctx.undecided('C02-D1', key_, f'batch size expression `{txt[:60]}` not understood', run.where())


def d8(ctx, prog):
    """the batch slices partition the trace set: `_TracesBatchIterable.__init__` is interpreted (sa.confinterp) for every trace-set
    length 0..24 and every batch size 1..26; the slices it stores, applied in order to range(length), must give 0..length-1 exactly
    once and in order, in ceil(length / size) non-empty batches none longer than the batch size and all but the last of that size."""
    from .. import confinterp as cf
    it_cls = prog.need_class(CT, '_TracesBatchIterable')
    init = it_cls.methods.get('__init__')
    key = f'{init.key}::slices partition the trace set'
    ps = [p_ for p_ in init.params if p_ != 'self']
    bad = []
    n = 0
    try:
        for L in range(0, 25):
            for bs in range(1, 27):
                it = cf.Interp(prog)
                obj = cf.Obj(cls=it_cls)
                kw = {ps[0]: cf.TList(range(L)), ps[1]: bs}
                for p_ in ps[2:]:
                    kw[p_] = cf.Sym(p_)
                try:
                    it.call(init, (), kw, selfobj=obj)
                except cf.Raised as e:
                    bad.append(f'{L} traces, batch size {bs}: construction raises {e.kind}')
                    continue
                n += 1
                lists = [v for v in obj.attrs.values() if isinstance(v, list) and v and all(isinstance(x, slice) for x in v)]
                sl = lists[0] if lists else ([] if any(isinstance(v, list) and not v for v in obj.attrs.values()) else None)
                if sl is None:
                    raise cf.Unknown('the list of batch slices was not found among the attributes stored')
                got, sizes = [], []
                for s_ in sl:
                    part = list(range(L))[s_]
                    got.extend(part)
                    sizes.append(len(part))
                want_n = -(-L // bs)
                if got != list(range(L)):
                    bad.append(f'{L} traces, batch size {bs}: the batches cover traces {got[:12]}{"..." if len(got) > 12 else ""}, not 0..{L - 1} once each in order')
                elif len(sl) != want_n or any(z == 0 for z in sizes) or any(z != bs for z in sizes[:-1]) or (sizes and sizes[-1] > bs):
                    bad.append(f'{L} traces, batch size {bs}: batch sizes {sizes[:8]}, expected {want_n} batches of {bs} (the last possibly shorter, none empty)')
    except cf.Unknown as e:
        ctx.undecided('C02-D8', key, f'slice construction not evaluable: {e}', init.where())
        return 0
    ctx.check(not bad, 'C02-D8', key, f'{bad[0] if bad else ""} ({len(bad)} of {n} (length, batch size) pairs differ): run() would skip, repeat or reorder traces',
              f'{n} (length, batch size) pairs: every trace exactly once, in order, in batches of the requested size', init.where(), pairs=n)
    return n


def run(ctx, prog):
    from .. import universe as _uni0
    _uni0.inline_base_entry_points(ctx, prog)
    ctx.rule('C02-D1', 'run(): process(<loop batch>) exactly once per iteration before _batch_loop_compute, no early exit, _final_compute after the loop reaching compute_results')
    ctx.rule('C02-D2', 'samples and intermediate values come from the same batch object / same sub trace set')
    ctx.rule('C02-D3', 'frame on the sample axis first, then self.preprocesses in list order, chained; frame and list travel unchanged')
    ctx.rule('C02-D4', 'iterator, indexer and length range over the whole slice list')
    ctx.rule('C02-D5', 'single writers: results = compute(); scores = discriminant(results) after super().compute_results()')
    ctx.rule('C02-D8', 'the batch slices partition the trace set in order: interpretation of the slice construction for every length 0..24 x batch size 1..26')
    ctx.floor('(length, batch size) pairs interpreted', d8(ctx, prog), 600)
    ctx.rule('C02-D7', 'Container._compute_batch_size returns a value on every path')
    ctx.assume('that the slice list partitions [0, len) is decided by interpretation for len < 25 and batch sizes < 27 (C02-D8), not for all integers')
    ctx.assume('batch invariance of the distinguisher update itself is C01')
    n = d1(ctx, prog)
    s = d2(ctx, prog)
    d3(ctx, prog, s)
    d4(ctx, prog)
    d5(ctx, prog)
    d7(ctx, prog)
    # D6: run() ends with compute(); for repeated run() calls to behave as one run over the concatenation, computing the
    # results must leave the accumulated state untouched: ownership analysis (engine of C01-D5) over every analysis class
    ctx.rule('C02-D6', 'repeated run() = one run over the concatenation: the compute closure of every analysis class has no persistent effect on accumulated state '
                       '(ownership analysis), and the analysis layer stores no accumulator / count / first-call marker')
    from . import c01
    from .. import universe
    us, _ = c01.units(prog)
    n6 = 0
    for u in us:
        if not u.cls.mod.name.startswith('scared.analysis'):
            continue
        u.guard = c01.find_guard(prog, u)
        u.acc = universe.accumulators(prog, u.cls, u.init)
        c01.d5(ctx, prog, u.cls, u.compute, u.acc, u.count, u.guard or '', rule='C02-D6')
        n6 += 1
    ctx.floor('analysis classes whose compute closure is checked', n6, 14)
    ctx.floor('distinct run()/hook combinations', n, 2)
