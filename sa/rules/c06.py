"""C06 - DES / TDES conform to FIPS 46-3 (ingredients decided statically).

D1  S-boxes            SBOXES[k][i] == S_k[row(b5 b0)][col(b4..b1)] for all 8 x 64 entries.
D2  permutations       bit provenance of every output bit of IP, FP, E, P, P^-1 equals the FIPS table (=> for all inputs);
                       sboxes applies table k to word k; add_round_key is the xor of its two arguments.
D3  templates          each round template has len(Steps) entries and entry i is None or the member whose value is i;
                       only FIRST has IP, only FINAL has FP, LAST/FINAL have no swap, every template has E,K,S,P,xor;
                       the dispatcher has one branch per Steps member.
D3' Feistel term       the dispatcher, evaluated with uninterpreted symbols (E,S,P,P^-1,IP,FP,K) over the literal templates and
                       the literal stop-step surgery, yields FIPS 46-3's round function: ROUND (L,R) -> (R, L^P(S(E(R)^K))),
                       LAST keeps the unswapped pre-output, FINAL adds FP, FIRST prefixes IP; every stop step returns the
                       documented intermediate value.
D4  template ownership the stop-point surgery only writes into a slice copy of a template; in the dispatcher the in-place store
                       of the P step always hits the S-box output array and saved_left_right is defined before the xor.
D5  EDE key order      truth table of _prepare_keys over (mode, pass, key length): which key part is used and which passes are
                       reversed equals E-D-E / D-E-D with K1/K3 swapped for 3-key decryption and K3 = K1 for 2-key.
D6  caller's arrays    no in-place effect of a public function reaches a caller's array.
"""
import ast

from .. import bitprov, tables, enumtab, alias, astutil, kernels
from ..model import norm, AnalysisError, const_value, self_attr
from spec import fips

D = 'scared.des.base'


def skip_validation(st):
    return isinstance(st, ast.Expr) or (isinstance(st, ast.Assign) and isinstance(st.targets[0], ast.Name) and st.targets[0].id in ('dimensions', 'dims'))


def d1(ctx, prog):
    got, node = tables.literal(prog, D, 'SBOXES')
    want = [fips.sbox_direct(k) for k in range(8)]
    diff = tables.first_diff(got, want)
    ctx.check(diff is None, 'C06-D1', f'{D}::SBOXES', f'SBOXES{list(diff[0]) if diff else ""} = {diff[1] if diff else ""} but FIPS 46-3 gives {diff[2] if diff else ""} '
              f'(S{diff[0][0] + 1 if diff and diff[0] else "?"} in 6-bit direct order)', 'all 8 x 64 S-box entries equal FIPS 46-3', tables.where(prog, D, node), entries=512)


def bv_permutation(prog, f, n_in, unit_in):
    """a bit permutation interpreted on one row of provenance words (sa.bitvec cells under sa.symtensor, numpy doing the indexing):
    -> {output column: word} or None when not evaluable; Abort when the function mixes bits (it is not a selection of input bits)"""
    from .. import symtensor, ratfun, bitvec
    np = symtensor.np
    if np is None:
        return None
    data = np.empty((1, n_in), dtype=object)
    for i in range(n_in):
        data[0, i] = bitvec.BV.source('data', i, unit_in)
    te = symtensor.TensorEval(prog, None, {})
    te.summaries = {'_is_bytes_of_len': lambda a, k: None, '_is_bytes_array': lambda a, k: None}
    try:
        out = te.run(f, {f.params[0]: data})
    except bitvec.Mix as e:
        raise bitprov.Abort(f'not a selection of input bits: {e}')
    except (ratfun.Unknown, symtensor.Raised, IndexError, ValueError, TypeError, AttributeError):
        return None
    if not isinstance(out, np.ndarray) or out.ndim != 2 or out.shape[0] != 1:
        return None
    arr = {}
    for c in range(out.shape[1]):
        try:
            arr[c] = bitvec.BV.lift(out[0, c])
        except bitvec.Mix:
            return None
    return arr


def d2(ctx, prog):
    invP = [0] * 32
    for i, v in enumerate(fips.P):
        invP[v - 1] = i + 1
    spec = [('initial_permutation', 8, 8, 8, fips.IP, 'IP'), ('final_permutation', 8, 8, 8, fips.FP, 'IP^-1'),
            ('expansive_permutation', 6, 8, 8, fips.E, 'E'), ('permutation_p', 8, 4, 4, fips.P, 'P'), ('inv_permutation_p', 4, 8, 8, invP, 'P^-1')]
    n = 0
    for name, uo, ui, nc, want, label in spec:
        f = prog.need_func(D, name)
        key = f'{f.key}::bit provenance'
        try:
            it = bitprov.Interp(f, skip=skip_validation).run()
            outs = [a for a in it.arrays]
            if it.ret is None:
                raise bitprov.Abort('no return')
            rname = None
            for nd in ast.walk(it.ret[1]):
                if isinstance(nd, ast.Name) and nd.id in it.arrays:
                    rname = nd.id
            if rname is None:
                raise bitprov.Abort('returned value is not the bit-sliced output array')
            rel = bitprov.relation(it.arrays[rname], nc, uo, ui)
        except bitprov.Abort as e:
            # table-driven / helper-based forms: the function interpreted on provenance words, numpy doing the indexing
            try:
                n_in = {'initial_permutation': 8, 'final_permutation': 8, 'expansive_permutation': 4, 'permutation_p': 8, 'inv_permutation_p': 4}[name]
                arr_ = bv_permutation(prog, f, n_in, ui)
                if arr_ is None:
                    raise bitprov.Abort(str(e))
                rel = bitprov.relation(arr_, nc, uo, ui)
            except bitprov.Abort as e2:
                ctx.undecided('C06-D2', key, f'provenance analysis aborted: {e2}', f.where())
                continue
        n += len(rel)
        bad = [(i + 1, rel[i], want[i]) for i in range(len(want)) if rel[i] != want[i]] if len(rel) == len(want) else [('len', len(rel), len(want))]
        if bad:
            p, g, w = bad[0]
            ctx.fail('C06-D2', key, f'{name}: output bit {p} comes from input bit {g}; FIPS 46-3 {label} says bit {w} ({len(bad)} of {len(want)} positions differ) - wrong for every input with those bits different',
                     f.where(), differing=len(bad))
        else:
            ctx.ok('C06-D2', key, f'{name}: all {len(want)} output bits come from the input bits FIPS 46-3 {label} prescribes (holds for every input)', f.where(), bits=len(want))
    # sboxes: table k on word k
    f = prog.need_func(D, 'sboxes')
    loops = [l for l in ast.walk(f.node) if isinstance(l, ast.For)]
    key = f'{f.key}::table k on word k'
    verdict = None
    if len(loops) == 1 and isinstance(loops[0].target, ast.Name) and isinstance(loops[0].iter, ast.Call) and norm(loops[0].iter.func).split('.')[-1] in ('arange', 'range') \
            and [const_value(a) for a in loops[0].iter.args] == [8]:
        v = loops[0].target.id
        sts = [b for b in loops[0].body if isinstance(b, ast.Assign) and isinstance(b.targets[0], ast.Subscript)]
        if len(sts) == 1 and len(loops[0].body) == 1:
            t, val = sts[0].targets[0], sts[0].value
            te = t.slice.elts if isinstance(t.slice, ast.Tuple) else []
            if len(te) == 2 and isinstance(te[0], ast.Slice) and isinstance(val, ast.Subscript) and isinstance(val.value, ast.Subscript) and norm(val.value.value) == 'SBOXES' \
                    and isinstance(val.slice, ast.Subscript) and isinstance(val.slice.slice, ast.Tuple) and len(val.slice.slice.elts) == 2 and isinstance(val.slice.slice.elts[0], ast.Slice):
                a_, b_, c_ = astutil.affine(te[1]), astutil.affine(val.value.slice), astutil.affine(val.slice.slice.elts[1])
                if None not in (a_, b_, c_):
                    verdict = (a_ == b_ == c_ == {v: 1}, f'out[:, {norm(te[1])}] = SBOXES[{norm(val.value.slice)}][data[:, {norm(val.slice.slice.elts[1])}]]')
    if verdict is None:
        ctx.undecided('C06-D2', key, 'the loop applying the eight S-boxes was not recognised', f.where())
    else:
        ctx.check(verdict[0], 'C06-D2', key, f'`{verdict[1]}`: S-box k is not applied to word k and stored at position k', 'SBOXES[k] applied to word k, k = 0..7', f.where())
    f = prog.need_func(D, 'add_round_key')
    paths = astutil.return_paths(f.node)
    e = paths[0][1] if paths and len(paths) == 1 else None
    key = f'{f.key}::xor'
    ops = None
    if isinstance(e, ast.Call) and norm(e.func).split('.')[-1] == 'bitwise_xor' and len(e.args) == 2:
        ops = [norm(a) for a in e.args]
    elif isinstance(e, ast.BinOp) and isinstance(e.op, ast.BitXor):
        ops = [norm(e.left), norm(e.right)]
    elif (isinstance(e, ast.Call) and norm(e.func).split('.')[-1] in ('bitwise_or', 'bitwise_and', 'add', 'subtract')) or isinstance(e, ast.BinOp):
        ctx.fail('C06-D2', key, f'add_round_key computes `{norm(e)[:60]}`, not the xor of state and key', f.where())
        ops = False
    if ops is None:
        ctx.undecided('C06-D2', key, f'add_round_key returns `{norm(e)[:60] if e is not None else "?"}`', f.where())
    elif ops:
        ctx.check(sorted(ops) == sorted(f.params), 'C06-D2', key, f'add_round_key xors {ops}, not its two arguments', 'add_round_key = state xor keys', f.where())
    return n


def templates(prog):
    ci = prog.need_class(D, '_ParametricCipher')
    m = prog.need_mod(D)
    out = {}
    for name in ('FIRST_ROUND', 'ROUND', 'LAST_ROUND', 'FINAL_ROUND'):
        if name not in ci.class_assigns:
            raise AnalysisError(f'template {name} not found')
        out[name] = enumtab.eval_list(prog, m, ci.class_assigns[name], ci.class_assigns, 'Steps')
    return ci, out


def d3(ctx, prog):
    steps = enumtab.enum_members(prog, D, 'Steps')
    byval = {v: k for k, v in steps.items()}
    ci, tpl = templates(prog)
    for name, lst in tpl.items():
        key = f'{ci.key}::{name}'
        ok = len(lst) == len(steps) and all(x is None or (x in steps and steps[x] == i) for i, x in enumerate(lst))
        ctx.check(ok, 'C06-D3', key + ' positions', f'{name} = {lst}: entry i must be None or the Steps member of value i (this is what makes [:after_step+1] mean "after that step")',
                  f'{name}: {len(lst)} entries, each None or the member of its own position', ci.mod.relpath)
        core = ['EXPANSIVE_PERMUTATION', 'ADD_ROUND_KEY', 'SBOXES', 'PERMUTATION_P', 'XOR_WITH_SAVED_LEFT_RIGHT']
        ctx.check(all(c in lst for c in core), 'C06-D3', key + ' core', f'{name} lacks one of E, key mixing, S, P, xor', 'contains E, K, S, P, xor', ci.mod.relpath)
    exp = {'FIRST_ROUND': dict(ip=True, fp=False, swap=True), 'ROUND': dict(ip=False, fp=False, swap=True),
           'LAST_ROUND': dict(ip=False, fp=False, swap=False), 'FINAL_ROUND': dict(ip=False, fp=True, swap=False)}
    for name, e in exp.items():
        lst = tpl[name]
        got = dict(ip='INITIAL_PERMUTATION' in lst, fp='FINAL_PERMUTATION' in lst, swap='PERMUTE_RIGHT_LEFT' in lst)
        why = {'ip': 'IP is applied once, to the input block', 'fp': 'IP^-1 is applied once, to the pre-output', 'swap': 'the pre-output is R16 L16: no swap after the last round'}
        for k in ('ip', 'fp', 'swap'):
            ctx.check(got[k] == e[k], 'C06-D3', f'{ci.key}::{name} {k}', f'{name} has {k}={got[k]}, FIPS 46-3 requires {e[k]} ({why[k]})', f'{k}={got[k]} as FIPS 46-3 requires', ci.mod.relpath)
    # dispatcher exhaustive
    disp = ci.methods.get('_parametric_cipher_step')
    if disp is None:
        raise AnalysisError('dispatcher not found')
    handled = []
    for n in ast.walk(disp.node):
        if isinstance(n, ast.If) and isinstance(n.test, ast.Compare) and len(n.test.ops) == 1 and isinstance(n.test.ops[0], (ast.Is, ast.Eq)) \
                and isinstance(n.test.comparators[0], ast.Attribute) and norm(n.test.comparators[0].value) == 'Steps':
            handled.append(n.test.comparators[0].attr)
    for tname, tab in step_tables(ci, disp).items():          # table form: {Steps.X: handler, ...} indexed by the operation
        handled.extend(k for k in tab)
    missing = sorted(set(steps) - set(handled))
    dup = sorted({h for h in handled if handled.count(h) > 1})
    ctx.check(not missing and not dup, 'C06-D3', f'{disp.key}::exhaustive', f'dispatcher branches: missing {missing}, duplicated {dup}', f'one branch for each of the {len(steps)} Steps members', disp.where())
    return steps, ci, tpl, disp


def step_tables(ci, disp):
    """class-level tables {Steps.X: handler name} that the dispatcher indexes with its operation parameter: name -> {member: handler}"""
    out = {}
    op = disp.params[2] if len(disp.params) > 2 else None
    for n in ast.walk(disp.node):
        if isinstance(n, ast.Subscript) and isinstance(n.value, ast.Attribute) and norm(n.value.value) in ('self', 'type(self)', 'self.__class__', ci.name) and norm(n.slice) == op:
            v = ci.class_assigns.get(n.value.attr)
            if isinstance(v, ast.Dict) and v.keys and all(isinstance(k, ast.Attribute) and norm(k.value) == 'Steps' and isinstance(x, ast.Name) for k, x in zip(v.keys, v.values)):
                keys = [k.attr for k in v.keys]
                if len(set(keys)) == len(keys):
                    out[n.value.attr] = {k.attr: x.id for k, x in zip(v.keys, v.values)}
    return out


# ---------------------------------------------------------------------------------------------- D3': term evaluation
class Sym:
    """evaluate the dispatcher on symbolic half blocks; values:
       ('pair', L, R)   8-byte state as two 4-byte terms        ('w8', t)  eight small words (E / S domain)
       ('half', t)      4 bytes                                   terms: strings / tuples, xor as ('xor', frozenset)"""

    def __init__(self, prog, disp, modname):
        self.prog, self.disp, self.mod = prog, disp, prog.need_mod(modname)
        self.attrs = {}
        self.out_param = disp.params[1]

    @staticmethod
    def xor(a, b):
        def parts(t):
            if t == '0':
                return frozenset()
            return t[1] if isinstance(t, tuple) and t[0] == 'xor' else frozenset([t])
        s = parts(a) ^ parts(b)
        if not s:
            return '0'
        if len(s) == 1:
            return next(iter(s))
        return ('xor', s)

    def step(self, op, state, env):
        """run the dispatcher body with `operation` bound to the Steps member `op` (or None)"""
        self.env = dict(env)
        self.env[self.out_param] = state
        self.op = op
        r = self.block(self.disp.node.body)
        if r is None:
            raise AnalysisError('dispatcher does not return')
        return r

    def block(self, stmts):
        for st in stmts:
            r = self.stmt(st)
            if r is not None:
                return r
        return None

    def stmt(self, st):
        if isinstance(st, ast.If):
            c = self.cond(st.test)
            return self.block(st.body if c else st.orelse)
        if isinstance(st, ast.Return):
            return self.ev(st.value)
        if isinstance(st, ast.Assign):
            v = self.ev(st.value)
            t = st.targets[0]
            if isinstance(t, ast.Name):
                self.env[t.id] = v
            elif isinstance(t, ast.Attribute) and norm(t.value) == 'self':
                self.attrs[t.attr] = v
            elif isinstance(t, ast.Subscript) and isinstance(t.value, ast.Name):
                cur = self.env[t.value.id]
                half = self.half_of(t.slice)
                if v[0] not in ('half',):
                    raise AnalysisError(f'store of a {v[0]} into a half block')
                if cur[0] == 'w8':
                    cur = ('pair', ('hi?', cur[1]), ('lo?', cur[1]))      # reuse of the S-box output array as state buffer
                if cur[0] != 'pair':
                    raise AnalysisError('half store into a non 8-byte value')
                self.env[t.value.id] = ('pair', v[1], cur[2]) if half == 'L' else ('pair', cur[1], v[1])
            else:
                raise AnalysisError(f'dispatcher statement `{norm(st)[:50]}` not modelled')
            return None
        if isinstance(st, ast.Expr):
            return None
        raise AnalysisError(f'dispatcher statement kind {type(st).__name__} not modelled')

    def cond(self, t):
        if isinstance(t, ast.Compare) and len(t.ops) == 1 and isinstance(t.ops[0], (ast.Is, ast.Eq)) and norm(t.left) == self.disp.params[2]:
            c = t.comparators[0]
            if isinstance(c, ast.Attribute) and norm(c.value) == 'Steps':
                return self.op == c.attr
            if isinstance(c, ast.Constant) and c.value is None:
                return self.op is None
        if isinstance(t, ast.UnaryOp) and isinstance(t.op, ast.Not):
            return not self.cond(t.operand)
        if isinstance(t, ast.Call) and norm(t.func) == 'isinstance' and len(t.args) == 2 and norm(t.args[0]) == self.disp.params[2] and norm(t.args[1]) == 'Steps':
            return self.op is not None          # template entries are None or Steps members (position clause of C06-D3)
        raise AnalysisError(f'dispatcher condition `{norm(t)[:50]}` is not a test of the operation')

    @staticmethod
    def half_of(sl):
        if isinstance(sl, ast.Tuple) and len(sl.elts) == 2 and isinstance(sl.elts[0], ast.Slice) and isinstance(sl.elts[1], ast.Slice):
            lo, hi = const_value(sl.elts[1].lower) if sl.elts[1].lower is not None else 0, const_value(sl.elts[1].upper)
            if (lo, hi) == (0, 4):
                return 'L'
            if (lo, hi) == (4, 8):
                return 'R'
        raise AnalysisError(f'slice `{norm(sl)}` is not one of the two halves of the 8-byte state')

    def handler(self, e):
        """the step handler a table lookup `self.TABLE[operation]` selects for the current operation, else None"""
        if isinstance(e, ast.Subscript) and isinstance(e.value, ast.Attribute) and norm(e.slice) == self.disp.params[2]:
            tabs = step_tables(self.disp.cls, self.disp)
            tab = tabs.get(e.value.attr)
            if tab is not None:
                if self.op not in tab:
                    raise AnalysisError(f'step table {e.value.attr} has no entry for {self.op}')
                g = self.disp.cls.methods.get(tab[self.op])
                if g is None:
                    raise AnalysisError(f'step handler {tab[self.op]} not found')
                return ('fn', g)
        return None

    def call_handler(self, g, e):
        args = list(e.args)
        if args and norm(args[0]) == 'self':
            args = args[1:]
        ps = [p for p in g.params if p != 'self']
        if len(args) != len(ps) or e.keywords:
            raise AnalysisError(f'step handler {g.name} called with an unexpected argument list')
        vals = []
        for a in args:
            try:
                vals.append(self.ev(a))
            except AnalysisError:
                vals.append(('unread', norm(a)))
        saved, saved_k = self.env, getattr(self, 'kmap', {})
        # index expressions of the round keys are named after the caller's variables: keep that naming through the call
        self.kmap = dict(saved_k)
        for p, a in zip(ps, args):
            if isinstance(a, ast.Name) and a.id != p:
                self.kmap[p] = saved_k.get(a.id, a.id)
        self.env = dict(zip(ps, vals))
        try:
            r = self.block(g.node.body)
        finally:
            self.env, self.kmap = saved, saved_k
        if r is None:
            raise AnalysisError(f'step handler {g.name} does not return')
        return r

    def ev(self, e):
        if isinstance(e, ast.Name):
            if e.id not in self.env:
                raise AnalysisError(f'dispatcher reads unknown `{e.id}`')
            if self.env[e.id][0] == 'unread':
                raise AnalysisError(f'dispatcher reads `{self.env[e.id][1]}`, which is not modelled')
            return self.env[e.id]
        h = self.handler(e)
        if h is not None:
            return h
        if isinstance(e, ast.Call):
            fnv = None
            if isinstance(e.func, ast.Name) and e.func.id in self.env and self.env[e.func.id][0] == 'fn':
                fnv = self.env[e.func.id]
            elif isinstance(e.func, ast.Subscript):
                fnv = self.handler(e.func)
            if fnv is not None:
                return self.call_handler(fnv[1], e)
        if isinstance(e, ast.Attribute) and norm(e.value) == 'self':
            if e.attr not in self.attrs:
                raise AnalysisError(f'dispatcher reads self.{e.attr} before it is set on this step sequence')
            return self.attrs[e.attr]
        if isinstance(e, ast.Subscript):
            base = self.ev(e.value)
            if base[0] == 'keys':
                km = getattr(self, 'kmap', {})
                idx = [str(km.get(norm(x), norm(x))) for x in (e.slice.elts if isinstance(e.slice, ast.Tuple) else [e.slice])]
                return ('w8', ('K',) + tuple(idx))
            h = self.half_of(e.slice)
            if base[0] != 'pair':
                raise AnalysisError(f'half of a {base[0]} value')
            return ('half', base[1] if h == 'L' else base[2])
        if isinstance(e, ast.Call):
            d = self.prog.dotted(self.mod, e.func) or norm(e.func)
            last = d.split('.')[-1]
            args = {i: a for i, a in enumerate(e.args)}
            kws = {k.arg: k.value for k in e.keywords}
            if last == 'copy' and d.startswith('numpy'):
                return self.ev(e.args[0])
            if last == 'zeros' and d.startswith('numpy'):
                shp = e.args[0]
                if isinstance(shp, ast.Tuple) and const_value(shp.elts[-1]) == 4:
                    return ('half', '0')
                raise AnalysisError('zeros of an unexpected extent in the dispatcher')
            if last == 'bitwise_xor' and d.startswith('numpy'):
                a, b = self.ev(e.args[0]), self.ev(e.args[1])
                if a[0] == 'pair' and b[0] == 'pair':
                    return ('pair', self.xor(a[1], b[1]), self.xor(a[2], b[2]))
                if a[0] == b[0] and a[0] in ('half', 'w8'):
                    return (a[0], self.xor(a[1], b[1]))
                raise AnalysisError(f'xor of {a[0]} with {b[0]}')
            if last == 'roll' and d.startswith('numpy'):
                a = self.ev(e.args[0])
                sh = const_value(kws.get('shift', args.get(1)))
                ax = const_value(kws.get('axis', args.get(2)))
                if a[0] == 'pair' and sh in (4, -4) and ax in (-1, 1):
                    return ('pair', a[2], a[1])
                raise AnalysisError(f'roll(shift={sh}, axis={ax}) is not the swap of the two halves')
            prim = {'initial_permutation': 'IP', 'final_permutation': 'FP', 'expansive_permutation': 'E', 'sboxes': 'S',
                    'permutation_p': 'P', 'inv_permutation_p': 'Pinv', 'add_round_key': 'ARK'}
            if d.startswith(D + '.') and last in prim:
                p = prim[last]
                vals = [self.ev(a) for a in e.args] + [self.ev(v) for v in kws.values()]
                if p == 'ARK':
                    st = self.ev(kws.get('state', args.get(0)))
                    k = self.ev(kws.get('keys', args.get(1)))
                    if st[0] == 'w8' and k[0] == 'w8':
                        return ('w8', self.xor(st[1], k[1]))
                    raise AnalysisError('add_round_key on something else than expanded words and a round key')
                a = vals[0]
                if p == 'IP':
                    if a[0] == 'pair':
                        return ('pair', ('IP.L', a[1], a[2]), ('IP.R', a[1], a[2]))
                if p == 'FP' and a[0] == 'pair':
                    return ('block', ('FP', a[1], a[2]))
                if p == 'E' and a[0] == 'half':
                    return ('w8', ('E', a[1]))
                if p == 'S' and a[0] == 'w8':
                    return ('w8', ('S', a[1]))
                if p == 'P' and a[0] == 'w8':
                    return ('half', ('P', a[1]))
                if p == 'Pinv' and a[0] == 'half':
                    return ('w8', ('Pinv', a[1]))
                raise AnalysisError(f'{last} applied to a {a[0]} value')
            raise AnalysisError(f'dispatcher call `{norm(e)[:50]}` not modelled')
        raise AnalysisError(f'dispatcher expression `{norm(e)[:50]}` not modelled')


def surgery(prog, ci, steps):
    """stop-step surgery of _prepare_rounds as a table: after_step value -> {position: member} (literal if-chain)"""
    f = ci.methods.get('_prepare_rounds')
    if f is None:
        raise AnalysisError('_prepare_rounds not found')
    table = {}
    for n in ast.walk(f.node):
        if isinstance(n, ast.If) and isinstance(n.test, ast.Compare) and norm(n.test.left) == 'after_step' and isinstance(n.test.ops[0], ast.Eq) \
                and isinstance(n.test.comparators[0], ast.Attribute) and norm(n.test.comparators[0].value) == 'Steps':
            s = steps[n.test.comparators[0].attr]
            forced = {}
            for st in n.body:
                if isinstance(st, ast.Assign) and isinstance(st.targets[0], ast.Subscript) and norm(st.targets[0].value).replace(' ', '') == 'rounds[-1]' \
                        and isinstance(st.value, ast.Attribute) and norm(st.value.value) == 'Steps':
                    a = astutil.affine(st.targets[0].slice)
                    if a is None or set(a) - {'after_step', ''}:
                        raise AnalysisError('surgery index is not after_step + const')
                    forced[a.get('after_step', 0) * s + a.get('', 0)] = st.value.attr
                else:
                    raise AnalysisError(f'surgery statement `{norm(st)[:50]}` not understood')
            table[s] = forced
    # the truncation
    trunc = [st for st in ast.walk(f.node) if isinstance(st, ast.Assign) and norm(st.targets[0]).replace(' ', '') == 'rounds[-1]' and isinstance(st.value, ast.Subscript)
             and norm(st.value.value).replace(' ', '') == 'rounds[-1]' and isinstance(st.value.slice, ast.Slice)]
    return f, table, trunc


def d3prime(ctx, prog, steps, ci, tpl, disp):
    byval = {v: k for k, v in steps.items()}
    f, table, trunc = surgery(prog, ci, steps)
    key = f'{f.key}::stop point'
    ok = len(trunc) == 1 and trunc[0].value.slice.lower is None and astutil.affine(trunc[0].value.slice.upper) == {'after_step': 1, '': 1}
    ctx.check(ok, 'C06-D3', key, 'the last round is not cut with an inclusive upper bound after_step + 1', 'last round cut at [:after_step + 1] (inclusive)', f.where())
    if not ok:
        return 0
    fR = ('P', ('S', ('xor', frozenset([('E', 'R'), ('K', 'des_number', ':', 'round_number', ':')]))))
    Lf = Sym.xor('L', fR)
    n = 0
    for name, lst in tpl.items():
        for stop in range(len(steps)):
            seq = list(lst[:stop + 1])
            for pos, mem in table.get(stop, {}).items():
                if 0 <= pos < len(seq):
                    seq[pos] = mem
            sym = Sym(prog, disp, D)
            start = ('pair', 'L', 'R')
            env = {p: ('keys',) if 'key' in p else ('idx', p) for p in disp.params[3:]}
            state = start
            ckey = f'{ci.key}::{name} stopped after step {stop} ({byval[stop]})'
            try:
                for op in seq:
                    state = sym.step(op, state, env)
            except AnalysisError as e:
                # a step sequence the code cannot execute either (e.g. P-store into a value that is not the S output)
                ctx.fail('C06-D4', ckey, f'step sequence {seq} cannot be evaluated: {e}', disp.where())
                continue
            ip = 'INITIAL_PERMUTATION' in seq
            L, R = ('L', 'R')
            # expected value per stop point (FIPS 46-3 round function), before IP substitution
            E_R = ('E', 'R')
            x = Sym.xor(E_R, ('K', 'des_number', ':', 'round_number', ':'))
            expected = {
                0: ('pair', 'L', 'R'),
                1: ('w8', E_R), 2: ('w8', x), 3: ('w8', ('S', x)), 4: ('pair', ('P', ('S', x)), '0'),
                5: ('pair', Lf, 'R'), 6: ('pair', 'R', Lf),
                7: ('w8', ('Pinv', Lf)), 8: ('w8', ('Pinv', Sym.xor(Lf, 'R'))),
            }
            if stop == 9:
                if 'FINAL_PERMUTATION' in seq:
                    exp = ('block', ('FP', Lf, 'R'))
                elif 'PERMUTE_RIGHT_LEFT' in seq:
                    exp = ('pair', 'R', Lf)
                else:
                    exp = ('pair', Lf, 'R')
            else:
                exp = expected[stop]
            if ip:
                exp = subst(exp, {'L': ('IP.L', 'L', 'R'), 'R': ('IP.R', 'L', 'R')})
            n += 1
            if state == exp:
                ctx.ok('C06-D3\'', ckey, f'term after {len(seq)} steps equals the FIPS 46-3 value', disp.where())
            else:
                ctx.fail('C06-D3\'', ckey, f'the state after these steps is {show(state)}; FIPS 46-3 gives {show(exp)}', disp.where())
    return n


def compose(ctx, prog, steps, ci, disp):
    """whole-cipher composition for every stop point: _prepare_des_iterations (and through it _prepare_rounds) is partially
    evaluated (sa.confinterp; cipher data opaque) for every at_des x at_round x after_step; every round of every pass it yields
    is evaluated on fresh symbolic halves (L, R) with its own key index and must give FIPS 46-3's value at that point: a complete
    round (R, L^f(R,K)), the unswapped pre-output at the end of a pass, IP before the first round only, IP^-1 after the very last
    round only, and the documented intermediate at the stop step.  Any write into a shared class-level template is reported."""
    from .. import confinterp as cf
    it = cf.Interp(prog)
    meth = prog.resolve_method(ci, '_prepare_des_iterations')
    if meth is None:
        raise AnalysisError('_prepare_des_iterations not found')
    byval = {v: k for k, v in steps.items()}
    nsteps = len(steps)
    memo = {}
    n = 0
    bad = {}
    writes = {}
    und = None

    def round_state(names, p, r):
        k = (names, p, r)
        if k not in memo:
            sym = Sym(prog, disp, D)
            sym.kmap = {'des_number': p, 'round_number': r}
            env = {q: ('keys',) if 'key' in q else ('idx', q) for q in disp.params[3:]}
            state = ('pair', 'L', 'R')
            try:
                for op in names:
                    state = sym.step(op, state, env)
                memo[k] = ('ok', state)
            except AnalysisError as e:
                memo[k] = ('err', str(e))
        return memo[k]

    for at_des in range(3):
        for at_round in range(16):
            for stop, as_member in ((s_, m_) for s_ in range(nsteps) for m_ in (True, False)):
                # the stop step is documented as "an integer or a Steps enum value" and is stored as given: both forms are interpreted
                o = cf.Obj(ci, at_des=at_des, at_round=at_round, after_step=cf.Member(stop, 'Steps', byval[stop]) if as_member else stop, mode='encrypt')
                before = len(it.template_writes)
                for c_ in prog.mro(ci):
                    for nm in c_.class_assigns:
                        try:
                            it.class_value(ci, nm)
                        except cf.Unknown:
                            pass
                snap = {k_: cf.snapshot(v_) for k_, v_ in it.class_attrs.items()}
                try:
                    its = it.call(meth, selfobj=o)
                except cf.Unknown as e:
                    und = str(e)
                    break
                except cf.Raised as e:
                    bad.setdefault(f'configuration refused ({e.kind})', (at_des, at_round, stop))
                    continue
                if len(it.template_writes) > before:
                    changed = {k_[1] for k_, v_ in it.class_attrs.items() if k_ in snap and cf.snapshot(v_) != snap[k_]}
                    for origin, node in it.template_writes[before:]:
                        if origin.split('.')[-1] in changed:       # a store of the value already there is not a modification
                            writes.setdefault((origin, norm(node)[:80]), (node, at_des, at_round, stop))
                    if changed:
                        it.class_attrs.clear()
                        it.globals.clear()
                cfg = f'at_des={at_des}, at_round={at_round}, after_step={stop} ({byval[stop]}' + ('' if as_member else ', given as a plain integer') + ')'
                if not isinstance(its, list) or len(its) != at_des + 1:
                    bad.setdefault(f'{len(its) if isinstance(its, list) else "?"} DES passes prepared', (at_des, at_round, stop))
                    continue
                for p, rounds in enumerate(its):
                    final = p == at_des
                    want = at_round + 1 if final else 16
                    if len(rounds) != want:
                        bad.setdefault(f'pass {p} runs {len(rounds)} rounds, expected {want}', (at_des, at_round, stop))
                        continue
                    for r, ops in enumerate(rounds):
                        names = tuple((x.mname if isinstance(x, cf.Member) else None) for x in ops)
                        is_stop = final and r == at_round
                        res = round_state(names, p, r)
                        n += 1
                        K = ('K', str(p), ':', str(r), ':')
                        x = Sym.xor(('E', 'R'), K)
                        fR = ('P', ('S', x))
                        Lf = Sym.xor('L', fR)
                        if not is_stop:
                            exp = ('pair', Lf, 'R') if r == 15 else ('pair', 'R', Lf)
                        else:
                            table = {0: ('pair', 'L', 'R'), 1: ('w8', ('E', 'R')), 2: ('w8', x), 3: ('w8', ('S', x)), 4: ('pair', fR, '0'),
                                     5: ('pair', Lf, 'R'), 6: ('pair', 'R', Lf), 7: ('w8', ('Pinv', Lf)), 8: ('w8', ('Pinv', Sym.xor(Lf, 'R'))),
                                     9: ('block', ('FP', Lf, 'R')) if r == 15 else ('pair', 'R', Lf)}
                            exp = table[stop]
                        if p == 0 and r == 0:
                            exp = subst(exp, {'L': ('IP.L', 'L', 'R'), 'R': ('IP.R', 'L', 'R')})
                        where = f'pass {p} round {r}' + (' (stop point)' if is_stop else '')
                        if res[0] == 'err':
                            bad.setdefault(f'{where}: step sequence {list(names)} cannot be evaluated: {res[1]}', (at_des, at_round, stop))
                        elif res[1] != exp:
                            bad.setdefault(f'{where}: steps {[x for x in names if x]} give {show(res[1])}; FIPS 46-3 gives {show(exp)}', (at_des, at_round, stop))
            if und:
                break
        if und:
            break
    key = f'{meth.key}::whole-cipher composition'
    if und:
        ctx.undecided("C06-D3'", key, f'configuration code not evaluable: {und}', meth.where())
        return 0
    for (origin, txt), (node, a, b, c) in writes.items():
        ctx.fail('C06-D4', f'{ci.key}::{origin} written::{txt}', f'`{txt}` writes into the class-level template {origin} (first seen for at_des={a}, at_round={b}, after_step={c}): '
                 f'every later call in the process runs a modified cipher', ci.mod.relpath + f':{getattr(node, "lineno", 0)}')
    if not writes:
        ctx.ok('C06-D4', f'{ci.key}::templates never written', f'no configuration (3 x 16 x {nsteps}) writes into a shared template: the stop-point surgery works on private copies', ci.mod.relpath)
    if bad:
        for msg, (a, b, c) in list(bad.items())[:6]:
            ctx.fail("C06-D3'", f'{key}::{msg[:90]}', f'{msg} (first seen for at_des={a}, at_round={b}, after_step={c}; {len(bad)} distinct discrepancies)', meth.where())
    else:
        ctx.ok("C06-D3'", key, f'{3 * 16 * nsteps} stop points, {n} rounds evaluated ({len(memo)} distinct step sequences): each equals the FIPS 46-3 value at that point', meth.where(),
               stop_points=3 * 16 * nsteps, rounds=n, distinct=len(memo))
    return len(memo)


def subst(t, m):
    if isinstance(t, str):
        return m.get(t, t)
    if isinstance(t, frozenset):
        return frozenset(subst(x, m) for x in t)
    if isinstance(t, tuple):
        return tuple(subst(x, m) for x in t)
    return t


def show(t):
    if isinstance(t, frozenset):
        return ' ^ '.join(sorted(show(x) for x in t))
    if isinstance(t, tuple):
        if t[0] == 'xor':
            return '(' + show(t[1]) + ')'
        if t[0] in ('pair', 'w8', 'half', 'block'):
            return t[0] + '[' + ', '.join(show(x) for x in t[1:]) + ']'
        return t[0] + '(' + ', '.join(show(x) for x in t[1:]) + ')'
    return str(t)


def d4(ctx, prog, ci):
    for name in ('FIRST_ROUND', 'ROUND', 'LAST_ROUND', 'FINAL_ROUND', 'MANDATORY_ROUND_ELEMENTS'):
        for g in prog.funcs_in(D):
            for t, st, how in kernels.stores(g.node):
                node = t
                while isinstance(node, ast.Subscript):
                    node = node.value
                if isinstance(node, ast.Attribute) and node.attr == name:
                    ctx.fail('C06-D4', f'{g.key}::{norm(st)[:60]}', f'class-level template {name} is written at run time', g.where(st))


def d5(ctx, prog, ci):
    """EDE key order: _prepare_keys is partially evaluated (sa.confinterp, arrays opaque but sliceable) for every mode x key
    length x at_des; the key material and round-key direction of every pass must be those of E-D-E / D-E-D (FIPS 46-3 TDES)."""
    from .. import confinterp as cf
    f = ci.methods.get('_prepare_keys')
    if f is None:
        raise AnalysisError('_prepare_keys not found')
    ks = prog.need_func(D, 'key_schedule')

    def canon(v):
        """(key bytes (lo, hi), expanded by key_schedule?, number of reversals of the round axis mod 2) of one pass"""
        flips = 0
        while isinstance(v, cf.Sym) and v.term and v.term[0] == 'call' and v.term[1].split('.')[-1] == 'flip':
            kw = dict(v.term[3])
            ax = kw.get('axis', v.term[2][1] if len(v.term[2]) > 1 else None)
            if ax != 1:
                return ('flip over axis', ax)
            flips += 1
            v = v.term[2][0]
        sched = None
        if isinstance(v, cf.Sym) and v.term and v.term[0] == 'call' and v.term[1] == ks.name:
            sched = True
            v = v.term[2][0] if v.term[2] else dict(v.term[3]).get('key')
        elif isinstance(v, cf.Sym) and v.term and v.term[0] == 'call' and v.term[1].endswith('.reshape'):
            if tuple(v.term[2]) not in ((-1, 16, 8), ((-1, 16, 8),)):
                return ('reshape', v.term[2])
            sched = False
            # the receiver of .reshape is encoded in the callee name: recover it from the index term kept on the Sym
            v = v.base if hasattr(v, 'base') else None
        if not (isinstance(v, cf.Sym) and v.term and v.term[0] == 'index'):
            return ('unrecognised', getattr(v, 'name', v))
        base, idx = v.term[1], v.term[2]
        if not (isinstance(idx, tuple) and len(idx) == 2 and isinstance(idx[0], slice) and idx[0] == slice(None, None, None) and isinstance(idx[1], slice)):
            return ('index', cf.fmt(idx))
        root = base
        if isinstance(root, cf.Sym) and root.term and root.term[0] == 'call' and root.term[1].endswith('.reshape') and hasattr(root, 'base'):
            root = root.base          # the (1, n) view of a single key
        if not (isinstance(root, cf.Sym) and root.name == 'key'):
            return ('taken from', getattr(base, 'name', base))
        return ((idx[1].start or 0, idx[1].stop), sched, flips % 2)

    n = 0
    bad = []
    und = None
    for mode in ('encrypt', 'decrypt'):
        for klen in (8, 16, 24, 128, 256, 384):
            unit = 8 if klen <= 24 else 128
            nkeys = klen // unit
            for at_des, kdim in [(a_, d_) for a_ in (range(1) if nkeys == 1 else range(3)) for d_ in (2, 1)]:
                it = cf.Interp(prog)
                it.opaque_funcs = {ks.key}
                key = cf.Sym('key', attrs={'ndim': kdim, 'shape': (cf.Sym('n'), klen) if kdim == 2 else (klen,)})
                state = cf.Sym('state', attrs={'ndim': 2, 'shape': (cf.Sym('n'), 8)})
                o = cf.Obj(ci, at_des=at_des, mode=mode)
                try:
                    orig = it.callexpr

                    def callexpr(e, env, mod, func, depth, orig=orig, it=it):
                        r = orig(e, env, mod, func, depth)
                        if isinstance(r, cf.Sym) and r.term and r.term[0] == 'call' and r.term[1].endswith('.reshape') and isinstance(e.func, ast.Attribute) \
                                and not hasattr(r, 'base'):
                            # the receiver of the reshape itself (set once, where the value is made: a wrapper returning it is not it)
                            r.base = getattr(r, 'recv', None) if getattr(r, 'method', None) == 'reshape' else it.ev(e.func.value, env, mod, func, depth)
                        return r
                    it.callexpr = callexpr
                    res = it.call(f, kwargs=dict(key=key, state=state), selfobj=o)
                except cf.Unknown as e:
                    und = str(e)
                    break
                except cf.Raised as e:
                    bad.append((mode, klen, at_des, f'refused ({e.kind})', ''))
                    continue
                # np.array(expanded_keys, dtype=...) -> the list of passes
                passes = None
                if isinstance(res, cf.Sym) and res.term and res.term[0] == 'call' and res.term[2] and isinstance(res.term[2][0], list):
                    passes = res.term[2][0]
                elif isinstance(res, list):
                    passes = res
                if passes is None or len(passes) != at_des + 1:
                    bad.append((mode, klen, at_des, f'{len(passes) if passes is not None else "?"} passes prepared', f'{at_des + 1} passes'))
                    continue
                # FIPS 46-3 TDES: encrypt = E_K3(D_K2(E_K1)), decrypt = D_K1(E_K2(D_K3)); K3 = K1 for two keys
                order = [0, 1, 2 if nkeys == 3 else 0] if mode == 'encrypt' else [2 if nkeys == 3 else 0, 1, 0]
                for p_, v in enumerate(passes):
                    n += 1
                    part = order[p_] if nkeys > 1 else 0
                    decrypting = (mode == 'encrypt' and p_ == 1) or (mode == 'decrypt' and p_ != 1)
                    want = ((part * unit, (part + 1) * unit), unit == 8, 1 if decrypting else 0)
                    got = canon(v)
                    if got != want:
                        bad.append((mode, klen, at_des, f'pass {p_} uses {describe(got)}', describe(want)))
            if und:
                break
        if und:
            break
    key_ = f'{f.key}::EDE truth table'
    if und:
        ctx.undecided('C06-D5', key_, f'key preparation not evaluable: {und}', f.where())
        return 0
    if bad:
        mode, klen, at_des, got, want = bad[0]
        ctx.fail('C06-D5', key_, f'{mode}, {klen}-byte key, at_des={at_des}: {got}; FIPS 46-3 EDE requires {want} ({len(bad)} of {n} passes differ)', f.where(), rows=n)
    else:
        ctx.ok('C06-D5', key_, f'all {n} passes (mode x key length x at_des x pass) use the key part and round-key direction of E-D-E / D-E-D', f.where(), rows=n)
    return n


def describe(t):
    if len(t) == 3 and isinstance(t[0], tuple):
        (lo, hi), sched, flip = t
        return f'key bytes [{lo}:{hi}] {"through key_schedule" if sched else "as expanded round keys" if sched is False else "raw"}, round keys {"reversed" if flip else "in order"}'
    return str(t)


def stop_point_domain(ctx, prog):
    """the stop-point arguments: the three setter methods are interpreted (sa.confinterp) over their whole small domains - at_round in
    None, -2..18; after_step in -2..len(Steps)+1; at_des in None, -1..4 for each of the six key lengths - and must accept exactly
    the documented values, map None to "the last round" / "the last pass of that key type", and hand every accepted value on
    unchanged; encrypt / decrypt default to the last step (the complete cipher)."""
    from .. import confinterp as cf
    pc = prog.need_class(D, '_ParametricCipher')
    steps = enumtab.enum_members(prog, D, 'Steps')
    nsteps = len(steps)
    n = 0
    probs = []
    und = None

    def call(meth, *args):
        it = cf.Interp(prog)
        f = pc.methods.get(meth)
        if f is None:
            raise cf.Unknown(f'{meth} not found')
        try:
            return ('ok', it.call(f, args, {}, selfobj=cf.Obj(cls=pc)))
        except cf.Raised as e:
            return ('raise', e.kind)
    try:
        for v in [None] + list(range(-2, 19)):
            n += 1
            r = call('_set_at_round', v)
            want = ('ok', 15) if v is None else (('ok', v) if 0 <= v <= 15 else ('raise',))
            if r[:len(want)] != want:
                probs.append(f'at_round={v}: {"accepted as " + str(r[1]) if r[0] == "ok" else "refused"}; documented: {"round 15 (the last)" if v is None else ("accepted unchanged" if 0 <= v <= 15 else "refused")}')
        for v in range(-2, nsteps + 2):
            n += 1
            r = call('_set_after_step', v)
            want = ('ok', v) if 0 <= v < nsteps else ('raise',)
            if r[:len(want)] != want:
                probs.append(f'after_step={v}: {"accepted as " + str(r[1]) if r[0] == "ok" else "refused"}; {nsteps} steps are defined (0..{nsteps - 1})')
        for klen in (8, 16, 24, 128, 256, 384):
            last = 0 if klen in (8, 128) else 2
            key = cf.Sym('key', attrs={'shape': (cf.Sym('n'), klen), 'ndim': 2})
            for v in [None] + list(range(-1, 5)):
                n += 1
                r = call('_set_at_des', v, key)
                want = ('ok', last) if v is None else (('ok', v) if 0 <= v <= last else ('raise',))
                if r[:len(want)] != want:
                    probs.append(f'at_des={v} with a {klen}-byte key: {"accepted as " + str(r[1]) if r[0] == "ok" else "refused"}; documented: '
                                 f'{"pass " + str(last) + " (the last of that key type)" if v is None else ("accepted unchanged" if 0 <= v <= last else "refused")}')
    except cf.Unknown as e:
        und = str(e)
    key_ = f'{pc.key}::stop-point arguments'
    if und:
        ctx.undecided('C06-D8', key_, f'setters not evaluable: {und}', pc.mod.relpath)
    else:
        ctx.check(not probs, 'C06-D8', key_, f'{probs[0] if probs else ""} ({len(probs)} of {n} argument values differ)', f'{n} argument values: accepted / defaulted / refused as documented', pc.mod.relpath, values=n)
    last_step = max(steps, key=lambda k: steps[k])
    for fname in ('encrypt', 'decrypt'):
        f = prog.need_func(D, fname)
        a = f.node.args
        ps = [x.arg for x in a.args]
        dflt = dict(zip(ps[len(ps) - len(a.defaults):], a.defaults))
        d = dflt.get('after_step')
        ctx.check(d is not None and norm(d).split('.')[-1] == last_step, 'C06-D8', f'{f.key}::default after_step', f'{fname} stops after `{norm(d) if d is not None else None}` by default, not after the last step '
                  f'({last_step}): a plain {fname}(data, key) is not the complete cipher', f'default after_step = Steps.{last_step}', f.where())
        ctx.check(isinstance(dflt.get('at_round'), ast.Constant) and dflt['at_round'].value is None and isinstance(dflt.get('at_des'), ast.Constant) and dflt['at_des'].value is None, 'C06-D8',
                  f'{f.key}::default at_round / at_des', f'{fname} does not default at_round and at_des to None (the last round of the last pass)', 'at_round and at_des default to None', f.where())
    return n


def private_calls_only(prog, f):
    """number of call sites of the private function f in its module when every reference to its name is such a call (0 otherwise:
    a reference that is not a call - stored in a table, passed on - could be invoked with any argument)"""
    calls = refs = 0
    called = set()
    for n in ast.walk(f.mod.tree):
        if isinstance(n, ast.Call):
            fn = n.func
            if (isinstance(fn, ast.Name) and fn.id == f.name) or (isinstance(fn, ast.Attribute) and fn.attr == f.name and norm(fn.value) in ('self', 'cls', 'super()')):
                calls += 1
                called.add(id(fn))
    # a reference from a private class-level handler table that is itself only indexed and called (`self._T[k](...)`, or
    # `h = self._T[k]` with h only called): the table call sites are the call sites (sa.alias.table_callees judges their arguments)
    tabled = set()
    if f.cls is not None:
        for tname, v in f.cls.class_assigns.items():
            if tname.startswith('_') and isinstance(v, ast.Dict) and any(isinstance(x, ast.Name) and x.id == f.name for x in v.values) and all(isinstance(x, ast.Name) for x in v.values):
                uses = [n for n in ast.walk(f.mod.tree) if isinstance(n, ast.Attribute) and n.attr == tname and isinstance(n.ctx, ast.Load)]
                pm = astutil.parents(f.mod.tree)
                sites = 0
                ok = bool(uses)
                for u in uses:
                    sub = pm.get(u)
                    if not (isinstance(sub, ast.Subscript) and sub.value is u):
                        ok = False
                        break
                    par = pm.get(sub)
                    if isinstance(par, ast.Call) and par.func is sub:
                        sites += 1
                    elif isinstance(par, ast.Assign) and par.value is sub and len(par.targets) == 1 and isinstance(par.targets[0], ast.Name):
                        h = par.targets[0].id
                        owner = par
                        while owner is not None and not isinstance(owner, (ast.FunctionDef, ast.AsyncFunctionDef)):
                            owner = pm.get(owner)
                        hrefs = [n for n in ast.walk(owner) if isinstance(n, ast.Name) and n.id == h and isinstance(n.ctx, ast.Load)] if owner is not None else []
                        if not hrefs or not all(isinstance(pm.get(r), ast.Call) and pm.get(r).func is r for r in hrefs):
                            ok = False
                            break
                        sites += len(hrefs)
                    else:
                        ok = False
                        break
                if ok and not any(isinstance(n, ast.Name) and n.id == tname and isinstance(n.ctx, ast.Load) for n in ast.walk(f.mod.tree)):
                    tabled |= {id(x) for x in v.values if isinstance(x, ast.Name) and x.id == f.name}
                    calls += sites
    for n in ast.walk(f.mod.tree):
        if id(n) in called or id(n) in tabled:
            continue
        if (isinstance(n, ast.Name) and n.id == f.name and isinstance(n.ctx, ast.Load)) or (isinstance(n, ast.Attribute) and n.attr == f.name and isinstance(n.ctx, ast.Load)):
            refs += 1
    return calls if refs == 0 else 0


def d6(ctx, prog, modname, rule):
    from .. import memo
    effs = {}
    n = 0
    for f in prog.funcs_in(modname):
        if f.parent is not None:
            continue
        eff = effs.setdefault(f.cls.key if f.cls else None, alias.Effects(prog, f.cls))
        for st, desc, cl in eff.writes(f):
            n += 1
            key = f'{f.key}::{norm(st)[:90]}'
            if cl == alias.FRESH:
                ctx.ok(rule, key, f'{desc}: storage allocated in this call', f.where(st))
            elif cl == alias.UNKNOWN or cl is None:
                ctx.undecided(rule, key, f'{desc}: cannot classify the written storage', f.where(st))
            else:
                roots = set(cl[1])
                if roots and all(r.startswith('self.') for r in roots):
                    ctx.ok(rule, key, f'{desc}: instance scratch attribute', f.where(st))
                elif f.name.startswith('_') and not f.name.startswith('__') and all(r.startswith('param:') for r in roots) and private_calls_only(prog, f):
                    # a private helper that works in the buffer its caller hands it: whether that buffer is the caller's own is
                    # judged at each call site (the `writes its parameter` events of the calling functions, same rule)
                    ctx.ok(rule, key, f'{desc}: private helper, the argument is judged at its {private_calls_only(prog, f)} call site(s)', f.where(st))
                elif roots and all(r.startswith('global:') for r in roots) and all(memo.state_status(prog, r[7:].rsplit('.', 1)[0], r.rsplit('.', 1)[1]) == 'holds' for r in roots):
                    ctx.ok(rule, key, f'{desc}: a module-level memo looked up by value snapshot (hidden-state clause S1)', f.where(st))
                elif f.name == '_prepare_rounds' and roots == {'param:operations'}:
                    ctx.ok(rule, key, f'{desc}: judged by the template-ownership clause', f.where(st))
                else:
                    ctx.fail(rule, key, f'{desc}: modifies storage the caller passed in ({sorted(roots)})', f.where(st))
    return n


def run(ctx, prog):
    ctx.rule('C06-D1', 'SBOXES literal == FIPS 46-3 S1..S8 re-indexed to 6-bit direct order (512 entries)')
    ctx.rule('C06-D2', 'bit provenance of IP, IP^-1, E, P, P^-1 equals the FIPS tables; sboxes applies table k to word k; add_round_key is xor')
    ctx.rule('C06-D3', 'templates: position discipline, IP/FP/swap placement, core steps, exhaustive dispatcher, inclusive stop point')
    ctx.rule('C06-D3\'', 'whole-cipher composition: for every at_des x at_round x after_step the configuration code is partially evaluated and every round it yields, evaluated on symbolic halves with its own key index, equals the FIPS 46-3 value at that point')
    ctx.rule('C06-D4', 'stop-point surgery writes only a private slice copy; class-level templates are never written; every step sequence is evaluable (typestate of the state buffer)')
    ctx.rule('C06-D5', 'EDE key order truth table over (mode, key length, pass)')
    ctx.rule('C06-D6', 'no in-place effect reaches a caller-owned array')
    ctx.assume('the driver loop applies the prepared steps in list order with des_number / round_number = their enumerate positions (checked structurally under C06-D3); the broadcasting shapes are numpy run-time behaviour')
    ctx.assume('FIPS 46-3 tables in spec/fips.py (typed from the standard, cross-validated against pycryptodome by selftest)')
    d1(ctx, prog)
    nbits = d2(ctx, prog)
    steps, ci, tpl, disp = d3(ctx, prog)
    n3 = compose(ctx, prog, steps, ci, disp)
    d4(ctx, prog, ci)
    from .c05 import buffer_dtypes
    ctx.rule('C06-D7', 'the shared byte-array check accepts exactly integer arrays with all values in 0..255 (every dtype x boundary range, by interpretation)')
    from .c05 import byte_validator
    ctx.floor('byte validator cases', byte_validator(ctx, prog, 'C06-D7'), 100)
    ctx.floor('buffer allocations judged (des)', buffer_dtypes(ctx, prog, D, 'C06-D2'), 3)
    n5 = d5(ctx, prog, ci)
    ctx.rule('C06-D8', 'stop-point arguments: at_round / after_step / at_des accepted, defaulted and refused exactly as documented (setters interpreted over their whole domains); encrypt / decrypt default to the complete cipher')
    ctx.floor('stop-point argument values interpreted', stop_point_domain(ctx, prog), 60)
    n6 = d6(ctx, prog, D, 'C06-D6')
    ctx.floor('permutation output bits decided', nbits, 64 + 64 + 48 + 32 + 32)
    ctx.floor('template x stop-step terms', n3, 40)
    ctx.floor('EDE truth table rows', n5, 28)
    ctx.floor('in-place effects judged (des)', n6, 10)
