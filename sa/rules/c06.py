"""C06 - DES / TDES conform to FIPS 46-3 (ingredients decided statically).

D1  S-boxes            SBOXES[k][i] == S_k[row(b5 b0)][col(b4..b1)] for all 8 x 64 entries.
D2  permutations       bit provenance of every output bit of IP, FP, E, P, P^-1 equals the FIPS table (=> for all inputs);
                       sboxes applies table k to word k; add_round_key is the xor of its two arguments.
D3  templates          each round template has len(Steps) entries and entry i is None or the member whose value is i;
                       only FIRST has IP, only FINAL has FP, LAST/FINAL have no swap, every template has E,K,S,P,xor;
                       the dispatcher has one branch per Steps member.
D3' Feistel term       the dispatcher, evaluated with uninterpreted symbols (E,S,P,P^-1,IP,FP,K) over the literal templates and
                       the literal stop-step surgery, yields FIPS 46-3's round function: ROUND (L,R) -> (R, L^P(S(E(R)^K))),
                       LAST keeps the unswapped pre-output, FINAL adds FP, FIRST prefixes IP; every stop step returns the
                       documented intermediate value.
D4  template ownership the stop-point surgery only writes into a slice copy of a template; in the dispatcher the in-place store
                       of the P step always hits the S-box output array and saved_left_right is defined before the xor.
D5  EDE key order      truth table of _prepare_keys over (mode, pass, key length): which key part is used and which passes are
                       reversed equals E-D-E / D-E-D with K1/K3 swapped for 3-key decryption and K3 = K1 for 2-key.
D6  caller's arrays    no in-place effect of a public function reaches a caller's array.
"""
import ast

from .. import bitprov, tables, enumtab, alias, astutil, kernels
from ..model import norm, AnalysisError, const_value, self_attr
from spec import fips

D = 'scared.des.base'


def skip_validation(st):
    return isinstance(st, ast.Expr) or (isinstance(st, ast.Assign) and isinstance(st.targets[0], ast.Name) and st.targets[0].id in ('dimensions', 'dims'))


def d1(ctx, prog):
    got, node = tables.literal(prog, D, 'SBOXES')
    want = [fips.sbox_direct(k) for k in range(8)]
    diff = tables.first_diff(got, want)
    ctx.check(diff is None, 'C06-D1', f'{D}::SBOXES', f'SBOXES{list(diff[0]) if diff else ""} = {diff[1] if diff else ""} but FIPS 46-3 gives {diff[2] if diff else ""} '
              f'(S{diff[0][0] + 1 if diff and diff[0] else "?"} in 6-bit direct order)', 'all 8 x 64 S-box entries equal FIPS 46-3', tables.where(prog, D, node), entries=512)


def d2(ctx, prog):
    invP = [0] * 32
    for i, v in enumerate(fips.P):
        invP[v - 1] = i + 1
    spec = [('initial_permutation', 8, 8, 8, fips.IP, 'IP'), ('final_permutation', 8, 8, 8, fips.FP, 'IP^-1'),
            ('expansive_permutation', 6, 8, 8, fips.E, 'E'), ('permutation_p', 8, 4, 4, fips.P, 'P'), ('inv_permutation_p', 4, 8, 8, invP, 'P^-1')]
    n = 0
    for name, uo, ui, nc, want, label in spec:
        f = prog.need_func(D, name)
        key = f'{f.key}::bit provenance'
        try:
            it = bitprov.Interp(f, skip=skip_validation).run()
            outs = [a for a in it.arrays]
            if it.ret is None:
                raise bitprov.Abort('no return')
            rname = None
            for nd in ast.walk(it.ret[1]):
                if isinstance(nd, ast.Name) and nd.id in it.arrays:
                    rname = nd.id
            if rname is None:
                raise bitprov.Abort('returned value is not the bit-sliced output array')
            rel = bitprov.relation(it.arrays[rname], nc, uo, ui)
        except bitprov.Abort as e:
            ctx.undecided('C06-D2', key, f'provenance analysis aborted: {e}', f.where())
            continue
        n += len(rel)
        bad = [(i + 1, rel[i], want[i]) for i in range(len(want)) if rel[i] != want[i]] if len(rel) == len(want) else [('len', len(rel), len(want))]
        if bad:
            p, g, w = bad[0]
            ctx.fail('C06-D2', key, f'{name}: output bit {p} comes from input bit {g}; FIPS 46-3 {label} says bit {w} ({len(bad)} of {len(want)} positions differ) - wrong for every input with those bits different',
                     f.where(), differing=len(bad))
        else:
            ctx.ok('C06-D2', key, f'{name}: all {len(want)} output bits come from the input bits FIPS 46-3 {label} prescribes (holds for every input)', f.where(), bits=len(want))
    # sboxes: table k on word k
    f = prog.need_func(D, 'sboxes')
    loops = [l for l in ast.walk(f.node) if isinstance(l, ast.For)]
    good = False
    if len(loops) == 1 and isinstance(loops[0].target, ast.Name) and norm(loops[0].iter).replace(' ', '') in ('_np.arange(8)', 'range(8)', 'np.arange(8)'):
        v = loops[0].target.id
        b = loops[0].body
        good = len(b) == 1 and isinstance(b[0], ast.Assign) and norm(b[0].targets[0]).replace(' ', '') == f'out[:,{v}]' \
            and norm(b[0].value).replace(' ', '') == f'SBOXES[{v}][data[:,{v}]]'
    ctx.check(good, 'C06-D2', f'{f.key}::table k on word k', 'sboxes() does not apply SBOXES[k] to word k for k = 0..7', 'SBOXES[k] applied to word k, k = 0..7', f.where())
    f = prog.need_func(D, 'add_round_key')
    rets = [r.value for r in ast.walk(f.node) if isinstance(r, ast.Return)]
    good = len(rets) == 1 and isinstance(rets[0], ast.Call) and norm(rets[0].func).split('.')[-1] == 'bitwise_xor' and sorted(norm(a) for a in rets[0].args) == sorted(f.params)
    ctx.check(good, 'C06-D2', f'{f.key}::xor', 'add_round_key is not the bitwise xor of its two arguments', 'add_round_key = state xor keys', f.where())
    return n


def templates(prog):
    ci = prog.need_class(D, '_ParametricCipher')
    m = prog.need_mod(D)
    out = {}
    for name in ('FIRST_ROUND', 'ROUND', 'LAST_ROUND', 'FINAL_ROUND'):
        if name not in ci.class_assigns:
            raise AnalysisError(f'template {name} not found')
        out[name] = enumtab.eval_list(prog, m, ci.class_assigns[name], ci.class_assigns, 'Steps')
    return ci, out


def d3(ctx, prog):
    steps = enumtab.enum_members(prog, D, 'Steps')
    byval = {v: k for k, v in steps.items()}
    ci, tpl = templates(prog)
    for name, lst in tpl.items():
        key = f'{ci.key}::{name}'
        ok = len(lst) == len(steps) and all(x is None or (x in steps and steps[x] == i) for i, x in enumerate(lst))
        ctx.check(ok, 'C06-D3', key + ' positions', f'{name} = {lst}: entry i must be None or the Steps member of value i (this is what makes [:after_step+1] mean "after that step")',
                  f'{name}: {len(lst)} entries, each None or the member of its own position', ci.mod.relpath)
        core = ['EXPANSIVE_PERMUTATION', 'ADD_ROUND_KEY', 'SBOXES', 'PERMUTATION_P', 'XOR_WITH_SAVED_LEFT_RIGHT']
        ctx.check(all(c in lst for c in core), 'C06-D3', key + ' core', f'{name} lacks one of E, key mixing, S, P, xor', 'contains E, K, S, P, xor', ci.mod.relpath)
    exp = {'FIRST_ROUND': dict(ip=True, fp=False, swap=True), 'ROUND': dict(ip=False, fp=False, swap=True),
           'LAST_ROUND': dict(ip=False, fp=False, swap=False), 'FINAL_ROUND': dict(ip=False, fp=True, swap=False)}
    for name, e in exp.items():
        lst = tpl[name]
        got = dict(ip='INITIAL_PERMUTATION' in lst, fp='FINAL_PERMUTATION' in lst, swap='PERMUTE_RIGHT_LEFT' in lst)
        why = {'ip': 'IP is applied once, to the input block', 'fp': 'IP^-1 is applied once, to the pre-output', 'swap': 'the pre-output is R16 L16: no swap after the last round'}
        for k in ('ip', 'fp', 'swap'):
            ctx.check(got[k] == e[k], 'C06-D3', f'{ci.key}::{name} {k}', f'{name} has {k}={got[k]}, FIPS 46-3 requires {e[k]} ({why[k]})', f'{k}={got[k]} as FIPS 46-3 requires', ci.mod.relpath)
    # dispatcher exhaustive
    disp = ci.methods.get('_parametric_cipher_step')
    if disp is None:
        raise AnalysisError('dispatcher not found')
    handled = []
    for n in ast.walk(disp.node):
        if isinstance(n, ast.If) and isinstance(n.test, ast.Compare) and len(n.test.ops) == 1 and isinstance(n.test.ops[0], (ast.Is, ast.Eq)) \
                and isinstance(n.test.comparators[0], ast.Attribute) and norm(n.test.comparators[0].value) == 'Steps':
            handled.append(n.test.comparators[0].attr)
    missing = sorted(set(steps) - set(handled))
    dup = sorted({h for h in handled if handled.count(h) > 1})
    ctx.check(not missing and not dup, 'C06-D3', f'{disp.key}::exhaustive', f'dispatcher branches: missing {missing}, duplicated {dup}', f'one branch for each of the {len(steps)} Steps members', disp.where())
    return steps, ci, tpl, disp


# ---------------------------------------------------------------------------------------------- D3': term evaluation
class Sym:
    """evaluate the dispatcher on symbolic half blocks; values:
       ('pair', L, R)   8-byte state as two 4-byte terms        ('w8', t)  eight small words (E / S domain)
       ('half', t)      4 bytes                                   terms: strings / tuples, xor as ('xor', frozenset)"""

    def __init__(self, prog, disp, modname):
        self.prog, self.disp, self.mod = prog, disp, prog.need_mod(modname)
        self.attrs = {}
        self.out_param = disp.params[1]

    @staticmethod
    def xor(a, b):
        def parts(t):
            if t == '0':
                return frozenset()
            return t[1] if isinstance(t, tuple) and t[0] == 'xor' else frozenset([t])
        s = parts(a) ^ parts(b)
        if not s:
            return '0'
        if len(s) == 1:
            return next(iter(s))
        return ('xor', s)

    def step(self, op, state, env):
        """run the dispatcher body with `operation` bound to the Steps member `op` (or None)"""
        self.env = dict(env)
        self.env[self.out_param] = state
        self.op = op
        r = self.block(self.disp.node.body)
        if r is None:
            raise AnalysisError('dispatcher does not return')
        return r

    def block(self, stmts):
        for st in stmts:
            r = self.stmt(st)
            if r is not None:
                return r
        return None

    def stmt(self, st):
        if isinstance(st, ast.If):
            c = self.cond(st.test)
            return self.block(st.body if c else st.orelse)
        if isinstance(st, ast.Return):
            return self.ev(st.value)
        if isinstance(st, ast.Assign):
            v = self.ev(st.value)
            t = st.targets[0]
            if isinstance(t, ast.Name):
                self.env[t.id] = v
            elif isinstance(t, ast.Attribute) and norm(t.value) == 'self':
                self.attrs[t.attr] = v
            elif isinstance(t, ast.Subscript) and isinstance(t.value, ast.Name):
                cur = self.env[t.value.id]
                half = self.half_of(t.slice)
                if v[0] not in ('half',):
                    raise AnalysisError(f'store of a {v[0]} into a half block')
                if cur[0] == 'w8':
                    cur = ('pair', ('hi?', cur[1]), ('lo?', cur[1]))      # reuse of the S-box output array as state buffer
                if cur[0] != 'pair':
                    raise AnalysisError('half store into a non 8-byte value')
                self.env[t.value.id] = ('pair', v[1], cur[2]) if half == 'L' else ('pair', cur[1], v[1])
            else:
                raise AnalysisError(f'dispatcher statement `{norm(st)[:50]}` not modelled')
            return None
        if isinstance(st, ast.Expr):
            return None
        raise AnalysisError(f'dispatcher statement kind {type(st).__name__} not modelled')

    def cond(self, t):
        if isinstance(t, ast.Compare) and len(t.ops) == 1 and isinstance(t.ops[0], (ast.Is, ast.Eq)) and norm(t.left) == self.disp.params[2]:
            c = t.comparators[0]
            if isinstance(c, ast.Attribute) and norm(c.value) == 'Steps':
                return self.op == c.attr
            if isinstance(c, ast.Constant) and c.value is None:
                return self.op is None
        raise AnalysisError(f'dispatcher condition `{norm(t)[:50]}` is not a test of the operation')

    @staticmethod
    def half_of(sl):
        if isinstance(sl, ast.Tuple) and len(sl.elts) == 2 and isinstance(sl.elts[0], ast.Slice) and isinstance(sl.elts[1], ast.Slice):
            lo, hi = const_value(sl.elts[1].lower) if sl.elts[1].lower is not None else 0, const_value(sl.elts[1].upper)
            if (lo, hi) == (0, 4):
                return 'L'
            if (lo, hi) == (4, 8):
                return 'R'
        raise AnalysisError(f'slice `{norm(sl)}` is not one of the two halves of the 8-byte state')

    def ev(self, e):
        if isinstance(e, ast.Name):
            if e.id not in self.env:
                raise AnalysisError(f'dispatcher reads unknown `{e.id}`')
            return self.env[e.id]
        if isinstance(e, ast.Attribute) and norm(e.value) == 'self':
            if e.attr not in self.attrs:
                raise AnalysisError(f'dispatcher reads self.{e.attr} before it is set on this step sequence')
            return self.attrs[e.attr]
        if isinstance(e, ast.Subscript):
            base = self.ev(e.value)
            if base[0] == 'keys':
                idx = [norm(x) for x in (e.slice.elts if isinstance(e.slice, ast.Tuple) else [e.slice])]
                return ('w8', ('K',) + tuple(idx))
            h = self.half_of(e.slice)
            if base[0] != 'pair':
                raise AnalysisError(f'half of a {base[0]} value')
            return ('half', base[1] if h == 'L' else base[2])
        if isinstance(e, ast.Call):
            d = self.prog.dotted(self.mod, e.func) or norm(e.func)
            last = d.split('.')[-1]
            args = {i: a for i, a in enumerate(e.args)}
            kws = {k.arg: k.value for k in e.keywords}
            if last == 'copy' and d.startswith('numpy'):
                return self.ev(e.args[0])
            if last == 'zeros' and d.startswith('numpy'):
                shp = e.args[0]
                if isinstance(shp, ast.Tuple) and const_value(shp.elts[-1]) == 4:
                    return ('half', '0')
                raise AnalysisError('zeros of an unexpected extent in the dispatcher')
            if last == 'bitwise_xor' and d.startswith('numpy'):
                a, b = self.ev(e.args[0]), self.ev(e.args[1])
                if a[0] == 'pair' and b[0] == 'pair':
                    return ('pair', self.xor(a[1], b[1]), self.xor(a[2], b[2]))
                if a[0] == b[0] and a[0] in ('half', 'w8'):
                    return (a[0], self.xor(a[1], b[1]))
                raise AnalysisError(f'xor of {a[0]} with {b[0]}')
            if last == 'roll' and d.startswith('numpy'):
                a = self.ev(e.args[0])
                sh = const_value(kws.get('shift', args.get(1)))
                ax = const_value(kws.get('axis', args.get(2)))
                if a[0] == 'pair' and sh in (4, -4) and ax in (-1, 1):
                    return ('pair', a[2], a[1])
                raise AnalysisError(f'roll(shift={sh}, axis={ax}) is not the swap of the two halves')
            prim = {'initial_permutation': 'IP', 'final_permutation': 'FP', 'expansive_permutation': 'E', 'sboxes': 'S',
                    'permutation_p': 'P', 'inv_permutation_p': 'Pinv', 'add_round_key': 'ARK'}
            if d.startswith(D + '.') and last in prim:
                p = prim[last]
                vals = [self.ev(a) for a in e.args] + [self.ev(v) for v in kws.values()]
                if p == 'ARK':
                    st = self.ev(kws.get('state', args.get(0)))
                    k = self.ev(kws.get('keys', args.get(1)))
                    if st[0] == 'w8' and k[0] == 'w8':
                        return ('w8', self.xor(st[1], k[1]))
                    raise AnalysisError('add_round_key on something else than expanded words and a round key')
                a = vals[0]
                if p == 'IP':
                    if a[0] == 'pair':
                        return ('pair', ('IP.L', a[1], a[2]), ('IP.R', a[1], a[2]))
                if p == 'FP' and a[0] == 'pair':
                    return ('block', ('FP', a[1], a[2]))
                if p == 'E' and a[0] == 'half':
                    return ('w8', ('E', a[1]))
                if p == 'S' and a[0] == 'w8':
                    return ('w8', ('S', a[1]))
                if p == 'P' and a[0] == 'w8':
                    return ('half', ('P', a[1]))
                if p == 'Pinv' and a[0] == 'half':
                    return ('w8', ('Pinv', a[1]))
                raise AnalysisError(f'{last} applied to a {a[0]} value')
            raise AnalysisError(f'dispatcher call `{norm(e)[:50]}` not modelled')
        raise AnalysisError(f'dispatcher expression `{norm(e)[:50]}` not modelled')


def surgery(prog, ci, steps):
    """stop-step surgery of _prepare_rounds as a table: after_step value -> {position: member} (literal if-chain)"""
    f = ci.methods.get('_prepare_rounds')
    if f is None:
        raise AnalysisError('_prepare_rounds not found')
    table = {}
    for n in ast.walk(f.node):
        if isinstance(n, ast.If) and isinstance(n.test, ast.Compare) and norm(n.test.left) == 'after_step' and isinstance(n.test.ops[0], ast.Eq) \
                and isinstance(n.test.comparators[0], ast.Attribute) and norm(n.test.comparators[0].value) == 'Steps':
            s = steps[n.test.comparators[0].attr]
            forced = {}
            for st in n.body:
                if isinstance(st, ast.Assign) and isinstance(st.targets[0], ast.Subscript) and norm(st.targets[0].value).replace(' ', '') == 'rounds[-1]' \
                        and isinstance(st.value, ast.Attribute) and norm(st.value.value) == 'Steps':
                    a = astutil.affine(st.targets[0].slice)
                    if a is None or set(a) - {'after_step', ''}:
                        raise AnalysisError('surgery index is not after_step + const')
                    forced[a.get('after_step', 0) * s + a.get('', 0)] = st.value.attr
                else:
                    raise AnalysisError(f'surgery statement `{norm(st)[:50]}` not understood')
            table[s] = forced
    # the truncation
    trunc = [st for st in ast.walk(f.node) if isinstance(st, ast.Assign) and norm(st.targets[0]).replace(' ', '') == 'rounds[-1]' and isinstance(st.value, ast.Subscript)
             and norm(st.value.value).replace(' ', '') == 'rounds[-1]' and isinstance(st.value.slice, ast.Slice)]
    return f, table, trunc


def d3prime(ctx, prog, steps, ci, tpl, disp):
    byval = {v: k for k, v in steps.items()}
    f, table, trunc = surgery(prog, ci, steps)
    key = f'{f.key}::stop point'
    ok = len(trunc) == 1 and trunc[0].value.slice.lower is None and astutil.affine(trunc[0].value.slice.upper) == {'after_step': 1, '': 1}
    ctx.check(ok, 'C06-D3', key, 'the last round is not cut with an inclusive upper bound after_step + 1', 'last round cut at [:after_step + 1] (inclusive)', f.where())
    if not ok:
        return 0
    fR = ('P', ('S', ('xor', frozenset([('E', 'R'), ('K', 'des_number', ':', 'round_number', ':')]))))
    Lf = Sym.xor('L', fR)
    n = 0
    for name, lst in tpl.items():
        for stop in range(len(steps)):
            seq = list(lst[:stop + 1])
            for pos, mem in table.get(stop, {}).items():
                if 0 <= pos < len(seq):
                    seq[pos] = mem
            sym = Sym(prog, disp, D)
            start = ('pair', 'L', 'R')
            env = {p: ('keys',) if 'key' in p else ('idx', p) for p in disp.params[3:]}
            state = start
            ckey = f'{ci.key}::{name} stopped after step {stop} ({byval[stop]})'
            try:
                for op in seq:
                    state = sym.step(op, state, env)
            except AnalysisError as e:
                # a step sequence the code cannot execute either (e.g. P-store into a value that is not the S output)
                ctx.fail('C06-D4', ckey, f'step sequence {seq} cannot be evaluated: {e}', disp.where())
                continue
            ip = 'INITIAL_PERMUTATION' in seq
            L, R = ('L', 'R')
            # expected value per stop point (FIPS 46-3 round function), before IP substitution
            E_R = ('E', 'R')
            x = Sym.xor(E_R, ('K', 'des_number', ':', 'round_number', ':'))
            expected = {
                0: ('pair', 'L', 'R'),
                1: ('w8', E_R), 2: ('w8', x), 3: ('w8', ('S', x)), 4: ('pair', ('P', ('S', x)), '0'),
                5: ('pair', Lf, 'R'), 6: ('pair', 'R', Lf),
                7: ('w8', ('Pinv', Lf)), 8: ('w8', ('Pinv', Sym.xor(Lf, 'R'))),
            }
            if stop == 9:
                if 'FINAL_PERMUTATION' in seq:
                    exp = ('block', ('FP', Lf, 'R'))
                elif 'PERMUTE_RIGHT_LEFT' in seq:
                    exp = ('pair', 'R', Lf)
                else:
                    exp = ('pair', Lf, 'R')
            else:
                exp = expected[stop]
            if ip:
                exp = subst(exp, {'L': ('IP.L', 'L', 'R'), 'R': ('IP.R', 'L', 'R')})
            n += 1
            if state == exp:
                ctx.ok('C06-D3\'', ckey, f'term after {len(seq)} steps equals the FIPS 46-3 value', disp.where())
            else:
                ctx.fail('C06-D3\'', ckey, f'the state after these steps is {show(state)}; FIPS 46-3 gives {show(exp)}', disp.where())
    return n


def subst(t, m):
    if isinstance(t, str):
        return m.get(t, t)
    if isinstance(t, frozenset):
        return frozenset(subst(x, m) for x in t)
    if isinstance(t, tuple):
        return tuple(subst(x, m) for x in t)
    return t


def show(t):
    if isinstance(t, frozenset):
        return ' ^ '.join(sorted(show(x) for x in t))
    if isinstance(t, tuple):
        if t[0] == 'xor':
            return '(' + show(t[1]) + ')'
        if t[0] in ('pair', 'w8', 'half', 'block'):
            return t[0] + '[' + ', '.join(show(x) for x in t[1:]) + ']'
        return t[0] + '(' + ', '.join(show(x) for x in t[1:]) + ')'
    return str(t)


def d4(ctx, prog, ci):
    f = ci.methods['_prepare_rounds']
    # element stores into rounds[-1][...] must come after the slice-copy statement, in the same block
    body = f.node.body
    copy_idx = None
    for i, st in enumerate(body):
        if isinstance(st, ast.Assign) and norm(st.targets[0]).replace(' ', '') == 'rounds[-1]' and isinstance(st.value, ast.Subscript) \
                and isinstance(st.value.slice, ast.Slice) and norm(st.value.value).replace(' ', '') == 'rounds[-1]':
            copy_idx = i
    bad = []
    n = 0
    for i, st in enumerate(body):
        for sub in ast.walk(st):
            if isinstance(sub, ast.Assign) and isinstance(sub.targets[0], ast.Subscript) and isinstance(sub.targets[0].value, ast.Subscript):
                n += 1
                if copy_idx is None or i <= copy_idx:
                    bad.append(sub)
            if isinstance(sub, ast.Call) and isinstance(sub.func, ast.Attribute) and sub.func.attr in ('append', 'extend', 'insert', 'pop', 'remove', 'clear', 'sort', 'reverse') \
                    and isinstance(sub.func.value, ast.Subscript):
                bad.append(sub)
    # the templates appended are the operation lists themselves: list slicing copies, so only the sliced last round is private
    ctx.check(not bad and copy_idx is not None, 'C06-D4', f'{f.key}::writes only its slice copy',
              f'`{norm(bad[0])[:60] if bad else "no slice copy"}`: a round template shared at class level would be modified (every later call sees the altered template)',
              f'{n} element stores, all after `rounds[-1] = rounds[-1][:...]` (a private copy of the template)', f.where())
    for name in ('FIRST_ROUND', 'ROUND', 'LAST_ROUND', 'FINAL_ROUND', 'MANDATORY_ROUND_ELEMENTS'):
        for g in prog.funcs_in(D):
            for t, st, how in kernels.stores(g.node):
                node = t
                while isinstance(node, ast.Subscript):
                    node = node.value
                if isinstance(node, ast.Attribute) and node.attr == name:
                    ctx.fail('C06-D4', f'{g.key}::{norm(st)[:60]}', f'class-level template {name} is written at run time', g.where(st))


def d5(ctx, prog, ci):
    """truth table of _prepare_keys by constant evaluation of its conditions"""
    f = ci.methods.get('_prepare_keys')
    if f is None:
        raise AnalysisError('_prepare_keys not found')
    loops = [l for l in f.node.body if isinstance(l, ast.For)]
    if len(loops) != 1 or norm(loops[0].iter).replace(' ', '') != 'range(self.at_des+1)':
        ctx.undecided('C06-D5', f'{f.key}::pass loop', 'pass loop `for current_des in range(self.at_des + 1)` not recognised', f.where())
        return 0
    loop = loops[0]
    var = loop.target.id

    def evalc(e, env):
        if isinstance(e, ast.Constant):
            return e.value
        if isinstance(e, ast.Name):
            return env[e.id]
        if isinstance(e, ast.Attribute):
            t = norm(e)
            if t in env:
                return env[t]
        if isinstance(e, ast.Subscript):
            t = norm(e).replace(' ', '')
            if t in env:
                return env[t]
        if isinstance(e, ast.BoolOp):
            vs = [evalc(v, env) for v in e.values]
            return all(vs) if isinstance(e.op, ast.And) else any(vs)
        if isinstance(e, ast.Compare) and len(e.ops) == 1:
            l, r = evalc(e.left, env), evalc(e.comparators[0], env)
            return {ast.Eq: l == r, ast.NotEq: l != r, ast.Lt: l < r, ast.Gt: l > r}[type(e.ops[0])]
        if isinstance(e, ast.BinOp):
            import operator
            return {ast.Add: operator.add, ast.Sub: operator.sub, ast.Mult: operator.mul}[type(e.op)](evalc(e.left, env), evalc(e.right, env))
        if isinstance(e, ast.UnaryOp) and isinstance(e.op, ast.Not):
            return not evalc(e.operand, env)
        raise AnalysisError(f'cannot evaluate `{norm(e)[:50]}`')

    def run_block(stmts, env, rec):
        for st in stmts:
            if isinstance(st, ast.If):
                run_block(st.body if evalc(st.test, env) else st.orelse, env, rec)
            elif isinstance(st, ast.Expr) and isinstance(st.value, ast.Call) and norm(st.value.func).endswith('.append'):
                a = st.value.args[0]
                sl = [s for s in ast.walk(a) if isinstance(s, ast.Subscript) and isinstance(s.slice, ast.Tuple) and isinstance(s.slice.elts[-1], ast.Slice)]
                if len(sl) != 1:
                    raise AnalysisError('appended key part is not one slice of the key array')
                s = sl[0].slice.elts[-1]
                lo, hi = evalc(s.lower, env) if s.lower is not None else 0, evalc(s.upper, env)
                rec['part'] = (lo, hi)
                rec['schedule'] = any(isinstance(c, ast.Call) and norm(c.func) == 'key_schedule' for c in ast.walk(a))
            elif isinstance(st, ast.Assign) and isinstance(st.value, ast.Call) and norm(st.value.func).split('.')[-1] == 'flip':
                ax = [k.value for k in st.value.keywords if k.arg == 'axis']
                rec['flip'] = const_value(ax[0]) if ax else None
            elif isinstance(st, ast.Expr) and isinstance(st.value, ast.Constant):
                pass
            else:
                raise AnalysisError(f'_prepare_keys statement `{norm(st)[:50]}` not modelled')
    n = 0
    bad = []
    for mode in ('encrypt', 'decrypt'):
        for klen in (8, 16, 24, 128, 256, 384):
            unit = 8 if klen <= 24 else 128
            nkeys = klen // unit
            passes = 1 if nkeys == 1 else 3
            for p in range(passes):
                env = {var: p, 'self.mode': mode, 'key.shape[-1]': klen}
                rec = {}
                run_block(loop.body, env, rec)
                n += 1
                # FIPS 46-3 TDES: encrypt = E_K3(D_K2(E_K1)), decrypt = D_K1(E_K2(D_K3)); K3 = K1 for two keys.
                order = [0, 1, 2 if nkeys == 3 else 0] if mode == 'encrypt' else [2 if nkeys == 3 else 0, 1, 0]
                want_part = (order[p] * unit, (order[p] + 1) * unit) if passes == 3 else (0, unit)
                decrypting = (mode == 'encrypt' and p == 1) or (mode == 'decrypt' and p != 1)
                want_flip = 1 if decrypting else None
                if rec.get('part') != want_part or rec.get('flip') != want_flip or rec.get('schedule') != (unit == 8):
                    bad.append((mode, klen, p, rec, want_part, want_flip))
    key = f'{f.key}::EDE truth table'
    if bad:
        mode, klen, p, rec, wp, wf = bad[0]
        ctx.fail('C06-D5', key, f'{mode}, {klen}-byte key, pass {p}: uses key bytes {rec.get("part")} reversed={rec.get("flip") == 1}; FIPS 46-3 EDE requires bytes {wp} reversed={wf == 1} '
                                f'({len(bad)} of {n} table rows differ)', f.where(), rows=n)
    else:
        ctx.ok('C06-D5', key, f'all {n} rows (mode x key length x pass) select the key part and round-key direction of E-D-E / D-E-D', f.where(), rows=n)
    return n


def d6(ctx, prog, modname, rule):
    effs = {}
    n = 0
    for f in prog.funcs_in(modname):
        if f.parent is not None:
            continue
        eff = effs.setdefault(f.cls.key if f.cls else None, alias.Effects(prog, f.cls))
        for st, desc, cl in eff.writes(f):
            n += 1
            key = f'{f.key}::{norm(st)[:90]}'
            if cl == alias.FRESH:
                ctx.ok(rule, key, f'{desc}: storage allocated in this call', f.where(st))
            elif cl == alias.UNKNOWN or cl is None:
                ctx.undecided(rule, key, f'{desc}: cannot classify the written storage', f.where(st))
            else:
                roots = set(cl[1])
                if roots and all(r.startswith('self.') for r in roots):
                    ctx.ok(rule, key, f'{desc}: instance scratch attribute', f.where(st))
                elif f.name == '_prepare_rounds' and roots == {'param:operations'}:
                    ctx.ok(rule, key, f'{desc}: judged by the template-ownership clause', f.where(st))
                else:
                    ctx.fail(rule, key, f'{desc}: modifies storage the caller passed in ({sorted(roots)})', f.where(st))
    return n


def run(ctx, prog):
    ctx.rule('C06-D1', 'SBOXES literal == FIPS 46-3 S1..S8 re-indexed to 6-bit direct order (512 entries)')
    ctx.rule('C06-D2', 'bit provenance of IP, IP^-1, E, P, P^-1 equals the FIPS tables; sboxes applies table k to word k; add_round_key is xor')
    ctx.rule('C06-D3', 'templates: position discipline, IP/FP/swap placement, core steps, exhaustive dispatcher, inclusive stop point')
    ctx.rule('C06-D3\'', 'symbolic half-block term of every template x stop step equals the FIPS 46-3 round function value')
    ctx.rule('C06-D4', 'stop-point surgery writes only a private slice copy; class-level templates are never written; every step sequence is evaluable (typestate of the state buffer)')
    ctx.rule('C06-D5', 'EDE key order truth table over (mode, key length, pass)')
    ctx.rule('C06-D6', 'no in-place effect reaches a caller-owned array')
    ctx.assume('whole-cipher composition over 16 rounds x 3 passes for every stop point is the run of the list surgery on run-time integers: the ingredients are decided, not the run')
    ctx.assume('FIPS 46-3 tables in spec/fips.py (typed from the standard, cross-validated against pycryptodome by selftest)')
    d1(ctx, prog)
    nbits = d2(ctx, prog)
    steps, ci, tpl, disp = d3(ctx, prog)
    n3 = d3prime(ctx, prog, steps, ci, tpl, disp)
    d4(ctx, prog, ci)
    n5 = d5(ctx, prog, ci)
    n6 = d6(ctx, prog, D, 'C06-D6')
    ctx.floor('permutation output bits decided', nbits, 64 + 64 + 48 + 32 + 32)
    ctx.floor('template x stop-step terms', n3, 40)
    ctx.floor('EDE truth table rows', n5, 28)
    ctx.floor('in-place effects judged (des)', n6, 10)
