"""C18 - preprocesses: promoted before arithmetic, row independent, decorator contract.

D1 promotion      in every preprocess entry point, arithmetic on traces-derived values happens only after promotion
                  (.astype(D) / ufunc dtype=D / the other operand is a float computed with dtype=D / an FFT came first);
                  helper functions are judged with the promotion state of the arguments at each call site.
D2 join           the promotion dtype D is the join of the traces dtype and the precision (numpy.result_type /
                  promote_types), never the builtin max() (dtype ordering is partial: max returns its first argument for
                  incomparable pairs such as int32 / float32).
D3 row wise       outside the documented batch-statistics set no reduction over axis 0 / the whole array, no first-axis
                  indexing other than ':' and no FFT along axis 0 touches a traces-derived value.
D4 contract       the preprocess decorator refuses non-2-D input / output and a changed first dimension; the metaclass wraps
                  every subclass __call__ with it.
"""
import ast

from .. import astutil, kernels
from ..model import norm, AnalysisError, const_value, self_attr

MODS = ['scared.preprocesses.first_order', 'scared.preprocesses.high_order._base', 'scared.preprocesses.high_order.standard',
        'scared.preprocesses.high_order.time_freq']
JOIN_FUNCS = {'result_type', 'promote_types', 'find_common_type'}
# documented batch statistics (docstrings: "mean of all traces", "If mean is not provided ... processed on traces",
# "centered / standardized mode: a centering / standardizing preprocess is applied")
BATCH_STATS = {'scared.preprocesses.first_order:center', 'scared.preprocesses.first_order:standardize',
               'scared.preprocesses.first_order:StandardizeOn.__call__', 'scared.preprocesses.first_order:_center'}
ARITH_UFUNCS = {'square', 'power', 'multiply', 'subtract', 'add', 'divide', 'true_divide', 'negative', 'cumsum', 'cumprod', 'prod'}
REDUCERS = {'sum', 'nansum', 'mean', 'nanmean', 'std', 'nanstd', 'var', 'nanvar', 'max', 'min', 'nanmax', 'nanmin', 'median',
            'average', 'ptp', 'argmax', 'argmin', 'cumsum', 'sort', 'argsort', 'percentile'}
RAW, WIDE, OTHER = 'raw', 'wide', 'other'


def entry_points(prog):
    base = prog.need_class('scared.preprocesses._base', 'Preprocess')
    out = []
    for modname in MODS:
        for f in prog.funcs_in(modname):
            if f.parent is not None:
                continue
            decs = [d for d, c in prog.decorators(f)]
            if any(d.endswith('._base.preprocess') or d.endswith('.preprocess') for d in decs):
                out.append(f)
            elif f.cls is not None and f.name in ('__call__', '_operation') and base in prog.mro(f.cls):
                out.append(f)
            elif f.cls is None and f.mod.name.endswith('standard') and f.name in ('_product', '_difference'):
                out.append(f)
            elif f.cls is None and f.name in ('_fht',):
                out.append(f)
    return out


class Promo:
    """abstract evaluation of one function: values are raw / wide / other"""

    def __init__(self, ctx, prog, f, env, depth=0, report=True):
        self.ctx, self.prog, self.f, self.env, self.depth, self.report = ctx, prog, f, dict(env), depth, report
        self.joins = set()      # locals holding a proper join dtype
        self.bad_joins = {}     # locals holding max(...) of dtypes
        self.n = 0

    def dtype_ok(self, e):
        """is expression e a join-computed promotion dtype? True / False(max) / None(other)"""
        if isinstance(e, ast.Name):
            if e.id in self.joins:
                return True
            if e.id in self.bad_joins:
                return False
            return None
        if isinstance(e, ast.Call):
            last = norm(e.func).split('.')[-1]
            if last in JOIN_FUNCS:
                return True
            if norm(e.func) == 'max' and any('dtype' in norm(a) or 'precision' in norm(a) for a in e.args):
                return False
        if isinstance(e, ast.Constant) and isinstance(e.value, str) and e.value.startswith(('float', 'complex')):
            return True
        return None

    def val(self, e):
        if isinstance(e, ast.Name):
            return self.env.get(e.id, OTHER)
        if isinstance(e, ast.Constant):
            return OTHER
        if isinstance(e, ast.Attribute):
            if e.attr == 'T':
                return self.val(e.value)
            if e.attr in ('shape', 'dtype', 'ndim'):
                return OTHER
            if isinstance(e.value, ast.Name) and e.value.id == 'self':
                return OTHER
            return self.val(e.value)
        if isinstance(e, ast.Subscript):
            return self.val(e.value)
        if isinstance(e, ast.IfExp):
            vs = {self.val(e.body), self.val(e.orelse)}
            return RAW if RAW in vs else (WIDE if vs == {WIDE} else OTHER)
        if isinstance(e, ast.UnaryOp):
            return self.val(e.operand)
        if isinstance(e, ast.BinOp):
            l, r = self.val(e.left), self.val(e.right)
            if RAW in (l, r):
                if WIDE in (l, r):
                    return WIDE
                self.sink(e, f'`{norm(e)[:60]}`: arithmetic on unpromoted traces values (integer traces wrap around, narrow floats lose precision)')
                return RAW
            return WIDE if WIDE in (l, r) else OTHER
        if isinstance(e, (ast.Tuple, ast.List)):
            vs = {self.val(x) for x in e.elts}
            return RAW if RAW in vs else (WIDE if WIDE in vs else OTHER)
        if isinstance(e, ast.Call):
            return self.call(e)
        if isinstance(e, ast.Lambda):
            return OTHER
        return OTHER

    def sink(self, node, detail, ok=False):
        self.n += 1
        if not self.report:
            return
        key = f'{self.f.key}::{norm(node)[:100]}'
        (self.ctx.ok if ok else self.ctx.fail)('C18-D1', key, detail, self.f.where(node))

    def call(self, e):
        fn = e.func
        d = self.prog.dotted(self.f.mod, fn) if isinstance(fn, (ast.Name, ast.Attribute)) else None
        last = (d or norm(fn)).split('.')[-1]
        dt = next((k.value for k in e.keywords if k.arg == 'dtype'), None)
        args = [self.val(a) for a in e.args]
        if isinstance(fn, ast.Attribute) and fn.attr == 'astype':
            recv = self.val(fn.value)
            ok = self.dtype_ok(e.args[0]) if e.args else None
            if ok is True:
                return WIDE if recv in (RAW, WIDE) else OTHER
            return recv
        if d and d.startswith('numpy'):
            if '.fft.' in d or last in ('fft', 'rfft', 'irfft', 'ifft'):
                return WIDE
            if dt is not None and self.dtype_ok(dt) is True:
                if RAW in args and last in ARITH_UFUNCS:
                    self.sink(e, f'`{norm(e)[:60]}`: computed with a joined promotion dtype', ok=True)
                return WIDE
            if last in ARITH_UFUNCS and RAW in args and WIDE not in args:
                self.sink(e, f'`{norm(e)[:60]}`: arithmetic ufunc on unpromoted traces values' +
                          (' (its dtype argument is not a join of the traces dtype and the precision)' if dt is not None else ''))
                return RAW
            if last in ('nanmean', 'nanstd', 'mean', 'std', 'var', 'nanvar') and dt is None:
                return WIDE if (RAW in args or WIDE in args) else OTHER      # float result (numpy computes means in float)
            if last in ('abs', 'absolute', 'real', 'imag', 'conjugate', 'hstack', 'vstack', 'concatenate', 'copy', 'asarray', 'empty', 'zeros'):
                return RAW if RAW in args else (WIDE if WIDE in args else OTHER)
            if last == 'unpackbits':
                return OTHER
            return WIDE if WIDE in args else (RAW if RAW in args else OTHER)
        # repository helper / entry point called with traces-derived arguments: judge it with these argument states
        callee = None
        if isinstance(fn, ast.Attribute) and norm(fn.value) == 'self' and self.f.cls is not None:
            callee = self.prog.resolve_method(self.f.cls, fn.attr)
            if callee is None and fn.attr in ('_operation', '_preprocess'):
                # bound at construction: judged separately as entry points; its result has the widest argument state
                return WIDE if WIDE in args else (RAW if RAW in args else OTHER)
        elif d:
            r = self.prog.resolve(self.f.mod, fn)
            if r and r[0] == 'func':
                callee = r[1]
        if callee is not None and self.depth < 3:
            params = [p for p in callee.params if p not in ('self', 'cls')]
            env = {}
            for i, a in enumerate(e.args):
                if i < len(params):
                    env[params[i]] = args[i]
            for k in e.keywords:
                if k.arg:
                    env[k.arg] = self.val(k.value)
            sub = Promo(self.ctx, self.prog, callee, env, self.depth + 1, self.report)
            r = sub.run()
            self.n += sub.n
            return r
        if isinstance(fn, ast.Name) and fn.id in self.env and False:
            return OTHER
        return WIDE if WIDE in args else (RAW if RAW in args else OTHER)

    def run(self):
        ret = OTHER
        rets = []
        for st in astutil.stmts_of(self.f.node):
            if isinstance(st, ast.Assign):
                v = st.value
                if len(st.targets) == 1 and isinstance(st.targets[0], ast.Name):
                    name = st.targets[0].id
                    ok = self.dtype_ok(v)
                    if ok is True and isinstance(v, ast.Call):
                        self.joins.add(name)
                        continue
                    if ok is False:
                        self.bad_joins[name] = st
                        continue
                val = self.val(v)
                for t in st.targets:
                    for tt in (t.elts if isinstance(t, ast.Tuple) else [t]):
                        if isinstance(tt, ast.Name):
                            self.env[tt.id] = val
            elif isinstance(st, ast.AugAssign):
                val = self.val(ast.BinOp(left=st.target, op=st.op, right=st.value))
            elif isinstance(st, ast.Return) and st.value is not None:
                rets.append(self.val(st.value))
            elif isinstance(st, ast.Expr):
                self.val(st.value)
        if rets:
            ret = RAW if RAW in rets else (WIDE if WIDE in rets else OTHER)
        return ret


def d1(ctx, prog, eps):
    total = 0
    for f in eps:
        params = [p for p in f.params if p not in ('self', 'cls')]
        if not params:
            continue
        if f.name in ('_operation', '_product', '_difference', '_fht') or f.key.endswith(':_center'):
            # helpers that receive already-selected chunks: judged at their call sites (inlined) - and, for the operation
            # slots bound at construction, with promoted arguments as every combination __call__ passes them
            env = {p: WIDE for p in params}
        else:
            env = {params[0]: RAW}
        pr = Promo(ctx, prog, f, env)
        pr.run()
        total += pr.n
        if pr.n == 0:
            ctx.ok('C18-D1', f'{f.key}::no raw arithmetic', 'no arithmetic on unpromoted traces values')
    # the combination classes hand promoted chunks to the operation slot
    for f in eps:
        if f.name == '__call__' and f.cls is not None:
            for c in ast.walk(f.node):
                if isinstance(c, ast.Call) and isinstance(c.func, ast.Attribute) and c.func.attr == '_operation' and norm(c.func.value) == 'self':
                    pr = Promo(ctx, prog, f, {[p for p in f.params if p != 'self'][0]: RAW}, report=False)
                    pr.run()
                    states = [pr.val(a) for a in c.args]
                    fft_family = 'time_freq' in f.mod.name
                    ctx.check(RAW not in states or fft_family, 'C18-D1', f'{f.key}::{norm(c)[:90]}',
                              f'the combination operation receives unpromoted chunks {states}: its product/difference wraps for integer traces',
                              f'operation receives {states} chunks' + (' (FFT based: promoted by the transform)' if fft_family else ''), f.where(c))
    return total


def d2(ctx, prog, eps=()):
    n = 0
    seen = set()
    helper_keys = {h for f in eps for h in getattr(f, 'inlined_helpers', [])}
    for modname in MODS:
        for f in list(prog.funcs_in(modname)):
            if f.key in helper_keys:
                continue          # judged inlined at its call sites
            f = next((e for e in eps if e.key == f.key), f)
            for c in ast.walk(f.node):
                if isinstance(c, ast.Call) and norm(c.func) == 'max' and any('dtype' in norm(a) for a in c.args):
                    n += 1
                    ctx.fail('C18-D2', f'{f.key}::{norm(c)[:80]}', 'promotion dtype computed with the builtin max(): dtype ordering is the partial order "can be cast '
                             'safely", so for incomparable pairs (int32/uint32/int64 vs float32) max() returns its first argument and the arithmetic stays in the integer type', f.where(c))
                elif isinstance(c, ast.Call) and norm(c.func).split('.')[-1] in JOIN_FUNCS:
                    n += 1
                    ok = any('dtype' in norm(a) for a in c.args)
                    ctx.check(ok, 'C18-D2', f'{f.key}::{norm(c)[:80]}', 'the join does not include the traces dtype', 'promotion dtype = join(traces dtype, precision)', f.where(c))
    return n


def traces_derived(f):
    """names derived from the first (traces) parameter by slicing / casting / elementwise functions"""
    params = [p for p in f.params if p not in ('self', 'cls')]
    der = set(params[:1]) if f.name not in ('_operation', '_product', '_difference', '_fht', '_center') else set(params)
    for _ in range(3):
        for st in astutil.stmts_of(f.node):
            if isinstance(st, ast.Assign):
                if astutil.names_read(st.value) & der:
                    for t in st.targets:
                        for tt in (t.elts if isinstance(t, ast.Tuple) else [t]):
                            if isinstance(tt, ast.Name):
                                der.add(tt.id)
    return der


def d3(ctx, prog, eps):
    n = 0
    for f in eps:
        der = traces_derived(f)
        exempt = f.key in BATCH_STATS
        found = False
        for c in ast.walk(f.node):
            node = None
            detail = None
            if isinstance(c, ast.Call):
                last = norm(c.func).split('.')[-1]
                is_np = isinstance(c.func, ast.Attribute) and isinstance(c.func.value, ast.Name) and c.func.value.id in ('_np', 'np', 'numpy')
                target = None
                if last in REDUCERS and is_np and c.args:
                    target = c.args[0]
                elif last in REDUCERS and isinstance(c.func, ast.Attribute) and not is_np:
                    target = c.func.value
                if target is not None and astutil.names_read(target) & der:
                    ax = next((k.value for k in c.keywords if k.arg == 'axis'), None)
                    if ax is None and is_np and len(c.args) > 1:
                        ax = c.args[1]
                    if ax is None and not is_np and c.args:
                        ax = c.args[0]
                    a = const_value(ax) if ax is not None else None
                    if ax is None or a == 0:
                        node, detail = c, f'`{norm(c)[:60]}` reduces over the trace axis (axis={a if ax is not None else "None"}): row r of the output depends on the other rows of the batch'
                if ('fft' in norm(c.func)) and c.args and astutil.names_read(c.args[0]) & der:
                    ax = next((k.value for k in c.keywords if k.arg == 'axis'), None)
                    if ax is not None and const_value(ax) == 0:
                        node, detail = c, f'`{norm(c)[:60]}` transforms along the trace axis'
            elif isinstance(c, ast.Subscript) and isinstance(c.value, ast.Name) and c.value.id in der:
                first = c.slice.elts[0] if isinstance(c.slice, ast.Tuple) and c.slice.elts else c.slice
                full = isinstance(first, ast.Slice) and first.lower is None and first.upper is None and first.step is None
                ell = isinstance(first, ast.Constant) and first.value is Ellipsis
                if not full and not ell:
                    node, detail = c, f'`{norm(c)[:60]}` selects along the trace axis (first index is not `:`): rows are dropped, reordered or mixed'
            if node is not None:
                n += 1
                found = True
                key = f'{f.key}::{norm(node)[:100]}'
                if exempt:
                    ctx.ok('C18-D3', key, 'batch statistic in a function documented as batch mean/std centering', f.where(node))
                else:
                    ctx.fail('C18-D3', key, detail, f.where(node))
        if not found:
            n += 1
            ctx.ok('C18-D3', f'{f.key}::row wise', 'no reduction / selection / transform along the trace axis')
    return n


def d4(ctx, prog):
    f = prog.need_func('scared.preprocesses._base', 'preprocess')
    inner = [g for g in prog.funcs if g.parent is f]
    if len(inner) != 1:
        raise AnalysisError('preprocess decorator: inner wrapper not found')
    from .. import inline
    g = inline.inlined(prog, inner[0])
    p = g.params[0]
    # every path that returns a value does so under: input 2-D, output 2-D, output rows = input rows (whatever the shape of the
    # refusals: guard clauses, an if/elif chain with one raise site, ...)
    from .. import normalize
    paths = astutil.return_paths(g.node)
    rpaths = [(normalize.conjuncts(gs), e) for gs, e in (paths or []) if e is not None]
    R = f'function({p})'
    want = {'refuses non 2-D input': (f'{p}.ndim', '2'), 'refuses non 2-D output': (f'{R}.ndim', '2'), 'refuses a changed number of traces': (f'{R}.shape[0]', f'{p}.shape[0]')}

    def holds(conj, lhs, rhs):
        for t, pol in conj:
            if isinstance(t, ast.Compare) and len(t.ops) == 1:
                a, b = norm(t.left).replace(' ', ''), norm(t.comparators[0]).replace(' ', '')
                if {a, b} == {lhs, rhs} and ((isinstance(t.ops[0], ast.NotEq) and not pol) or (isinstance(t.ops[0], ast.Eq) and pol)):
                    return True
        return False
    if not rpaths:
        ctx.undecided('C18-D4', f'{g.key}::return paths', 'the paths on which the wrapper returns were not derived', g.where())
    for what, (lhs, rhs) in want.items():
        if rpaths:
            ctx.check(all(holds(c_, lhs, rhs) for c_, e_ in rpaths), 'C18-D4', f'{g.key}::{what}', f'the preprocess decorator no longer {what} (a returning path is not conditional on `{lhs} == {rhs}`)', what, g.where())
    if rpaths:
        ctx.check(all(norm(e_) == R for c_, e_ in rpaths), 'C18-D4', f'{g.key}::returns the result', 'the wrapper returns something else than what the wrapped function returned', 'the wrapper returns the function result', g.where())
    calls = [c for c in ast.walk(g.node) if isinstance(c, ast.Call) and isinstance(c.func, ast.Name) and c.func.id == 'function']
    ctx.check(len(calls) == 1 and [norm(a) for a in calls[0].args] == [p], 'C18-D4', f'{g.key}::calls function', 'the wrapped function is not called exactly once with the traces',
              'wrapped function called once with the traces', g.where())
    meta = prog.need_class('scared.preprocesses._base', '_MetaPreprocess')
    new = meta.methods.get('__new__')
    ok = False
    if new is not None:
        txt = norm(new.node).replace(' ', '')
        ok = 'cls.__call__=abc.abstractmethod(pre_call)' in txt or 'cls.__call__=pre_call' in txt
        pre = [h for h in prog.funcs if h.parent is new and h.name == 'pre_call']
        ok = ok and bool(pre) and any(d.endswith('preprocess') for h in prog.funcs if h.parent in pre for d, c in prog.decorators(h))
    ctx.pattern(ok, 'C18-D4', f'{meta.key}::wraps __call__', 'the metaclass does not wrap every subclass __call__ with the preprocess decorator',
              'every Preprocess subclass __call__ is wrapped by the decorator', meta.mod.relpath)


def d5(ctx, prog):
    """frame configuration pass-through: a frame given as a list / tuple / array reaches the indexing unchanged.  Every path of
    `_set_frame` on which the frame is neither a slice nor an int must store the caller's object itself (or an order-preserving
    copy); a slice becomes range(start or 0, stop, step or 1) and an int the one-element list."""
    HO = 'scared.preprocesses.high_order._base'
    ci = prog.need_class(HO, '_BaseCombination')
    f = ci.methods.get('_set_frame')
    if f is None:
        raise AnalysisError('_BaseCombination._set_frame not found')
    fr = f.params[-1]
    pm = astutil.parents(f.node)

    def kind(node):
        """'slice' / 'int' when the statement is control dependent on isinstance(frame, slice/int) being true, else 'other'"""
        for t, pos in astutil.guards(node, pm, f.node):
            txt = norm(t).replace(' ', '')
            if pos and txt == f'isinstance({fr},slice)':
                return 'slice'
            if pos and txt == f'isinstance({fr},int)':
                return 'int'
        return 'other'

    def elementwise_guard(node):
        return any(any(isinstance(c, ast.Call) and norm(c.func).split('.')[-1] in ('all', 'array_equal', 'diff') for c in ast.walk(t)) for t, pos in astutil.guards(node, pm, f.node))
    SAME = ('list', 'tuple', 'asarray', 'array', 'copy')
    n = 0
    values = []       # (kind, value expr, node)
    for st in ast.walk(f.node):
        if isinstance(st, ast.Call) and norm(st.func) == 'setattr' and len(st.args) == 3:
            values.append((kind(st), st.args[2], st))
        elif isinstance(st, ast.Assign) and len(st.targets) == 1 and norm(st.targets[0]) == fr:
            values.append((kind(st), st.value, st))
    stores = [v for v in values if isinstance(v[2], ast.Call)]
    if not stores:
        ctx.undecided('C18-D5', f'{f.key}::store', 'no setattr store of the frame found', f.where())
        return 0
    for k, v, node in values:
        key = f'{f.key}::{k} frame::{norm(node)[:70]}'
        n += 1
        if k == 'other':
            if norm(v) == fr:
                ctx.ok('C18-D5', key, 'a list / array frame is stored as given', f.where(node))
            elif isinstance(v, ast.Call) and norm(v.func).split('.')[-1] in SAME and len(v.args) == 1 and norm(v.args[0]) == fr:
                ctx.ok('C18-D5', key, 'a list / array frame is stored as an order-preserving copy', f.where(node))
            elif elementwise_guard(node):
                ctx.undecided('C18-D5', key, f'frame replaced by `{norm(v)[:50]}` under an element-wise test: equivalence not decidable here', f.where(node))
            else:
                ctx.fail('C18-D5', key, f'a frame that is neither a slice nor an int is replaced by `{norm(v)[:60]}`, a value computed from it: the samples combined (and their order) '
                         f'are no longer the ones the caller listed (unsorted or repeated indexes)', f.where(node))
        elif k == 'int':
            ctx.check(norm(v).replace(' ', '') == f'[{fr}]' or norm(v) == fr and False, 'C18-D5', key, f'an int frame becomes `{norm(v)[:40]}`, not the one-element list [{fr}]', 'int frame -> [frame]', f.where(node))
        else:
            ok = isinstance(v, ast.Call) and norm(v.func) == 'range' and len(v.args) == 3
            if ok:
                a, b, c = [norm(x).replace(' ', '') for x in v.args]
                ok = a in (f'{fr}.startif{fr}.startelse0', f'{fr}.startor0', f'0if{fr}.startisNoneelse{fr}.start') and b == f'{fr}.stop' \
                    and c in (f'{fr}.stepif{fr}.stepelse1', f'{fr}.stepor1', f'1if{fr}.stepisNoneelse{fr}.step')
            ctx.pattern(ok, 'C18-D5', key, f'slice frame becomes `{norm(v)[:60]}`', 'slice frame -> range(start or 0, stop, step or 1)', f.where(node))
    # the stored frames are what indexes the sample axis
    uses = 0
    from .. import inline
    for g in prog.funcs_in(HO):
        g = inline.inlined(prog, g)
        for sub in ast.walk(g.node):
            if isinstance(sub, ast.Subscript) and isinstance(sub.slice, ast.Tuple) and len(sub.slice.elts) == 2 and isinstance(sub.slice.elts[0], ast.Slice) \
                    and norm(sub.slice.elts[1]) in ('self.frame_1', 'self.frame_2', 'frame_1', 'frame_2'):
                uses += 1
    ctx.check(uses >= 4, 'C18-D5', f'{HO}::frames index the sample axis', f'only {uses} uses of the stored frames as sample-axis index found', f'{uses} uses `traces[:, frame]`: all rows, listed samples in listed order', ci.mod.relpath)
    return n


def d6(ctx, prog):
    """which pair set a two-frame combination enumerates is decided by whether the caller *gave* a second frame: the flag that
    switches the pair loop between "all pairs i <= j of one frame" and "frame_1 x frame_2" must be the None-test of the
    constructor's frame_2 argument, taken before that argument is defaulted - not a comparison of frame contents (an explicit
    frame_2 equal to frame_1 asks for the full product)."""
    HO = 'scared.preprocesses.high_order._base'
    ci = prog.need_class(HO, '_CombinationOfTwoFrames')
    call, setf = ci.methods.get('__call__'), ci.methods.get('_set_frames')
    if call is None or setf is None:
        raise AnalysisError('_CombinationOfTwoFrames.__call__/_set_frames not found')
    # the flag: a self attribute tested in __call__ to choose the slice `[:, i:]` (triangular) versus the whole second chunk
    flags = set()
    from .. import inline
    call = inline.inlined(prog, call)          # the two enumerations may live in helper methods selected by the flag
    ldefs = astutil.local_defs(call.node)

    def triangular(nodes):
        return any(isinstance(s, ast.Subscript) and isinstance(s.slice, ast.Tuple) and len(s.slice.elts) == 2 and isinstance(s.slice.elts[1], ast.Slice)
                   and s.slice.elts[1].lower is not None and s.slice.elts[1].upper is None for b in nodes for s in ast.walk(b))
    for n in ast.walk(call.node):
        if isinstance(n, ast.If) and triangular(n.body + n.orelse):
            flags |= astutil.self_attrs_read(astutil.expand_locals(n.test, ldefs))
        elif isinstance(n, ast.IfExp) and triangular([n.body, n.orelse]):
            flags |= astutil.self_attrs_read(astutil.expand_locals(n.test, ldefs))
    key = f'{ci.key}::pair-set switch'
    if not flags:
        # another shape of the two enumerations (span tables, helper plans): the switch is the attribute tested in __call__ that
        # _set_frames derives from its second-frame parameter (and that is not the stored frame itself)
        p2_ = setf.params[2] if len(setf.params) > 2 else None
        derived = {self_attr(s_.targets[0]) for s_ in ast.walk(setf.node) if isinstance(s_, ast.Assign) and len(s_.targets) == 1 and self_attr(s_.targets[0])
                   and p2_ is not None and any(isinstance(x_, ast.Name) and x_.id == p2_ for x_ in ast.walk(s_.value))} - {'frame_1', 'frame_2'}
        tested = set()
        for n in ast.walk(call.node):
            if isinstance(n, (ast.If, ast.IfExp)):
                tested |= astutil.self_attrs_read(astutil.expand_locals(n.test, ldefs))
        flags = derived & tested
    if len(flags) != 1:
        ctx.undecided('C18-D6', key, f'the switch between triangular and full pair enumeration was not identified (candidates {sorted(flags)})', call.where())
        return 0
    flag = next(iter(flags))
    p2 = setf.params[2] if len(setf.params) > 2 else None
    defs = [s for f in ci.methods.values() for s in ast.walk(f.node) if isinstance(s, ast.Assign) and self_attr(s.targets[0]) == flag]
    if len(defs) != 1 or p2 is None:
        ctx.undecided('C18-D6', key, f'self.{flag} is defined {len(defs)} times', ci.mod.relpath)
        return 0
    d = defs[0]
    txt = norm(d.value).replace(' ', '')
    # position: before any rebinding of the parameter
    body = list(setf.node.body)
    idx = next((i for i, st in enumerate(body) if any(x is d for x in ast.walk(st))), None)
    rebound_before = idx is not None and any(isinstance(x, ast.Assign) and any(norm(t) == p2 for t in x.targets) for st in body[:idx] for x in ast.walk(st))
    if txt in (f'{p2}isNone', f'Noneis{p2}'):
        ctx.check(idx is not None and not rebound_before, 'C18-D6', key, f'self.{flag} tests `{p2} is None` after `{p2}` was given its default: it is always false and the one-frame pair set is never used',
                  f'self.{flag} = ({p2} is None), taken on the caller\'s argument before it is defaulted', setf.where(d))
    elif any(isinstance(c, ast.Call) and norm(c.func).split('.')[-1] in ('array_equal', 'all', 'allclose', 'array_equiv') for c in ast.walk(d.value)) or \
            (isinstance(d.value, ast.Compare) and any(isinstance(o, (ast.Eq, ast.Is)) for o in d.value.ops) and 'frame' in txt and 'None' not in txt):
        ctx.fail('C18-D6', key, f'self.{flag} = `{norm(d.value)[:70]}` compares the frames themselves: an explicit frame_2 that designates the same points as frame_1 gets the '
                 f'triangular i <= j pair set instead of the documented frame_1 x frame_2', setf.where(d) if d in list(ast.walk(setf.node)) else ci.mod.relpath)
    else:
        ctx.undecided('C18-D6', key, f'self.{flag} = `{norm(d.value)[:70]}` not understood', ci.mod.relpath)
    return 1


def operand_label(prog, f, e, env, depth=0):
    """which frame's points an expression is made of: {'1'}, {'2'}, both or none"""
    lab = lambda x: operand_label(prog, f, x, env, depth)     # noqa: E731
    if isinstance(e, ast.Name):
        if e.id in env:
            return env[e.id]
        if e.id in f.params and e.id.endswith('_1'):
            return {'1'}
        if e.id in f.params and e.id.endswith('_2'):
            return {'2'}
        return set()
    if isinstance(e, ast.Attribute):
        if norm(e) == 'self.frame_1':
            return {'1'}
        if norm(e) == 'self.frame_2':
            return {'2'}
        if e.attr in ('shape', 'ndim', 'dtype', 'size'):
            return set()
        return lab(e.value)
    if isinstance(e, ast.Subscript):
        return lab(e.value) | lab(e.slice)
    if isinstance(e, ast.Slice):
        return set()           # bounds select *which* points of the operand, not which operand
    if isinstance(e, ast.Tuple):
        out = set()
        for x in e.elts:
            out |= lab(x)
        return out
    if isinstance(e, ast.IfExp):
        return lab(e.body) | lab(e.orelse)
    if isinstance(e, (ast.GeneratorExp, ast.ListComp)):
        return lab(e.elt)
    if isinstance(e, ast.Call):
        if isinstance(e.func, ast.Attribute) and norm(e.func.value) == 'self' and f.cls is not None and depth < 2:
            g = prog.resolve_method(f.cls, e.func.attr)
            if g is not None and g.name != '_operation':
                bind = {}
                ps = [p_ for p_ in g.params if p_ != 'self']
                for p_, a_ in zip(ps, e.args):
                    bind[p_] = lab(a_)
                for k_ in e.keywords:
                    if k_.arg:
                        bind[k_.arg] = lab(k_.value)
                genv = operand_env(prog, g, bind, depth + 1)
                out = set()
                for r in ast.walk(g.node):
                    if isinstance(r, ast.Return) and r.value is not None:
                        out |= operand_label(prog, g, r.value, genv, depth + 1)
                return out
        if isinstance(e.func, ast.Attribute) and e.func.attr in ('astype', 'copy', 'transpose', 'swapaxes', 'reshape', 'squeeze') and norm(e.func.value) not in ('_np', 'np', 'numpy'):
            return lab(e.func.value)
        if isinstance(e.func, ast.Name) and e.func.id in ('enumerate', 'list', 'tuple', 'iter', 'reversed') and e.args:
            return lab(e.args[0])
        if isinstance(e.func, ast.Name) and e.func.id in ('range', 'len', 'min', 'max', 'sum', 'int'):
            return set()
        out = set()
        for x in e.args:
            out |= lab(x)
        return out
    if isinstance(e, ast.BinOp):
        return lab(e.left) | lab(e.right)
    return set()


def operand_env(prog, f, bind, depth=0):
    env = dict(bind)

    def store(t, v):
        if isinstance(t, ast.Name):
            env[t.id] = env.get(t.id, set()) | v
        elif isinstance(t, (ast.Tuple, ast.List)):
            for x in t.elts:
                store(x, v)
    for _ in range(2):
        for st in ast.walk(f.node):
            if isinstance(st, ast.Assign):
                v = operand_label(prog, f, st.value, env, depth)
                for t in st.targets:
                    store(t, v)
            elif isinstance(st, ast.For):
                v = operand_label(prog, f, st.iter, env, depth)
                if isinstance(st.iter, ast.Call) and isinstance(st.iter.func, ast.Name) and st.iter.func.id == 'enumerate' and isinstance(st.target, ast.Tuple) and len(st.target.elts) == 2:
                    store(st.target.elts[1], v)      # the counter carries no points
                elif isinstance(st.iter, ast.Call) and isinstance(st.iter.func, ast.Name) and st.iter.func.id == 'range':
                    pass
                else:
                    store(st.target, v)
    return env


def d7(ctx, prog):
    """operand order of the combinations: wherever a combination class applies its operation, the first operand is taken from
    the points of frame_1 (chunk_1) and the second from those of frame_2 (chunk_2) - for a non-symmetric operation (Difference)
    the other order returns the negated value.  Forward provenance through locals, slices, transpositions and casts."""
    HO = 'scared.preprocesses.high_order._base'
    n = 0
    for f in prog.funcs_in(HO):
        if f.cls is None:
            continue
        calls = [c for c in ast.walk(f.node) if isinstance(c, ast.Call) and norm(c.func) == 'self._operation']
        if not calls:
            continue
        env = operand_env(prog, f, {})
        lab = lambda e: operand_label(prog, f, e, env)     # noqa: E731
        # a call site inside a shared helper method stands for each place the helper is called from
        weight = max(1, sum(1 for g in prog.funcs_in(HO) for c_ in ast.walk(g.node) if isinstance(c_, ast.Call) and norm(c_.func) == f'self.{f.name}'))
        for c in calls:
            n += weight
            key = f'{f.key}::{norm(c)[:70]}'
            if len(c.args) != 2 or c.keywords:
                ctx.undecided('C18-D7', key, 'operation not called with two positional operands', f.where(c))
                continue
            a, b = lab(c.args[0]), lab(c.args[1])
            if a == b and a:
                # both operands are points of the same frame (distance mode): the first is the single point i, the second the
                # points i.. that follow it
                ldefs = astutil.local_defs(f.node)

                def is_point(x):
                    x = astutil.expand_locals(x, ldefs)
                    while isinstance(x, ast.Attribute) and x.attr == 'T' or (isinstance(x, ast.Call) and isinstance(x.func, ast.Attribute) and x.func.attr in ('astype', 'copy', 'transpose')):
                        x = x.value if isinstance(x, ast.Attribute) else x.func.value
                    if isinstance(x, ast.Subscript) and isinstance(x.slice, ast.Tuple) and len(x.slice.elts) == 2:
                        return not isinstance(x.slice.elts[1], ast.Slice)
                    return None
                p0, p1 = is_point(c.args[0]), is_point(c.args[1])
                if p0 is True and p1 is not True:
                    ctx.ok('C18-D7', key, 'same frame: first operand is the point i, second the points that follow it', f.where(c))
                elif p1 is True and p0 is not True:
                    ctx.fail('C18-D7', key, f'`{norm(c)[:60]}` applies the operation to (later points, point i): a non-symmetric operation (Difference) returns the negated value in this mode only', f.where(c))
                else:
                    ctx.undecided('C18-D7', key, 'operand order within one frame not derivable', f.where(c))
            elif a == {'1'} and b == {'2'}:
                ctx.ok('C18-D7', key, 'first operand from frame_1, second from frame_2', f.where(c))
            elif a == {'2'} and b == {'1'}:
                ctx.fail('C18-D7', key, f'`{norm(c)[:60]}` applies the operation to (point of frame_2, point of frame_1): a non-symmetric operation (Difference) returns x[j] - x[i], the negated '
                         f'value, in this mode only', f.where(c))
            elif f.cls is not None and getattr(prog, '_c18_d8_ok', {}).get(f.cls.name) is True:
                ctx.ok('C18-D7', key, 'operand order decided by the enumeration on symbolic traces with an uninterpreted, order-sensitive operation (C18-D8)', f.where(c))
            else:
                ctx.undecided('C18-D7', key, f'operand provenance not derivable (first {sorted(a)}, second {sorted(b)})', f.where(c))
    return n


def d9(ctx, prog):
    """first-order preprocesses on a symbolic 3 x 2 batch (sa.symtensor): center = x - column mean, standardize = centred / column
    standard deviation (population), CenterOn / StandardizeOn with given statistics use exactly those, with none the batch ones,
    square = x^2, ToPower(p) = x^p - compared cell by cell with the definitions (normal forms, sign at generic points)."""
    from .. import symtensor, ratfun
    FO = 'scared.preprocesses.first_order'
    np = symtensor.np
    if np is None:
        ctx.undecided('C18-D9', f'{FO}::formulas', 'numpy is not available to the analysis interpreter')
        return 0
    Q = ratfun.Q
    N, S = 3, 2
    x = np.empty((N, S), dtype=object)
    for n_ in range(N):
        for s_ in range(S):
            x[n_, s_] = Q.sym(f'x{n_}{s_}')
    m = np.array([Q.sym('m0'), Q.sym('m1')], dtype=object)
    sd = np.array([Q.sym('d0'), Q.sym('d1')], dtype=object)
    colmean = x.sum(axis=0) / N

    def colstd():
        v = ((x - colmean) * (x - colmean)).sum(axis=0) / N
        return np.frompyfunc(lambda q: q.sqrt(), 1, 1)(v)

    def nanmean(a, k):
        arr, ax = a[0], k.get('axis', a[1] if len(a) > 1 else None)
        return arr.sum(axis=ax) / (arr.shape[ax] if ax is not None else arr.size)

    def nanstd(a, k):
        arr, ax = a[0], k.get('axis', a[1] if len(a) > 1 else None)
        if k.get('ddof', 0) != 0:
            raise ratfun.Unknown('ddof')
        n_ = arr.shape[ax] if ax is not None else arr.size
        mu = arr.sum(axis=ax, keepdims=True) / n_ if ax is not None else arr.sum() / n_
        v = ((arr - mu) * (arr - mu)).sum(axis=ax) / n_
        return np.frompyfunc(lambda q: q.sqrt(), 1, 1)(v) if isinstance(v, np.ndarray) else v.sqrt()
    def nanvar(a, k):
        sd_ = nanstd(a, k)
        return sd_ * sd_
    summ = {'nanmean': nanmean, 'mean': nanmean, 'nanstd': nanstd, 'std': nanstd, 'nanvar': nanvar, 'var': nanvar, 'result_type': lambda a, k: None, 'promote_types': lambda a, k: None,
            'square': lambda a, k: a[0] * a[0], 'power': lambda a, k: a[0] ** a[1], 'dtype': lambda a, k: None}
    pts = [{**{f'x{n_}{s_}': v for (n_, s_), v in zip([(a, b) for a in range(N) for b in range(S)], vals)}, 'm0': 2, 'm1': 5, 'd0': 3, 'd1': 7}
           for vals in ((1, 4, 6, 2, 9, 7), (8, 1, 3, 5, 2, 11))]
    cases = [('func', 'center', {}, x - colmean, 'x - column mean of the batch'),
             ('func', 'standardize', {}, (x - colmean) / colstd(), '(x - column mean) / column standard deviation (population) of the batch'),
             ('func', 'square', {}, x * x, 'x^2'),
             ('cls', 'CenterOn', {'self.mean': m, 'self.precision': None}, x - m, 'x - the given mean'),
             ('cls', 'CenterOn', {'self.mean': None, 'self.precision': None}, x - colmean, 'x - column mean of the batch (no mean given)'),
             ('cls', 'StandardizeOn', {'self.mean': m, 'self.std': sd, 'self.precision': None}, (x - m) / sd, '(x - the given mean) / the given std'),
             ('cls', 'StandardizeOn', {'self.mean': None, 'self.std': None, 'self.precision': None}, (x - colmean) / colstd(), 'batch statistics when none are given'),
             ('cls', 'StandardizeOn', {'self.mean': m, 'self.std': None, 'self.precision': None}, None, 'given mean, batch std'),
             ('cls', 'ToPower', {'self.power': 3, 'self.precision': None}, x * x * x, 'x^3 for power 3')]
    # StandardizeOn(mean given, std None): std of the batch (about its own mean)
    cases[7] = cases[7][:3] + ((x - m) / colstd(), cases[7][4])
    n = 0
    for kind, name, seeds, want, what in cases:
        if kind == 'func':
            f, ci = prog.need_func(FO, name), None
        else:
            ci = prog.need_class(FO, name)
            f = ci.methods.get('__call__')
        key = f'{f.key}::formula ({what})'
        n += 1
        try:
            te = symtensor.TensorEval(prog, ci, dict(seeds))
            te.summaries = dict(summ)
            got = te.run(f, {[p_ for p_ in f.params if p_ != 'self'][0]: x.copy()})
            if not isinstance(got, np.ndarray) or got.shape != want.shape:
                ctx.fail('C18-D9', key, f'{name} returns an array of shape {getattr(got, "shape", None)}, expected {want.shape}', f.where())
                continue
            bad = None
            for idx in np.ndindex(*want.shape):
                ok, why = ratfun.same_function(Q.lift(got[idx]).rf, want[idx].rf, pts)
                if not ok:
                    bad = (idx, why)
                    break
            ctx.check(bad is None, 'C18-D9', key, f'{name}: entry {bad[0] if bad else ""} is not {what}: {bad[1] if bad else ""}', f'{name} = {what}, cell by cell', f.where())
        except ratfun.Unknown as e:
            ctx.undecided('C18-D9', key, f'formula not derivable: {e}', f.where())
    return n


def d8(ctx, prog):
    """pair enumeration of the combination classes on symbolic traces (sa.symtensor): the class body is interpreted with a 2 x 5 array
    of symbolic samples and an uninterpreted binary operation; for every trace the output row must list op(x[i], x[j]) for exactly
    the documented pairs in the documented order - all i <= j of one frame, frame_1 x frame_2, j in i..i+distance, or point to
    point - nothing uninitialised, nothing twice."""
    from .. import symtensor, ratfun
    HO = 'scared.preprocesses.high_order._base'
    np = symtensor.np
    if np is None:
        ctx.undecided('C18-D8', f'{HO}::pair enumeration', 'numpy is not available to the analysis interpreter')
        return 0
    Q = ratfun.Q
    N, S = 2, 5
    tr = np.empty((N, S), dtype=object)
    for n_ in range(N):
        for s_ in range(S):
            tr[n_, s_] = Q.sym(f't{n_}_{s_}')

    def symname(q):
        terms = list(q.rf.num.t.items())
        if len(terms) == 1 and len(terms[0][0]) == 1 and terms[0][1] == 1 and q.rf.den == ratfun.Poly.const(1):
            return terms[0][0][0][0]
        raise ratfun.Unknown('operand of the operation is not a plain sample')

    def op(args, kw):
        a, b = args
        return np.frompyfunc(lambda x, y: Q.sym(f'op({symname(x)},{symname(y)})'), 2, 1)(a, b)
    cases = []
    f1, f2 = [0, 2, 3], [1, 4]
    cases.append(('_CombinationOfTwoFrames', 'one frame (all i <= j)', {'self.frame_1': f1, 'self.frame_2': f1, 'self._frame_2_was_none': True},
                  [(a, b) for i, a in enumerate(f1) for b in f1[i:]]))
    cases.append(('_CombinationOfTwoFrames', 'frame_1 x frame_2', {'self.frame_1': f1, 'self.frame_2': f2, 'self._frame_2_was_none': False},
                  [(a, b) for a in f1 for b in f2]))
    fr = [0, 1, 2, 3, 4]
    for d in (1, 2, 4, 5, 6, 7):
        cases.append(('_CombinationFrameOnDistance', f'distance {d}', {'self.frame_1': fr, 'self.frame_2': None, 'self.distance': d},
                      [(a, fr[j]) for i, a in enumerate(fr) for j in range(i, min(i + d + 1, len(fr)))]))
    for fr_, d in (([3], 1), ([3], 2), ([1, 4], 3), ([1, 4], 4)):        # a distance larger than the frame: every pair i <= j, nothing more
        cases.append(('_CombinationFrameOnDistance', f'frame {fr_}, distance {d}', {'self.frame_1': fr_, 'self.frame_2': None, 'self.distance': d},
                      [(a, fr_[j]) for i, a in enumerate(fr_) for j in range(i, min(i + d + 1, len(fr_)))]))
    cases.append(('_CombinationPointToPoint', 'point to point', {'self.frame_1': f1, 'self.frame_2': [4, 1, 0]}, list(zip(f1, [4, 1, 0]))))
    n = 0
    for cname, what, seeds, pairs in cases:
        ci = prog.need_class(HO, cname)
        f = ci.methods.get('__call__')
        key = f'{ci.key}::pairs ({what})'
        n += 1
        try:
            seeds = dict(seeds)
            seeds['self.precision'] = None
            te = symtensor.TensorEval(prog, ci, seeds)
            te.summaries = {'_operation': op, 'result_type': lambda a, k: None, 'promote_types': lambda a, k: None}
            got = te.run(f, {[p_ for p_ in f.params if p_ != 'self'][0]: tr.copy()})
            if not isinstance(got, np.ndarray) or got.ndim != 2 or got.shape[0] != N:
                ctx.fail('C18-D8', key, f'the result has shape {getattr(got, "shape", None)}: one row per trace expected', f.where())
                continue
            bad = None
            for n_ in range(N):
                want = [f'op(t{n_}_{a},t{n_}_{b})' for a, b in pairs]
                row = []
                for q in got[n_]:
                    try:
                        row.append(symname(q))
                    except ratfun.Unknown:
                        row.append('?')
                if row != want:
                    bad = f'trace {n_}: columns {row[:6]}{"..." if len(row) > 6 else ""} ({len(row)} columns), documented {want[:6]}{"..." if len(want) > 6 else ""} ({len(want)} columns)'
                    break
            ctx.check(bad is None, 'C18-D8', key, f'{bad}', f'{len(pairs)} pairs per trace, in the documented order, each row built from its own trace', f.where())
            ok_ = prog.__dict__.setdefault('_c18_d8_ok', {})
            ok_[cname] = (bad is None) and ok_.get(cname, True)
        except ratfun.Unknown as e:
            prog.__dict__.setdefault('_c18_d8_ok', {})[cname] = False
            ctx.undecided('C18-D8', key, f'pair enumeration not evaluable: {e}', f.where())
    return n


def d12(ctx, prog):
    """an optional frame is recognised by `is None`: a truthiness test (`frame_1 or frame_2`, `if frame:`, `not frame`, `x if frame else y`)
    treats the valid single-point frame 0 (and an empty selection) as missing and raises on an index array"""
    n = 0

    def is_frame(e):
        if isinstance(e, ast.Name):
            return e.id.startswith('frame')
        if isinstance(e, ast.Attribute) and isinstance(e.value, ast.Name) and e.value.id == 'self':
            return e.attr.startswith('frame')
        return False
    for modname in MODS:
        for f in prog.funcs_in(modname):
            hits = []
            for node in ast.walk(f.node):
                tests = []
                if isinstance(node, ast.BoolOp):
                    tests = list(node.values)
                elif isinstance(node, (ast.If, ast.IfExp, ast.While)):
                    tests = [node.test]
                elif isinstance(node, ast.UnaryOp) and isinstance(node.op, ast.Not):
                    tests = [node.operand]
                for t in tests:
                    while isinstance(t, ast.UnaryOp) and isinstance(t.op, ast.Not):
                        t = t.operand
                    if is_frame(t):
                        hits.append((node, t))
            frames_used = any(is_frame(x) for x in ast.walk(f.node))
            if not frames_used:
                continue
            n += 1
            key = f'{f.key}::frame tests'
            ctx.check(not hits, 'C18-D12', key, f'`{norm(hits[0][0])[:70] if hits else ""}` tests the truth value of the frame `{norm(hits[0][1]) if hits else ""}`: the single-point frame 0 counts as missing '
                      '(it is replaced by the other frame or by the whole trace) and an index array raises "truth value of an array is ambiguous"', 'frames are recognised as missing by `is None` only', f.where(hits[0][0]) if hits else f.where())
    return n


def d10(ctx, prog, eps):
    """alias classes (E2): the value returned by __call__ must not share storage with an instance attribute that the same call path
    also writes in place"""
    from .. import alias
    n = 0
    for f in eps:
        if f.cls is None or f.name != '__call__':
            continue
        n += 1
        key = f'{f.key}::returned storage'
        ret = alias.Summaries(prog, f.cls)(f)
        if ret == alias.UNKNOWN or ret is None:
            ctx.ok('C18-D10', key, 'returned storage not classified (no instance attribute involved in a recognisable way)', f.where())
            continue
        roots = {r for r in (ret[1] if ret != alias.FRESH and ret[0] == 'alias' else ()) if r.startswith('self.')}
        if not roots:
            ctx.ok('C18-D10', key, 'the returned array is allocated in the call (or derived from the argument), not kept on the object', f.where())
            continue
        written = set()
        wst = None
        for st, desc, cl in alias.Effects(prog, f.cls).writes(f):
            if cl not in (alias.FRESH, alias.UNKNOWN, None) and cl[0] == 'alias':
                hit = {r for r in cl[1] if r in roots}
                if hit:
                    written |= hit
                    wst = wst or st
        ctx.check(not written, 'C18-D10', key, f'the call returns `{sorted(written)[0] if written else ""}` - storage kept on the object - and writes it in place (`{norm(wst)[:60] if wst is not None else ""}`): '
                  'the array returned for one batch is overwritten when the next batch of the same shape is processed', f'returns {sorted(roots)}, never written in place by the call', f.where(wst) if wst is not None else f.where())
    return n


def run(ctx, prog):
    ctx.rule('C18-D1', 'arithmetic on traces-derived values only after promotion (astype(join) / dtype=join / float partner computed with the join / FFT); helpers judged per call site')
    ctx.rule('C18-D2', 'the promotion dtype is numpy.result_type/promote_types of the traces dtype and the precision, never builtin max()')
    ctx.rule('C18-D3', 'no reduction / selection / transform along the trace axis outside the documented batch-statistics set')
    ctx.rule('C18-D4', 'decorator contract: 2-D in, 2-D out, same first dimension; metaclass wraps every __call__')
    ctx.assume('the time-frequency formulas are value properties and not decided; pair order / duplication of the combination modes is decided on symbolic traces (C18-D8)')
    from .. import desugar as _ds
    ds_ = _ds.desugar_with(prog, ('scared.preprocesses',))
    if ds_:
        ctx.note(f'with-statements over repository context managers desugared to try/except: {ds_}')
    from .. import inline
    eps = [inline.inlined(prog, f) for f in entry_points(prog)]
    ctx.unit('entry_points', [f.key for f in eps])
    n1 = d1(ctx, prog, eps)
    n2 = d2(ctx, prog, eps)
    n3 = d3(ctx, prog, eps)
    d4(ctx, prog)
    ctx.rule('C18-D5', 'frame pass-through: list / array frames are stored as given (or an order-preserving copy), slice -> range(start or 0, stop, step or 1), int -> [int]; stored frames index the sample axis')
    ctx.floor('frame configuration stores', d5(ctx, prog), 3)
    ctx.rule('C18-D6', 'the switch between the one-frame pair set (i <= j) and frame_1 x frame_2 is the None-test of the caller\'s frame_2 argument, taken before defaulting')
    d6(ctx, prog)
    ctx.rule('C18-D9', 'first-order preprocesses equal their formulas on a symbolic batch (center, standardize, CenterOn, StandardizeOn, square, ToPower)')
    ctx.floor('first-order formulas compared', d9(ctx, prog), 8)
    ctx.rule('C18-D8', 'pair enumeration on symbolic traces: each combination class lists exactly the documented pairs in the documented order, row by row')
    ctx.floor('pair enumeration cases', d8(ctx, prog), 5)
    ctx.rule('C18-D7', 'operand order: the combination operation receives (point of frame_1, point of frame_2) in every mode')
    ctx.rule('C18-D12', 'an optional frame is recognised by `is None`, never by its truth value (the frame 0 is a valid single point, an index array has no truth value)')
    ctx.floor('functions handling frames', d12(ctx, prog), 5)
    ctx.rule('C18-D10', 'what a preprocess returns is not storage it keeps on the object and writes again in a later call (a result buffer reused between batches makes the rows returned for one batch change when the next is processed)')
    ctx.floor('preprocess calls judged for returned storage', d10(ctx, prog, eps), 4)
    ctx.floor('combination operation call sites', d7(ctx, prog), 3)
    ctx.floor('preprocess entry points', len(eps), 20)
    ctx.floor('promotion dtype computations', n2, 5)
