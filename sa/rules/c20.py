"""C20 - Synchronizer output is exactly the accepted traces, in order, with their own metadata.

All clauses are shapes of Synchronizer.run: the paths through one loop iteration are enumerated with the user function
modelled as: returns data / returns None / raises Exception / raises KeyboardInterrupt, starting from a *stale* non-None
value of the result variable (what the previous iteration may have left behind).

D1 counters and writes pair up   processed += 1 exactly once on every path; synchronized += 1 and the write exactly once on
                                 the returned-data paths and never elsewhere; write index = counter at iteration start.
D2 own data, own metadata        the written trace object is the loop variable handed to the user function, the points are
                                 this iteration's call result (never a stale definition).
D3 error discipline              Exception/None are swallowed and counted once; KeyboardInterrupt propagates.
D4 single use                    with the marker set, run raises before any effect; otherwise it sets the marker first.
D5 output argument               str and Path both construct the writer.
"""
import ast

from .. import flow, astutil
from ..model import norm, AnalysisError, self_attr, kw


class SyncFlow(flow.Flow):
    """user function call: forks into result None / NotNone, Exception, KeyboardInterrupt"""

    def __init__(self, prog, cls, user_attr, **kwargs):
        super().__init__(prog, cls, **kwargs)
        self.user_attr = user_attr

    def is_user_call(self, e):
        return isinstance(e, ast.Call) and isinstance(e.func, ast.Attribute) and norm(e.func.value) == 'self' \
            and e.func.attr == self.user_attr

    def call(self, func, call, p):
        if self.is_user_call(call):
            q = self.ev(p, 'call', 'USER', 'user', func, call)
            out = []
            for typ in ('Exception', 'KeyboardInterrupt'):
                r = self.ev(q, 'raise', typ, 'implicit', func, call)
                out.append(r.out(('raise', typ)))
            for v in ('None', 'NotNone'):
                r = self.ev(q, 'lstore', '$user', 'user:' + v, func, call)
                out.append(r.with_fact(f'$val:{id(call)}', v))
            return out
        return super().call(func, call, p)


def run(ctx, prog):
    ctx.rule('C20-D1', 'per iteration: processed += 1 once on every path; synchronized += 1 and the write exactly once on returned-data paths only; write index = counter at iteration start')
    ctx.rule('C20-D2', 'the write uses the loop trace object passed to the user function and this iteration\'s result (no stale definition reaches it)')
    ctx.rule('C20-D3', 'Exception / None are swallowed and counted exactly once; KeyboardInterrupt propagates')
    ctx.rule('C20-D4', 'run() raises before any effect when the single-use marker is set, and sets it first otherwise')
    ctx.rule('C20-D5', 'str and Path outputs both construct the writer')
    ctx.rule('C20-D6', 'check() is a dry run: it stores into no attribute that run() or the report use')
    ctx.rule('C20-D7', 'a bare output file name is accepted: no directory call on os.path.dirname(name) without a fallback for the empty string')
    ctx.assume('the user function either returns (None / data) or raises Exception / KeyboardInterrupt; the ETS writer stores what it is given')
    ci = prog.need_class('scared.synchronization', 'Synchronizer')
    from .. import inline
    run_f = prog.resolve_method(ci, 'run')
    if run_f is not None:
        run_f = inline.inlined(prog, run_f)
    init_f = prog.resolve_method(ci, '__init__')
    if run_f is None or init_f is None:
        raise AnalysisError('Synchronizer.run/__init__ not found')
    # which attribute holds the user function: the one assigned from the `function` parameter in __init__
    user_attr = None
    for n in ast.walk(init_f.node):
        if isinstance(n, ast.Assign) and self_attr(n.targets[0]) and 'function' in astutil.names_read(n.value):
            user_attr = self_attr(n.targets[0])
    if user_attr is None:
        raise AnalysisError('attribute holding the user function not found')
    loops = [n for n in ast.walk(run_f.node) if isinstance(n, ast.For) and any(
        isinstance(c, ast.Call) and isinstance(c.func, ast.Attribute) and c.func.attr == user_attr for c in ast.walk(n))]
    if len(loops) != 1:
        raise AnalysisError(f'{len(loops)} loops calling the user function in run()')
    loop = loops[0]
    tgt = loop.target
    if isinstance(tgt, ast.Tuple) and isinstance(loop.iter, ast.Call) and norm(loop.iter.func) == 'enumerate':
        trace_var = tgt.elts[1].id
        iterable = loop.iter.args[0]
    elif isinstance(tgt, ast.Name):
        trace_var = tgt.id
        iterable = loop.iter
    else:
        raise AnalysisError('loop target shape not understood')
    ctx.check(norm(iterable) == 'self.input_ths', 'C20-D1', f'{run_f.key}::loop iterable',
              f'the loop iterates `{norm(iterable)}`, not the whole input trace set in order', 'the loop iterates self.input_ths', run_f.where(loop))
    # result variable: the one handed to the writer as `points`
    ucalls = [n for n in ast.walk(loop) if isinstance(n, ast.Call) and isinstance(n.func, ast.Attribute) and n.func.attr == user_attr
              and norm(n.func.value) == 'self']
    if len(ucalls) != 1:
        raise AnalysisError(f'{len(ucalls)} user function calls in the loop')
    ucall = ucalls[0]
    wr = [n for n in ast.walk(loop) if isinstance(n, ast.Call) and isinstance(n.func, ast.Attribute) and 'write' in n.func.attr]
    if len(wr) != 1 or not isinstance(kw(wr[0], 'points'), ast.Name):
        raise AnalysisError('write call with a named `points` argument not found in the loop')
    res = kw(wr[0], 'points').id
    idx_local = kw(wr[0], 'index').id if isinstance(kw(wr[0], 'index'), ast.Name) else None
    passed = kw(ucall, 'trace_object') or (ucall.args[0] if ucall.args else None)
    ctx.check(isinstance(passed, ast.Name) and passed.id == trace_var, 'C20-D2', f'{run_f.key}::{norm(ucall)[:100]}',
              f'the user function receives `{norm(passed) if passed is not None else None}`, not the loop trace object `{trace_var}`',
              f'the user function receives the loop trace object `{trace_var}`', run_f.where(ucall))

    def keep(ev, fl):
        k, name, how, site = ev
        if k == 'store':
            return True
        if k == 'lstore':
            return name in (res, '$user', idx_local)
        if k == 'call':
            return name == 'USER' or 'write' in name or 'error_occur' in name
        return k == 'raise'
    fl = SyncFlow(prog, ci, user_attr, keep=keep, inline=lambda callee, call, caller: callee.cls is not None and callee.mod.name == 'scared.synchronization')
    fl.stack.append(run_f)
    start = flow.Path(facts=frozenset({('L:' + res, 'NotNone')}))     # stale value from an earlier iteration
    paths = flow.dedupe(fl.block(run_f, loop.body, [start]))
    fl.stack.pop()
    ctx.unit('iteration_paths', len(paths))
    classes = {'data': [], 'none': [], 'exc': [], 'kbd': []}
    for p in paths:
        evs = p.events
        user_ret = [e for e in evs if e[0] == 'lstore' and e[1] == '$user']
        if any(e[0] == 'raise' and e[1] == 'KeyboardInterrupt' and e[2] == 'implicit' for e in evs):
            classes['kbd'].append(p)
        elif any(e[0] == 'raise' and e[1] == 'Exception' and e[2] == 'implicit' for e in evs):
            classes['exc'].append(p)
        elif user_ret and user_ret[-1][2] == 'user:NotNone':
            classes['data'].append(p)
        elif user_ret:
            classes['none'].append(p)
        else:
            raise AnalysisError('iteration path without a user call outcome')
    for k, v in classes.items():
        if not v:
            raise AnalysisError(f'no iteration path for user outcome {k}')
    ctx.unit('paths_per_user_outcome', {k: len(v) for k, v in classes.items()})

    def count(p, pred):
        return sum(1 for e in p.events if pred(e))

    def is_proc(e):
        return e[0] == 'store' and e[1] == 'processed_counter'

    def is_sync(e):
        return e[0] == 'store' and e[1] == 'synchronized_counter'

    def is_write(e):
        return e[0] == 'call' and 'write' in e[1]

    def is_err(e):
        return e[0] == 'call' and 'error_occur' in e[1]
    key = f'{run_f.key}::loop iteration'
    # D1
    probs = []
    for k, ps in classes.items():
        for p in ps:
            if count(p, is_proc) != 1:
                probs.append(f'processed_counter changes {count(p, is_proc)} times when the user function {label(k)}')
            want = 1 if k == 'data' else 0
            if count(p, is_sync) != want:
                probs.append(f'synchronized_counter changes {count(p, is_sync)} times when the user function {label(k)}')
            if count(p, is_write) != want:
                probs.append(f'{count(p, is_write)} writes when the user function {label(k)}')
            for e in p.events:
                if (is_proc(e) or is_sync(e)):
                    n = fl.node_of(e)
                    if not (isinstance(n, ast.AugAssign) and isinstance(n.op, ast.Add) and isinstance(n.value, ast.Constant) and n.value.value == 1):
                        probs.append(f'counter changed by `{norm(n)}`, not += 1')
    if probs:
        ctx.fail('C20-D1', key, '; '.join(sorted(set(probs))[:3]), run_f.where(loop))
    else:
        ctx.ok('C20-D1', key, f'counters and writes pair up on all {len(paths)} iteration paths', run_f.where(loop))
    # write arguments and index
    writes = [n for n in ast.walk(loop) if isinstance(n, ast.Call) and isinstance(n.func, ast.Attribute) and 'write' in n.func.attr]
    if len(writes) != 1:
        raise AnalysisError(f'{len(writes)} write calls in the loop')
    w = writes[0]
    wkey = f'{run_f.key}::{norm(w)[:120]}'
    to = kw(w, 'trace_object')
    pts = kw(w, 'points')
    idx = kw(w, 'index')
    ctx.check(isinstance(to, ast.Name) and to.id == trace_var, 'C20-D2', wkey + ' trace_object',
              f'metadata are taken from `{norm(to) if to is not None else None}`, not from the originating trace `{trace_var}`',
              'metadata come from the originating trace object', run_f.where(w))
    ctx.check(isinstance(pts, ast.Name) and pts.id == res, 'C20-D2', wkey + ' points',
              f'the written samples are `{norm(pts) if pts is not None else None}`, not the user function result `{res}`',
              'the written samples are the user function result', run_f.where(w))
    # index = counter at iteration start: affine  synchronized_counter - (#increments before the write)
    okidx = True
    det = ''
    # a single-assignment local handed over as the index is read where it is defined: the increments counted are those before
    # that definition (statement order inside one iteration)
    read_at = w
    if isinstance(idx, ast.Name):
        defs = [n for n in ast.walk(loop) if isinstance(n, ast.Assign) and len(n.targets) == 1 and isinstance(n.targets[0], ast.Name) and n.targets[0].id == idx.id]
        others = [n for n in ast.walk(loop) if isinstance(n, ast.Name) and n.id == idx.id and isinstance(n.ctx, ast.Store)]
        if len(defs) == 1 and len(others) == 1:
            idx, read_at = defs[0].value, defs[0]
    for p in classes['data']:
        k = 0
        for e in p.events:
            if is_write(e) or (read_at is not w and e[0] == 'lstore' and e[1] == idx_local):
                break
            if is_sync(e):
                k += 1
        a = astutil.affine(idx) if idx is not None else None
        want = {'self.synchronized_counter': 1, '': -k}
        if a is None or {x: v for x, v in a.items() if v} != {x: v for x, v in want.items() if v}:
            okidx = False
            det = f'index `{norm(idx) if idx is not None else None}` with {k} increment(s) before the write does not equal the counter at iteration start: outputs are not dense/in order'
    ctx.check(okidx, 'C20-D1', wkey + ' index', det, 'write index equals the number of traces accepted before this one', run_f.where(w))
    # D2: no stale definition reaches the write / the decision to write
    stale = []
    for k in ('none', 'exc'):
        for p in classes[k]:
            if count(p, is_write):
                stale.append(k)
    for p in classes['exc']:
        # on the exception path the only definitions of the result variable are resets (bind of a None constant)
        pass
    if stale:
        ctx.fail('C20-D2', key + ' stale result',
                 f'a value of `{res}` left by an earlier iteration reaches the write when the user function {label(stale[0])}: '
                 f'the previous trace\'s data would be written again with this trace\'s metadata', run_f.where(loop))
    else:
        ctx.ok('C20-D2', key + ' stale result', f'`{res}` is reset before the user call: no stale definition reaches the write', run_f.where(loop))
    # D3
    probs = []
    for k in ('none', 'exc'):
        for p in classes[k]:
            if p.outcome != flow.NORMAL:
                probs.append(f'iteration ends with {p.outcome} when the user function {label(k)} (must be swallowed)')
            if count(p, is_err) != 1:
                probs.append(f'error counter notified {count(p, is_err)} times when the user function {label(k)}')
    for p in classes['kbd']:
        if p.outcome != ('raise', 'KeyboardInterrupt'):
            probs.append(f'KeyboardInterrupt does not propagate (iteration ends {p.outcome})')
    for p in classes['data']:
        if p.outcome != flow.NORMAL:
            probs.append(f'iteration ends with {p.outcome} on the accepted path')
        if count(p, is_err):
            probs.append('error counter notified on the accepted path')
    if probs:
        ctx.fail('C20-D3', key + ' errors', '; '.join(sorted(set(probs))[:3]), run_f.where(loop))
    else:
        ctx.ok('C20-D3', key + ' errors', 'Exception/None swallowed and counted once, KeyboardInterrupt propagates', run_f.where(loop))
    # D4 single use
    def keep4(ev, fl):
        return ev[0] in ('store', 'call', 'raise')
    # the marker: attribute tested against None in the first If of run that raises
    marker = None
    for st in run_f.node.body:
        if isinstance(st, ast.If) and any(isinstance(b, ast.Raise) for b in st.body):
            for n in ast.walk(st.test):
                if self_attr(n) and isinstance(n, ast.Attribute):
                    marker = n.attr
            break
    mkey = f'{run_f.key}::single use'
    if marker is None:
        ctx.fail('C20-D4', mkey, 'run() does not start with a test of a single-use marker that raises', run_f.where())
    else:
        fl4 = flow.Flow(prog, ci, keep=keep4, inline=lambda callee, call, caller: False, unroll=1)
        used = fl4.run(run_f, facts=[('N:self.' + marker, 'NotNone')])
        bad = [p for p in used if p.outcome[0] != 'raise' or any(e[0] in ('store',) or (e[0] == 'call' and e[2] != 'class' and 'Error' not in e[1]) for e in p.events[:-1])]
        fresh = fl4.run(run_f, facts=[('N:self.' + marker, 'None')])
        first_effect_ok = True
        for p in fresh:
            effects = [e for e in p.events if e[0] == 'store' or (e[0] == 'call' and e[1].startswith('self.'))]
            if not effects or not (effects[0][0] == 'store' and effects[0][1] == marker and effects[0][2] == 'bind'):
                first_effect_ok = False
        if bad:
            ctx.fail('C20-D4', mkey, f'with the marker `{marker}` set, a path through run() does not raise before any effect', run_f.where())
        elif not first_effect_ok:
            ctx.fail('C20-D4', mkey, f'run() does not set the marker `{marker}` before its first effect: a second run() would not be refused', run_f.where())
        else:
            ctx.ok('C20-D4', mkey, f'marker `{marker}`: second run refused before any effect; first run sets it first', run_f.where())
        # the marker starts as None
        inits = [n for n in ast.walk(init_f.node) if isinstance(n, ast.Assign) and self_attr(n.targets[0]) == marker]
        ctx.check(len(inits) == 1 and isinstance(inits[0].value, ast.Constant) and inits[0].value.value is None, 'C20-D4',
                  f'{init_f.key}::{marker} initial', f'marker `{marker}` is not initialised to None', 'marker starts as None', init_f.where())
    for c in ('processed_counter', 'synchronized_counter'):
        inits = [n for n in ast.walk(init_f.node) if isinstance(n, ast.Assign) and self_attr(n.targets[0]) == c]
        ctx.check(len(inits) == 1 and isinstance(inits[0].value, ast.Constant) and inits[0].value.value == 0, 'C20-D1',
                  f'{init_f.key}::{c} initial', f'{c} does not start at 0', f'{c} starts at 0', init_f.where())
    # D5
    chk = prog.resolve_method(ci, '_check_output')
    if chk is None:
        raise AnalysisError('_check_output not found')
    found = False
    for st in ast.walk(chk.node):
        if isinstance(st, ast.If) and isinstance(st.test, ast.Call) and norm(st.test.func) == 'isinstance' and len(st.test.args) == 2:
            types = st.test.args[1].elts if isinstance(st.test.args[1], ast.Tuple) else [st.test.args[1]]
            names = {prog.dotted(chk.mod, t) or norm(t) for t in types}
            rets = [r for r in st.body if isinstance(r, ast.Return) and isinstance(r.value, ast.Call)]
            if rets and 'Writer' in norm(rets[0].value.func):
                found = True
                wd = prog.dotted(chk.mod, rets[0].value.func) or norm(rets[0].value.func)
                # the assumption "the writer stores what it is given at the index it is given" was checked against one class
                if wd.endswith('ets_writer.ETSWriter') and 'buffered' not in wd.lower():
                    ctx.ok('C20-D5', f'{chk.key}::writer class', f'the output is written through {wd} (index-addressed write_trace_object_and_points)', chk.where(st))
                else:
                    ctx.undecided('C20-D5', f'{chk.key}::writer class', f'the output goes through `{wd}`, not estraces\' ETSWriter: whether that class honours `index=` and keeps each trace\'s '
                                  f'metadata as given is library behaviour this analysis has no model of', chk.where(st))
                ctx.check({'str', 'pathlib.Path'} <= names, 'C20-D5', f'{chk.key}::{norm(st.test)[:80]}',
                          f'the writer is constructed only for {sorted(names)}; str and pathlib.Path are both documented',
                          'str and pathlib.Path both construct the writer', chk.where(st))
    if not found:
        ctx.undecided('C20-D5', f'{chk.key}::writer branch', 'branch constructing the writer not recognised', chk.where())
    d6(ctx, prog, ci, inline)
    d7(ctx, prog, ci)
    # the handler that swallows the user function's exceptions must not cover the writer: a writer failure (output that already
    # holds traces, disk error) would be counted as a rejected trace and run() would return an output that is not the accepted traces
    pm_ = astutil.parents(run_f.node)
    cur = pm_.get(wr[0])
    covered = None
    child = wr[0]
    while cur is not None and cur is not run_f.node:
        if isinstance(cur, ast.Try) and any(child is b or any(child is x for x in ast.walk(b)) for b in cur.body):
            for h in cur.handlers:
                names = {norm(x) for x in (h.type.elts if isinstance(h.type, ast.Tuple) else [h.type])} if h.type is not None else {'BaseException'}
                if names & {'Exception', 'BaseException'} and not any(isinstance(x, ast.Raise) for x in ast.walk(h)):
                    covered = h
        child = cur
        cur = pm_.get(cur)
    ctx.check(covered is None, 'C20-D3', f'{run_f.key}::writer outside the swallowing handler', 'the write of an accepted trace sits inside the try whose `except Exception` swallows the user function\'s failures: '
              'a failure of the writer is counted as a rejected trace and run() returns normally with an output that is not the accepted traces', 'a writer failure propagates (the swallowing handler covers the user function only)',
              run_f.where(wr[0]))
    ctx.floor('iteration paths', len(paths), 4)


def d6(ctx, prog, ci, inline):
    """check() is a dry run on a few traces: with the methods it calls inlined, it stores into no attribute that run(), the report
    or the constructor's state use (counters, single-use marker, output): what run() produces does not depend on a check() before it"""
    chk = prog.resolve_method(ci, 'check')
    if chk is None:
        return
    body = inline.inlined(prog, chk)
    written = {}
    for n in ast.walk(body.node):
        t = None
        if isinstance(n, (ast.Attribute, ast.Subscript)) and isinstance(n.ctx, (ast.Store, ast.Del)):
            t = n
        elif isinstance(n, ast.Call) and isinstance(n.func, ast.Attribute) and n.func.attr in ('append', 'extend', 'update', 'clear', 'pop', 'error_occur', 'write_trace_object_and_points', 'close', 'fill', 'insert', 'remove'):
            t = n.func.value
        if t is None:
            continue
        b = t
        while isinstance(b, (ast.Subscript, ast.Attribute)) and not (isinstance(b, ast.Attribute) and isinstance(b.value, ast.Name) and b.value.id == 'self'):
            b = b.value
        if isinstance(b, ast.Attribute) and isinstance(b.value, ast.Name) and b.value.id == 'self':
            written.setdefault(b.attr, n)
    used = set()
    for name, g in prog.methods_closure(ci).items():
        if name in ('check',):
            continue
        for n in ast.walk(g.node):
            if isinstance(n, ast.Attribute) and isinstance(n.value, ast.Name) and n.value.id == 'self':
                used.add(n.attr)
    key = f'{chk.key}::dry run'
    hit = sorted(a for a in written if a in used)
    ctx.check(not hit, 'C20-D6', key, f'check() changes `self.{hit[0] if hit else ""}` ({norm(written[hit[0]])[:60] if hit else ""}), which run() / the report use: after a check() the run no longer starts from the '
              'constructor\'s state (write index, counters or output are off by what check() did)', f'check() (callees inlined) stores into none of the {len(used)} attributes the other methods use', chk.where(written[hit[0]]) if hit else chk.where())


DIRCALLS = {'os.makedirs', 'os.mkdir', 'os.listdir', 'os.chdir', 'os.scandir', 'os.stat', 'os.access'}


def d7(ctx, prog, ci):
    """The output may be a bare file name (`'out.ets'`): `os.path.dirname` of it is the empty string, on which every directory
    call of `os` raises FileNotFoundError, so the constructor would refuse a documented output.  Exact rule: in the methods of the
    class, a directory call whose path argument is `os.path.dirname(...)` (directly or through a once-assigned local) with no `or`
    fallback and no truthiness guard on that value.  (`pathlib.Path(x).parent` is '.', never empty: not concerned.)"""
    n_calls = 0
    for name, f in sorted(ci.methods.items()):
        pm = astutil.parents(f.node)
        once = {}
        for n in ast.walk(f.node):
            if isinstance(n, ast.Assign) and len(n.targets) == 1 and isinstance(n.targets[0], ast.Name):
                once.setdefault(n.targets[0].id, []).append(n.value)
        for c in ast.walk(f.node):
            if not (isinstance(c, ast.Call) and isinstance(c.func, (ast.Name, ast.Attribute)) and (c.args or c.keywords)):
                continue
            d = prog.dotted(f.mod, c.func)
            if d not in DIRCALLS:
                continue
            n_calls += 1
            arg = c.args[0] if c.args else c.keywords[0].value
            via = None
            if isinstance(arg, ast.Name) and len(once.get(arg.id, ())) == 1:
                via, arg = arg.id, once[arg.id][0]
            is_dirname = isinstance(arg, ast.Call) and isinstance(arg.func, (ast.Name, ast.Attribute)) and prog.dotted(f.mod, arg.func) in ('os.path.dirname', 'posixpath.dirname', 'ntpath.dirname')
            key = f'{f.key}::{d}({norm(c.args[0] if c.args else c.keywords[0].value)[:40]})'
            if not is_dirname:
                ctx.ok('C20-D7', key, 'the path argument is not a bare os.path.dirname(...)', f.where(c))
                continue
            guarded = any(pol and (norm(t) == via or norm(t) == norm(arg)) for t, pol in astutil.guards_ext(c, pm, f.node)) or \
                any((not pol) and isinstance(t, ast.UnaryOp) and isinstance(t.op, ast.Not) and norm(t.operand) in (via, norm(arg)) for t, pol in astutil.guards_ext(c, pm, f.node))
            ctx.check(guarded, 'C20-D7', key, f'`{norm(c)[:90]}`: for a bare output file name os.path.dirname gives the empty string and {d}(\'\') raises FileNotFoundError - '
                      'the constructor refuses an output it documents', 'the directory call is guarded against the empty directory name', f.where(c))
    ctx.unit('directory_calls_on_output', n_calls)
    if n_calls == 0:
        ctx.ok('C20-D7', f'{ci.key}::directory calls', 'no directory call of os in the class: the output name reaches the writer as given', ci.mod.relpath)


def label(k):
    return {'data': 'returns data', 'none': 'returns None', 'exc': 'raises an Exception', 'kbd': 'is interrupted (KeyboardInterrupt)'}[k]
