"""C08 - convergence traces are the attack scores on successive prefixes of the traces.

D1 column = scores of the current state   on every path through run() (hooks inlined for every attack class), each call of
                                          _compute_convergence_traces is preceded by a compute_results() that follows the last
                                          process()/update(); it appends self.scores[..., None] on the last axis; nobody else
                                          calls it.
D2 no interference                        the convergence path stores only convergence_traces, _batches_processed, results and
                                          scores (with compute read-only, C01-D5, asking for convergence cannot change results).
D3 last column                            _final_compute refreshes the results first and then appends iff traces were processed since
                                          the last point (len(_batches_processed) > 1).
"""
import ast

from .. import flow, kernels, universe, astutil
from ..model import norm, AnalysisError, self_attr

AB = 'scared.analysis.base'
ALLOWED = {'convergence_traces', '_batches_processed', 'results', 'scores'}


def run(ctx, prog):
    ctx.rule('C08-D1', 'every _compute_convergence_traces call follows a compute_results() newer than the last process(); it appends scores[..., None] on the last axis; only the two hooks call it')
    ctx.rule('C08-D2', 'the convergence hooks store only convergence_traces, _batches_processed, results, scores')
    ctx.rule('C08-D3', '_final_compute: super()._final_compute() first, then append iff len(_batches_processed) > 1')
    ctx.assume('spacing of the convergence points (>= step, reset bookkeeping, batch-size derivation) is arithmetic over run-time counters and not decided')
    base = prog.need_class(AB, 'BaseAttack')
    allc, concrete = universe.distinguisher_classes(prog)
    attacks = [c for c in universe.analysis_classes(prog, concrete) if base in prog.mro(c)]
    if not attacks:
        raise AnalysisError('no attack class found')

    def keep(ev, fl):
        return ev[0] == 'call' and ev[1] in ('self.process', 'self.update', 'self.compute_results', 'self._compute_convergence_traces', 'self.compute')
    seen = set()
    n_calls = 0
    for ci in attacks:
        sig = tuple(prog.resolve_method(ci, m).key for m in ('run', '_batch_loop_compute', '_final_compute', 'compute_results', '_compute_convergence_traces'))
        if sig in seen:
            continue
        seen.add(sig)
        run_f = prog.resolve_method(ci, 'run')
        fl = flow.Flow(prog, ci, keep=keep, unroll=2,
                       inline=lambda callee, call, caller: callee.mod.name.startswith('scared.analysis') and callee.name not in ('process',))
        paths = fl.run(run_f)
        stale_sites = {}
        ok_sites = {}
        for p in paths:
            fresh = False
            for ev in p.events:
                name = ev[1]
                if name in ('self.process', 'self.update'):
                    fresh = False
                elif name == 'self.compute_results':
                    pass            # the refresh itself is the self.compute() inside it
                elif name == 'self.compute':
                    fresh = True
                elif name == 'self._compute_convergence_traces':
                    n_calls += 1
                    f, node = fl.sites[ev[3]]
                    k = f'{f.key}::{norm(node)} ({ci.name})'
                    (ok_sites if fresh else stale_sites)[k] = f.where(node)
        for k, w in stale_sites.items():
            ctx.fail('C08-D1', k, 'a convergence column can be appended from scores that were computed before the last processed batch (no compute_results() in between): '
                                  'the column is not the score on the traces processed up to that point', w)
        for k, w in ok_sites.items():
            if k not in stale_sites:
                ctx.ok('C08-D1', k, f'on every path the scores are refreshed after the last processed batch ({len(paths)} paths through run())', w)
        ctx.count('run_paths', len(paths))
    # who calls it
    cc = prog.need_func(AB, 'BaseAttack._compute_convergence_traces')
    callers = set()
    for f in prog.funcs:
        for c in ast.walk(f.node):
            if isinstance(c, ast.Call) and isinstance(c.func, ast.Attribute) and c.func.attr == '_compute_convergence_traces':
                callers.add(f.qualname)
    ctx.check(callers <= {'BaseAttack._batch_loop_compute', 'BaseAttack._final_compute'}, 'C08-D1', f'{cc.key}::callers',
              f'_compute_convergence_traces is also called from {sorted(callers - {"BaseAttack._batch_loop_compute", "BaseAttack._final_compute"})}', f'called only from {sorted(callers)}', cc.where())
    # what it appends
    apps = [c for c in ast.walk(cc.node) if isinstance(c, ast.Call) and norm(c.func).split('.')[-1] == 'append']
    good = len(apps) == 1 and len(apps[0].args) >= 2 and norm(apps[0].args[0]) == 'self.convergence_traces' and norm(apps[0].args[1]).replace(' ', '') == 'self.scores[...,None]' \
        and any(k.arg == 'axis' and norm(k.value) == '-1' for k in apps[0].keywords)
    st = [s for s in ast.walk(cc.node) if isinstance(s, ast.Assign) and s.value in apps]
    good = good and len(st) == 1 and self_attr(st[0].targets[0]) == 'convergence_traces'
    ctx.check(bool(good), 'C08-D1', f'{cc.key}::append', 'the convergence traces are not extended by self.scores[..., None] on the last axis', 'appends self.scores[..., None] on the last axis', cc.where())
    inits = [s for s in ast.walk(cc.node) if isinstance(s, ast.Assign) and self_attr(s.targets[0]) == 'convergence_traces' and s not in st]
    for s in inits:
        pm = astutil.parents(cc.node)
        g = astutil.guards(s, pm)
        ctx.check(any(pol and norm(t).replace(' ', '') == 'self.convergence_tracesisNone' for t, pol in g), 'C08-D1', f'{cc.key}::{norm(s)[:60]}',
                  'the convergence traces are re-created although columns already exist (earlier points lost)', 'created only when still None', cc.where(s))
    # D2
    for name in ('_batch_loop_compute', '_final_compute', '_compute_convergence_traces', 'compute_results'):
        f = base.methods.get(name)
        if f is None:
            raise AnalysisError(f'BaseAttack.{name} not found')
        stored = {self_attr(t) for t, s, how in kernels.stores(f.node) if self_attr(t)}
        mut = {norm(c.func.value)[5:] for c in ast.walk(f.node) if isinstance(c, ast.Call) and isinstance(c.func, ast.Attribute)
               and c.func.attr in ('append', 'extend', 'clear', 'pop', 'insert') and norm(c.func.value).startswith('self.')}
        bad = (stored | mut) - ALLOWED
        ctx.check(not bad, 'C08-D2', f'{f.key}::stores', f'the convergence path writes {sorted(bad)}: requesting convergence traces changes state the final results depend on',
                  f'writes only {sorted(stored | mut)}', f.where())
    # D3
    fc = base.methods['_final_compute']
    body = [s for s in fc.node.body if not (isinstance(s, ast.Expr) and isinstance(s.value, ast.Constant))]
    first_ok = bool(body) and norm(body[0]).replace(' ', '') == 'super()._final_compute()'
    ctx.check(first_ok, 'C08-D3', f'{fc.key}::refresh first', '_final_compute does not start with super()._final_compute() (the final compute_results)', 'final results computed first', fc.where())
    ifs = [s for s in body[1:] if isinstance(s, ast.If)]
    cond_ok = len(ifs) == 1 and norm(ifs[0].test).replace(' ', '') in ('self.convergence_stepandlen(self._batches_processed)>1', 'len(self._batches_processed)>1andself.convergence_step') \
        and len(ifs[0].body) == 1 and norm(ifs[0].body[0]).replace(' ', '') == 'self._compute_convergence_traces()' and not ifs[0].orelse
    ctx.check(cond_ok, 'C08-D3', f'{fc.key}::last column', 'the last column is not appended exactly when traces were processed since the last point (convergence_step and len(_batches_processed) > 1)',
              'last column appended iff traces remain since the last point', fc.where())
    # bookkeeping in the batch hook: the point list is reset to the current count when a column is taken
    bl = base.methods['_batch_loop_compute']
    txt = norm(bl.node).replace(' ', '')
    ctx.pattern('self._batches_processed.append(self.processed_traces)' in txt and 'self._batches_processed=[self._batches_processed[-1]]' in txt, 'C08-D3', f'{bl.key}::bookkeeping',
              'the processed-count bookkeeping (append current count; reset to [last] at each point) changed shape', 'count appended per batch, reset to [last] at each point', bl.where())
    ctx.floor('convergence call events judged', n_calls, 4)
    ctx.floor('attack hook combinations', len(seen), 1)
