"""C08 - convergence traces are the attack scores on successive prefixes of the traces.

D1 column = scores of the current state   on every path through run() (hooks inlined for every attack class), each call of
                                          _compute_convergence_traces is preceded by a compute_results() that follows the last
                                          process()/update(); it appends self.scores[..., None] on the last axis; nobody else
                                          calls it.
D2 no interference                        the convergence path stores only convergence_traces, _batches_processed, results and
                                          scores (with compute read-only, C01-D5, asking for convergence cannot change results).
D3 last column                            _final_compute refreshes the results first and then appends iff traces were processed since
                                          the last point (len(_batches_processed) > 1).
"""
import ast

from .. import flow, kernels, universe, astutil
from ..model import norm, AnalysisError, self_attr

AB = 'scared.analysis.base'
ALLOWED = {'convergence_traces', '_batches_processed', 'results', 'scores'}


def d4(ctx, prog, base, bl, fc, fc_body):
    """spacing by induction: per batch the current count is recorded; a point is taken when count - reference >= step; taking a
    point makes the count *at that point* the new reference (so consecutive points are >= step apart and strictly increasing);
    the final hook appends iff the bookkeeping says traces were processed since the last point."""
    COUNT, REF, STEP = 'COUNT', 'REF', 'STEP'
    book = None
    from .. import inline
    import copy
    bl = inline.inlined(prog, bl, skip={'_compute_convergence_traces', '_final_compute', '_batch_loop_compute'})
    fc_i = inline.inlined(prog, fc, skip={'_compute_convergence_traces', '_final_compute', '_batch_loop_compute'})
    from .. import normalize
    bl, fc_i = normalize.structured(bl), normalize.structured(fc_i)
    fc_body = [s_ for s_ in fc_i.node.body if not (isinstance(s_, ast.Expr) and isinstance(s_.value, ast.Constant))]
    # single-assignment locals of the hook are expanded into their definitions (aliases of the bookkeeping list, named counts)
    stores_ = {}
    for n_ in ast.walk(bl.node):
        if isinstance(n_, ast.Name) and isinstance(n_.ctx, ast.Store):
            stores_[n_.id] = stores_.get(n_.id, 0) + 1
    ldefs = {s_.targets[0].id: s_.value for s_ in ast.walk(bl.node) if isinstance(s_, ast.Assign) and len(s_.targets) == 1 and isinstance(s_.targets[0], ast.Name)
             and stores_.get(s_.targets[0].id) == 1}

    class Exp(ast.NodeTransformer):
        def visit_Name(self, n):
            if isinstance(n.ctx, ast.Load) and n.id in ldefs:
                return self.visit(copy.deepcopy(ldefs[n.id]))
            return n

    def expand(e):
        return Exp().visit(copy.deepcopy(e))
    # the bookkeeping attribute: the one appended with the processed count
    apps = [c for c in ast.walk(bl.node) if isinstance(c, ast.Call) and isinstance(c.func, ast.Attribute) and c.func.attr == 'append' and self_attr(expand(c.func.value))
            and len(c.args) == 1 and norm(expand(c.args[0])) == 'self.processed_traces']
    key = f'{bl.key}::spacing'
    if len(apps) != 1:
        ctx.undecided('C08-D4', key, 'the per-batch record of the processed count (append of self.processed_traces) was not found', bl.where())
        return
    book = self_attr(expand(apps[0].func.value))
    pm = astutil.parents(bl.node)
    ga = [(norm(expand(t)), pol) for t, pol in normalize.conjuncts(astutil.guards(apps[0], pm, bl.node))]
    ctx.check(ga == [('self.convergence_step', True)], 'C08-D4', f'{key} record', f'the processed count is recorded under the condition {ga}, not for every batch when a convergence step is set',
              'count recorded after every batch when a convergence step is set', bl.where(apps[0]))

    def rename(e):
        a = astutil.affine(expand(e))
        if a is None:
            return None
        out = {}
        for k, v in a.items():
            k2 = {f'self.{book}[-1]': COUNT, 'self.processed_traces': COUNT, f'self.{book}[0]': REF, 'self.convergence_step': STEP}.get(k, k)
            out[k2] = out.get(k2, 0) + v
        return {k: v for k, v in out.items() if v}
    calls = [c for c in ast.walk(bl.node) if isinstance(c, ast.Call) and norm(c.func) == 'self._compute_convergence_traces']
    if len(calls) != 1:
        ctx.undecided('C08-D4', key, f'{len(calls)} emission sites in the batch hook', bl.where())
        return
    g = normalize.conjuncts(astutil.guards(calls[0], pm, bl.node))
    cmp_ = [t for t, pol in g if pol and isinstance(expand(t), ast.Compare) and len(expand(t).ops) == 1]
    if len(cmp_) != 1:
        ctx.undecided('C08-D4', key, 'emission guard not a single comparison', bl.where(calls[0]))
        return
    t0 = cmp_[0]
    t = expand(t0)
    diff = rename(ast.BinOp(t.left, ast.Sub(), t.comparators[0]))
    want = {COUNT: 1, REF: -1, STEP: -1}
    op = type(t.ops[0])
    if diff is None:
        ctx.undecided('C08-D4', f'{key} guard', f'guard `{norm(t)}` not affine in count, reference and step', bl.where(calls[0]))
    else:
        ok = (diff == want and op in (ast.GtE, ast.Gt)) or (diff == {k: -v for k, v in want.items()} and op in (ast.LtE, ast.Lt))
        ctx.check(ok, 'C08-D4', f'{key} guard', f'a point is taken when `{norm(t)}`: not "processed count - count at the last point >= step"',
                  f'point taken when `{norm(t)}` (count - reference >= step)', bl.where(calls[0]))
    # the reset in the same branch
    branch = next(par for par, field in astutil.enclosing(calls[0], pm, bl.node) if isinstance(par, ast.If) and any(n_ is t0 for n_ in ast.walk(par.test)))
    resets = [s_ for s_ in ast.walk(branch) if isinstance(s_, ast.Assign) and self_attr(s_.targets[0]) == book and isinstance(s_.targets[0], ast.Attribute)]
    if len(resets) != 1 or not (isinstance(resets[0].value, ast.List) and len(resets[0].value.elts) == 1):
        ctx.undecided('C08-D4', f'{key} reference', 'the reference is not reset by one assignment of a one-element list in the emission branch', bl.where(calls[0]))
    else:
        r = rename(resets[0].value.elts[0])
        if r is None:
            ctx.undecided('C08-D4', f'{key} reference', f'new reference `{norm(resets[0].value.elts[0])}` not understood', bl.where(resets[0]))
        else:
            ctx.check(r == {COUNT: 1}, 'C08-D4', f'{key} reference', f'after a point the reference becomes `{norm(resets[0].value.elts[0])}`, not the count at which the point was taken: the next point can come '
                      f'less than one step later (or the spacing drifts)', 'after a point the reference is the count at that point: consecutive points are >= step apart', bl.where(resets[0]))
    # final hook
    ifs = [s_ for s_ in fc_body[1:] if isinstance(s_, ast.If)]
    fkey = f'{fc.key}::last column'
    if len(ifs) != 1 or ifs[0].orelse or not any(isinstance(c, ast.Call) and norm(c.func) == 'self._compute_convergence_traces' for c in ast.walk(ifs[0])):
        ctx.undecided('C08-D3', fkey, 'final hook shape not recognised', fc.where())
        return
    test = ifs[0].test
    reads = astutil.self_attrs_read(test)
    if book not in reads:
        ctx.fail('C08-D3', fkey, f'the last column is appended when `{norm(test)}`, which does not consult the record of counts since the last point (self.{book}): it cannot tell '
                 f'whether traces were processed since the last point (missing or duplicated last column)', fc.where(ifs[0]))
        return
    try:
        from .c15 import ceval, Undecidable
        res = {}
        for n_ in (1, 2, 3, 5):
            env = {f'len(self.{book})': n_, 'self.convergence_step': 7}
            res[n_] = bool(ceval(test, env))
        off = bool(ceval(test, {f'len(self.{book})': 3, 'self.convergence_step': 0})) or bool(ceval(test, {f'len(self.{book})': 3, 'self.convergence_step': None}))
        ctx.check(res == {1: False, 2: True, 3: True, 5: True} and not off, 'C08-D3', fkey, f'`{norm(test)}` is not "a convergence step is set and at least one batch was recorded since the last point" '
                  f'(len = 1 right after a point): {res}', 'last column appended iff traces were processed since the last point', fc.where(ifs[0]))
    except Exception as e:       # Undecidable
        ctx.undecided('C08-D3', fkey, f'final condition `{norm(test)}` not evaluable: {e}', fc.where(ifs[0]))
    # initial reference
    inits = []
    in_hook = {k_.split(':')[-1].split('.')[-1] for k_ in getattr(bl, 'inlined_helpers', [])}      # helpers read as part of the per-batch hook
    for f_ in [m_ for c_ in prog.mro(base) for m_ in c_.methods.values()]:      # the record may be set up in a mixin of BaseAttack
        if f_.name == bl.name or f_.name in in_hook:
            continue
        for s_ in ast.walk(f_.node):
            if isinstance(s_, ast.Assign) and len(s_.targets) == 1:
                t_, v_ = s_.targets[0], s_.value
                if self_attr(t_) == book and isinstance(t_, ast.Attribute):
                    inits.append(v_)
                elif isinstance(t_, ast.Tuple) and isinstance(v_, ast.Tuple) and len(t_.elts) == len(v_.elts):
                    inits.extend(y_ for x_, y_ in zip(t_.elts, v_.elts) if self_attr(x_) == book)
    ok = bool(inits) and all(isinstance(v_, ast.List) and len(v_.elts) == 1 and norm(v_.elts[0]) in ('0', 'self.processed_traces') for v_ in inits)
    ctx.check(ok, 'C08-D4', f'{base.key}::initial reference', 'the bookkeeping does not start from [0] (no traces, no point yet)', 'bookkeeping starts at [0]', base.mod.relpath)


def d5(ctx, prog, base):
    """"Requesting convergence traces never changes the final results": every convergence point is an extra compute() between two
    updates, so the clause is exactly the purity of the compute closure of every attack distinguisher - the analysis of C01-D5
    (alias / freshness classes of everything compute writes), run here over the classes an attack can be built from and reported
    under this property."""
    from . import c01
    ctx.rule('C08-D5', 'an intermediate compute() leaves the accumulators of every attack distinguisher as they were (compute closure without persistent effect: the analysis of C01-D5 over the attack classes)')
    us, concrete = c01.units(prog)
    n = 0
    for u in us:
        if base not in prog.mro(u.cls):
            continue
        u.guard = c01.find_guard(prog, u)
        u.acc = universe.accumulators(prog, u.cls, u.init)
        if not u.acc:
            raise AnalysisError(f'no accumulator discovered for {u.cls.key}')
        c01.d5(ctx, prog, u.cls, u.compute, u.acc, u.count, u.guard or '', rule='C08-D5')
        n += 1
    ctx.floor('attack classes whose compute closure is analysed', n, 8)


def run(ctx, prog):
    from .. import universe as _uni0
    _uni0.inline_base_entry_points(ctx, prog)
    ctx.rule('C08-D1', 'every _compute_convergence_traces call follows a compute_results() newer than the last process(); it appends scores[..., None] on the last axis; only the two hooks call it')
    ctx.rule('C08-D2', 'the convergence hooks store only convergence_traces, _batches_processed, results, scores')
    ctx.rule('C08-D3', '_final_compute: super()._final_compute() first, then append iff the bookkeeping shows traces processed since the last point')
    ctx.rule('C08-D4', 'spacing by induction: count recorded per batch; point taken when count - reference >= step; the reference becomes the count at that point; starts at [0]')
    ctx.assume('the derivation of the batch size from convergence_step and the repeated-run remainder handling are arithmetic over run-time counters and not decided')
    base = prog.need_class(AB, 'BaseAttack')
    allc, concrete = universe.distinguisher_classes(prog)
    attacks = [c for c in universe.analysis_classes(prog, concrete) if base in prog.mro(c)]
    if not attacks:
        raise AnalysisError('no attack class found')

    d5(ctx, prog, base)

    def keep(ev, fl):
        return ev[0] == 'call' and ev[1] in ('self.process', 'self.update', 'self.compute_results', 'self._compute_convergence_traces', 'self.compute')
    seen = set()
    n_calls = 0
    for ci in attacks:
        sig = tuple(prog.resolve_method(ci, m).key for m in ('run', '_batch_loop_compute', '_final_compute', 'compute_results', '_compute_convergence_traces'))
        if sig in seen:
            continue
        seen.add(sig)
        run_f = prog.resolve_method(ci, 'run')
        fl = flow.Flow(prog, ci, keep=keep, unroll=2,
                       inline=lambda callee, call, caller: callee.mod.name.startswith('scared.analysis') and callee.name not in ('process',))
        paths = fl.run(run_f)
        stale_sites = {}
        ok_sites = {}
        for p in paths:
            fresh = False
            for ev in p.events:
                name = ev[1]
                if name in ('self.process', 'self.update'):
                    fresh = False
                elif name == 'self.compute_results':
                    pass            # the refresh itself is the self.compute() inside it
                elif name == 'self.compute':
                    fresh = True
                elif name == 'self._compute_convergence_traces':
                    n_calls += 1
                    f, node = fl.sites[ev[3]]
                    k = f'{f.key}::{norm(node)} ({ci.name})'
                    (ok_sites if fresh else stale_sites)[k] = f.where(node)
        for k, w in stale_sites.items():
            ctx.fail('C08-D1', k, 'a convergence column can be appended from scores that were computed before the last processed batch (no compute_results() in between): '
                                  'the column is not the score on the traces processed up to that point', w)
        for k, w in ok_sites.items():
            if k not in stale_sites:
                ctx.ok('C08-D1', k, f'on every path the scores are refreshed after the last processed batch ({len(paths)} paths through run())', w)
        ctx.count('run_paths', len(paths))
    # who calls it
    cc = prog.resolve_method(base, '_compute_convergence_traces')       # along the MRO: the hooks may sit in a mixin of BaseAttack
    if cc is None:
        raise AnalysisError('BaseAttack._compute_convergence_traces not found')
    hook_names = {getattr(prog.resolve_method(base, n_), 'qualname', None) for n_ in ('_batch_loop_compute', '_final_compute')} - {None}
    callers = set()
    for f in prog.funcs:
        for c in ast.walk(f.node):
            if isinstance(c, ast.Call) and isinstance(c.func, ast.Attribute) and c.func.attr == '_compute_convergence_traces':
                callers.add(f.qualname)
    ctx.check(callers <= hook_names, 'C08-D1', f'{cc.key}::callers',
              f'_compute_convergence_traces is also called from {sorted(callers - hook_names)}', f'called only from {sorted(callers)}', cc.where())
    # what it appends
    ldefs0_ = astutil.local_defs(cc.node)
    apps = [c for c in ast.walk(cc.node) if isinstance(c, ast.Call) and norm(c.func).split('.')[-1] in ('append', 'concatenate', 'hstack', 'dstack')
            and 'convergence_traces' in norm(astutil.expand_locals(c, ldefs0_)) and 'scores' in norm(astutil.expand_locals(c, ldefs0_))]
    st = [s for s in ast.walk(cc.node) if isinstance(s, ast.Assign) and s.value in apps]
    NEWLAST = ('self.scores[...,None]', 'self.scores[...,_np.newaxis]', 'self.scores[...,np.newaxis]', '_np.expand_dims(self.scores,-1)', '_np.expand_dims(self.scores,axis=-1)')
    if len(apps) == 1 and len(st) == 1 and self_attr(st[0].targets[0]) == 'convergence_traces':
        c_ = apps[0]
        parts = list(c_.args[0].elts) if c_.args and isinstance(c_.args[0], (ast.Tuple, ast.List)) else list(c_.args[:2])
        ldefs_ = astutil.local_defs(cc.node)
        ptxt = [norm(astutil.expand_locals(x, ldefs_)).replace(' ', '') for x in parts]
        for w_ in ('_np.asanyarray(', '_np.asarray(', 'np.asanyarray(', 'np.asarray('):      # value-preserving views of the part
            ptxt = [t[len(w_):-1] if t.startswith(w_) and t.endswith(')') and t.count('(') == 1 else t for t in ptxt]
        ax = next((k.value for k in c_.keywords if k.arg == 'axis'), c_.args[2] if len(c_.args) > 2 else (c_.args[1] if len(c_.args) == 2 and isinstance(c_.args[0], (ast.Tuple, ast.List)) else None))
        axv = astutil.const_value_(ax) if ax is not None else None
        if len(ptxt) == 2 and ptxt[0] == 'self.convergence_traces' and ptxt[1] in NEWLAST and isinstance(axv, int):
            ctx.check(axv == -1, 'C08-D1', f'{cc.key}::append', f'the new scores are appended along axis {axv}, not as a new last column', 'appends self.scores[..., None] on the last axis', cc.where())
        elif len(ptxt) == 2 and ptxt[0] == 'self.convergence_traces' and any(ptxt[1].startswith(x + '.astype(') for x in NEWLAST + ('self.scores',)):
            ctx.fail('C08-D1', f'{cc.key}::append', f'the column appended is `{ptxt[1][:70]}`: the scores converted to another dtype, not the scores - a column no longer equals the fresh prefix scores '
                     '(float64 scores rounded to a float32 precision, truncated to an integer precision)', cc.where())
        elif len(ptxt) == 2 and ptxt[0] in NEWLAST and ptxt[1] == 'self.convergence_traces':
            ctx.fail('C08-D1', f'{cc.key}::append', 'the new scores are put in front of the existing columns: the columns are not in processing order', cc.where())
        else:
            ctx.undecided('C08-D1', f'{cc.key}::append', f'`{norm(c_)[:80]}` not recognised as appending self.scores[..., None] on the last axis', cc.where())
    else:
        ctx.undecided('C08-D1', f'{cc.key}::append', 'the statement extending the convergence traces was not found', cc.where())
    inits = [s for s in ast.walk(cc.node) if isinstance(s, ast.Assign) and self_attr(s.targets[0]) == 'convergence_traces' and s not in st]
    for s in inits:
        # what is created holds no column yet: scores.shape + (0,) - a first column that is not a score (uninitialised, zeros)
        # would be a point no fresh attack produces
        v_ = astutil.expand_locals(s.value, astutil.local_defs(cc.node))
        k0 = f'{cc.key}::{norm(s)[:50]} columns'
        ext = None
        if isinstance(v_, ast.Call) and norm(v_.func).split('.')[-1] in ('empty', 'zeros', 'ones', 'ndarray', 'full') and (v_.args or any(k.arg == 'shape' for k in v_.keywords)):
            shp = v_.args[0] if v_.args else next(k.value for k in v_.keywords if k.arg == 'shape')
            last_ = None
            if isinstance(shp, ast.BinOp) and isinstance(shp.op, ast.Add) and isinstance(shp.right, ast.Tuple) and shp.right.elts:
                last_ = shp.right.elts[-1]
            elif isinstance(shp, ast.Tuple) and shp.elts and not isinstance(shp.elts[-1], ast.Starred):
                last_ = shp.elts[-1]
            ext = astutil.const_value_(last_) if last_ is not None else None
        if isinstance(v_, ast.Constant) and v_.value is None:
            pass                      # reset to "no convergence traces yet"
        elif isinstance(ext, int) and not isinstance(ext, bool):
            ctx.check(ext == 0, 'C08-D1', k0, f'the convergence traces are created with {ext} column(s) already present (`{norm(s.value)[:60]}`): the first column is not the score of any prefix of the traces',
                      'created with no column (last extent 0)', cc.where(s))
        else:
            ctx.undecided('C08-D1', k0, f'the number of columns of the array created by `{norm(s.value)[:60]}` is not a literal extent', cc.where(s))
        pm = astutil.parents(cc.node)
        g = astutil.guards(s, pm)
        if any(pol and norm(t).replace(' ', '') in ('self.convergence_tracesisNone', 'Noneisself.convergence_traces') for t, pol in g) or \
                any((not pol) and norm(t).replace(' ', '') in ('self.convergence_tracesisnotNone',) for t, pol in g):
            ctx.ok('C08-D1', f'{cc.key}::{norm(s)[:60]}', 'created only when still None', cc.where(s))
        elif not g:
            ctx.fail('C08-D1', f'{cc.key}::{norm(s)[:60]}', 'the convergence traces are re-created unconditionally although columns may already exist (earlier points lost)', cc.where(s))
        elif any(pol and isinstance(t, ast.BoolOp) and isinstance(t.op, ast.Or) and any(norm(v_).replace(' ', '') == 'self.convergence_tracesisNone' for v_ in t.values) for t, pol in g):
            ctx.fail('C08-D1', f'{cc.key}::{norm(s)[:60]}', f'the convergence traces are re-created not only when still None but also under `{norm(g[0][0])[:70]}`: earlier points are lost', cc.where(s))
        else:
            ctx.undecided('C08-D1', f'{cc.key}::{norm(s)[:60]}', f'condition {[norm(t) for t, _ in g]} under which the convergence traces are created not understood', cc.where(s))
    # D2
    for name in ('_batch_loop_compute', '_final_compute', '_compute_convergence_traces', 'compute_results'):
        f = prog.resolve_method(base, name)
        if f is None:
            raise AnalysisError(f'BaseAttack.{name} not found')
        stored = {self_attr(t) for t, s, how in kernels.stores(f.node) if self_attr(t)}
        mut = {norm(c.func.value)[5:] for c in ast.walk(f.node) if isinstance(c, ast.Call) and isinstance(c.func, ast.Attribute)
               and c.func.attr in ('append', 'extend', 'clear', 'pop', 'insert') and norm(c.func.value).startswith('self.')}
        bad = (stored | mut) - ALLOWED
        ctx.check(not bad, 'C08-D2', f'{f.key}::stores', f'the convergence path writes {sorted(bad)}: requesting convergence traces changes state the final results depend on',
                  f'writes only {sorted(stored | mut)}', f.where())
    # D3
    fc = prog.resolve_method(base, '_final_compute')
    body = [s for s in fc.node.body if not (isinstance(s, ast.Expr) and isinstance(s.value, ast.Constant))]
    first_ok = bool(body) and norm(body[0]).replace(' ', '') == 'super()._final_compute()'
    ctx.pattern(first_ok, 'C08-D3', f'{fc.key}::refresh first', '_final_compute does not start with super()._final_compute() (the freshness of the last column is decided by C08-D1 on the paths)', 'final results computed first', fc.where())
    bl = prog.resolve_method(base, '_batch_loop_compute')
    d4(ctx, prog, base, bl, fc, body)
    ctx.floor('convergence call events judged', n_calls, 4)
    ctx.floor('attack hook combinations', len(seen), 1)
