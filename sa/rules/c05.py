"""C05 - AES conforms to FIPS-197 (ingredients decided statically).

D1 tables        SBOX (GF(2^8) inverse + affine map), INV_SBOX (its inverse permutation), RCON (powers of x), SHIFT_ROWS /
                 INV_SHIFT_ROWS (index maps, mutually inverse), XTIME_k[x] = k.x for k in 2,3,9,11,13,14: all entries.
D2 primitives    sub_bytes = SBOX[state], inv_sub_bytes = INV_SBOX[state], shift_rows / inv gather with the right table on the
                 last (16) axis, add_round_key = xor of its two arguments, inv_add_round_key is add_round_key.
D3 MixColumns    labelled def-use of mix_column / inv_mix_column: output byte j <- table <- input byte r is the circulant of
                 (2,3,1,1) resp. (14,11,13,9); mix_columns applies it to each 4-byte group of the (...,4,4) view.
D4 round lists   _ENC_ROUND / _DEC_ROUND are the resolved primitives in Steps / InverseSteps order; FIRST / LAST variants differ
                 from them exactly by the FIPS-mandated identities; encrypt/decrypt pass the matching triple; decryption
                 reverses the round-key axis; round i uses round_keys[:, i, :].
D5 ownership     no in-place effect reaches a caller-owned array; the state buffer is a copy on both branches.
D6 stop point    the last round is cut at [:after_step + 1] (inclusive).
"""
import ast

from .. import tables, enumtab, alias, astutil
from ..model import norm, AnalysisError, const_value
from spec import fips
from .c06 import d6 as ownership

A = 'scared.aes.base'


def d1(ctx, prog):
    sb = fips.aes_sbox()
    inv = [0] * 256
    for i, v in enumerate(sb):
        inv[v] = i
    isr = [0] * 16
    for i, v in enumerate(fips.SHIFT_ROWS):
        isr[v] = i
    want = {'SBOX': sb, 'INV_SBOX': inv, 'SHIFT_ROWS': fips.SHIFT_ROWS, 'INV_SHIFT_ROWS': isr}
    for k in (2, 3, 9, 11, 13, 14):
        want[f'XTIME_{k}'] = [fips.gmul(k, x) for x in range(256)]
    n = 0
    for name, w in want.items():
        got, node = tables.literal(prog, A, name)
        n += len(w)
        diff = tables.first_diff(list(got), list(w))
        ctx.check(diff is None, 'C05-D1', f'{A}::{name}', f'{name}{list(diff[0]) if diff else ""} = {diff[1] if diff else ""}; FIPS-197 gives {diff[2] if diff else ""}',
                  f'all {len(w)} entries of {name} equal the FIPS-197 definition', tables.where(prog, A, node), entries=len(w))
    got, node = tables.literal(prog, A, 'RCON')
    rc = fips.aes_rcon(len(got))
    ok = all(list(r) == [rc[i], 0, 0, 0] for i, r in enumerate(got)) and len(got) >= 10
    ctx.check(ok, 'C05-D1', f'{A}::RCON', 'RCON is not [x^(i), 0, 0, 0] for i = 0..9 (powers of x in GF(2^8))', f'RCON: {len(got)} round constants [x^i,0,0,0]', tables.where(prog, A, node))
    co, node = tables.literal(prog, A, '_cols_out')
    ctx.check(co == {16: 44, 24: 52, 32: 60}, 'C05-D1', f'{A}::_cols_out', f'_cols_out = {co}; FIPS-197 schedules have 4*(Nr+1) = 44/52/60 columns', '_cols_out = {16:44, 24:52, 32:60}', tables.where(prog, A, node))
    return n + 10


def d2(ctx, prog):
    from .. import inline
    tabs = {'SBOX', 'INV_SBOX', 'SHIFT_ROWS', 'INV_SHIFT_ROWS'}
    for name, table in (('sub_bytes', 'SBOX'), ('inv_sub_bytes', 'INV_SBOX')):
        f = inline.inlined(prog, prog.need_func(A, name), skip={'_is_bytes_of_len'})
        paths = astutil.return_paths(f.node)
        p = f.params[0]
        key = f'{f.key}::return'
        if not paths or len(paths) != 1 or paths[0][1] is None:
            ctx.undecided('C05-D2', key, 'returned expression not derivable', f.where())
            continue
        e = paths[0][1]
        # TABLE[state] / numpy.take(TABLE, state) / TABLE.take(state)
        tab = idx = None
        if isinstance(e, ast.Subscript) and isinstance(e.value, ast.Name):
            tab, idx = e.value.id, e.slice
        elif isinstance(e, ast.Call) and norm(e.func).split('.')[-1] == 'take' and len(e.args) >= 1:
            if isinstance(e.func, ast.Attribute) and isinstance(e.func.value, ast.Name) and e.func.value.id in tabs:
                tab, idx = e.func.value.id, e.args[0]
            elif len(e.args) >= 2 and isinstance(e.args[0], ast.Name):
                tab, idx = e.args[0].id, e.args[1]
        if tab in tabs and idx is not None and norm(idx) == p:
            ctx.check(tab == table, 'C05-D2', key, f'{name} looks the state up in {tab}, not in {table}', f'{name} = {table}[state]', f.where())
        else:
            ctx.undecided('C05-D2', key, f'{name} returns `{norm(e)[:60]}`: not a lookup of the state in one of the S-box tables', f.where())
    for name, table in (('shift_rows', 'SHIFT_ROWS'), ('inv_shift_rows', 'INV_SHIFT_ROWS')):
        f = inline.inlined(prog, prog.need_func(A, name), skip={'_is_bytes_of_len'})
        paths = astutil.return_paths(f.node)
        p = f.params[0]
        key = f'{f.key}::gather'
        if not paths or len(paths) != 1 or paths[0][1] is None:
            ctx.undecided('C05-D2', key, 'returned expression not derivable', f.where())
            continue
        e = paths[0][1]
        tab = None
        txt = norm(e).replace(' ', '')
        m = None
        for t in tabs:
            forms = (f'{p}.reshape((-1,16))[:,{t}].reshape({p}.shape)', f'{p}[...,{t}]', f'_np.take({p},{t},axis=-1)', f'{p}.take({t},axis=-1)',
                     f'{p}.reshape(-1,16)[:,{t}].reshape({p}.shape)', f'_np.take({p},{t},-1)')
            if txt in forms:
                m = t
        if m is not None:
            ctx.check(m == table, 'C05-D2', key, f'{name} gathers the last (16) axis with {m}, not with {table}', f'{name}: out[..., i] = in[..., {table}[i]]', f.where())
        else:
            ctx.undecided('C05-D2', key, f'{name} returns `{txt[:70]}`: not a gather of the last axis by one of the ShiftRows tables in a recognised form', f.where())
    f = prog.need_func(A, 'add_round_key')
    paths = astutil.return_paths(inline.inlined(prog, f, skip={'_is_bytes_of_len'}).node)
    e = paths[0][1] if paths and len(paths) == 1 else None
    key = f'{f.key}::xor'
    ops = None
    if isinstance(e, ast.Call) and norm(e.func).split('.')[-1] == 'bitwise_xor' and len(e.args) == 2:
        ops = [norm(a) for a in e.args]
    elif isinstance(e, ast.BinOp) and isinstance(e.op, ast.BitXor):
        ops = [norm(e.left), norm(e.right)]
    elif isinstance(e, ast.Call) and norm(e.func).split('.')[-1] in ('bitwise_or', 'bitwise_and', 'add', 'subtract') or isinstance(e, ast.BinOp):
        ctx.fail('C05-D2', key, f'add_round_key computes `{norm(e)[:60]}`, not the xor of state and key', f.where())
        ops = False
    if ops is None:
        ctx.undecided('C05-D2', key, f'add_round_key returns `{norm(e)[:60] if e is not None else "?"}`', f.where())
    elif ops:
        ctx.check(sorted(ops) == sorted(f.params), 'C05-D2', key, f'add_round_key xors {ops}, not its two arguments', 'add_round_key = state xor keys', f.where())
    r = prog.lookup(prog.need_mod(A), 'inv_add_round_key')
    ctx.check(bool(r) and r[0] == 'func' and r[1] is f, 'C05-D2', f'{A}::inv_add_round_key', 'inv_add_round_key is not add_round_key', 'inv_add_round_key is add_round_key', f.where())


def mix_relation(f):
    """output byte j <- {(table, input byte r)} from the loop of mix_column-like function f"""
    loops = [n for n in f.node.body if isinstance(n, ast.For)]
    if len(loops) != 1 or norm(loops[0].iter).replace(' ', '') != 'range(4)' or not isinstance(loops[0].target, ast.Name):
        raise AnalysisError(f'{f.name}: loop over the four input bytes not recognised')
    loop = loops[0]
    var = loop.target.id
    # data = vectors.reshape((-1, 4)); out = zeros
    out = [set() for _ in range(4)]
    for row in range(4):
        tmp = None
        for st in loop.body:
            if not (isinstance(st, ast.Assign) and isinstance(st.targets[0], ast.Name)):
                raise AnalysisError(f'{f.name}: statement `{norm(st)[:50]}` not modelled')
            tgt, v = st.targets[0].id, st.value
            if isinstance(v, ast.Attribute) and v.attr == 'T' and isinstance(v.value, ast.Call) and norm(v.value.func).split('.')[-1] == 'array':
                items = v.value.args[0].elts
                if len(items) != 4:
                    raise AnalysisError(f'{f.name}: column vector does not have 4 entries')
                vec = []
                for it in items:
                    if isinstance(it, ast.Subscript) and isinstance(it.value, ast.Name) and it.value.id.startswith('XTIME_'):
                        tab, idx = it.value.id, it.slice
                    else:
                        tab, idx = 'ID', it
                    if not (isinstance(idx, ast.Subscript) and norm(idx).replace(' ', '') == f'data[:,{var}]'):
                        raise AnalysisError(f'{f.name}: entry `{norm(it)[:40]}` is not a table of data[:, {var}]')
                    vec.append((tab, row))
                tmp = vec
            elif isinstance(v, ast.Call) and norm(v.func).split('.')[-1] == 'roll':
                kws = {k.arg: k.value for k in v.keywords}
                if norm(v.args[0]) != tgt or tmp is None or norm(kws.get('axis')) != '-1':
                    raise AnalysisError(f'{f.name}: roll not understood')
                sh = kws.get('shift')
                if isinstance(sh, ast.UnaryOp) and isinstance(sh.op, ast.USub) and isinstance(sh.operand, ast.Name) and sh.operand.id == var:
                    s = -row
                else:
                    s = row if (isinstance(sh, ast.Name) and sh.id == var) else const_value(sh)
                if not isinstance(s, int):
                    raise AnalysisError(f'{f.name}: roll shift not understood')
                tmp = [tmp[(j - s) % 4] for j in range(4)]          # numpy.roll: out[j] = in[j - shift]
            elif isinstance(v, ast.Call) and norm(v.func).split('.')[-1] == 'bitwise_xor':
                if tmp is None or sorted(norm(a) for a in v.args) != sorted([tgt, 'tmp']):
                    raise AnalysisError(f'{f.name}: accumulation is not out = out xor tmp')
                for j in range(4):
                    out[j].add(tmp[j])
            else:
                raise AnalysisError(f'{f.name}: statement `{norm(st)[:50]}` not modelled')
    return out


def d3(ctx, prog):
    names = {1: 'ID', 2: 'XTIME_2', 3: 'XTIME_3', 9: 'XTIME_9', 11: 'XTIME_11', 13: 'XTIME_13', 14: 'XTIME_14'}
    for fname, first in (('mix_column', [2, 3, 1, 1]), ('inv_mix_column', [14, 11, 13, 9])):
        f = prog.need_func(A, fname)
        key = f'{f.key}::dependency relation'
        try:
            got = mix_relation(f)
        except AnalysisError as e:
            ctx.undecided('C05-D3', key, str(e), f.where())
            continue
        exp = [{(names[first[(r - j) % 4]], r) for r in range(4)} for j in range(4)]
        if got == exp:
            ctx.ok('C05-D3', key, f'{fname}: out[j] = xor_r {first}[(r-j) mod 4] . in[r] - the FIPS-197 circulant (16 table edges)', f.where(), edges=16)
        else:
            j = next(i for i in range(4) if got[i] != exp[i])
            ctx.fail('C05-D3', key, f'{fname}: output byte {j} is built from {sorted(got[j])}; FIPS-197 requires {sorted(exp[j])}', f.where())
        # zero start
        inits = [s for s in f.node.body if isinstance(s, ast.Assign) and norm(s.targets[0]) == 'out']
        ctx.check(bool(inits) and norm(inits[0].value.func).split('.')[-1] == 'zeros', 'C05-D3', f'{f.key}::accumulator', 'the xor accumulator does not start from zeros', 'xor accumulator starts from zeros', f.where())
    for fname, inner in (('mix_columns', 'mix_column'), ('inv_mix_columns', 'inv_mix_column')):
        f = prog.need_func(A, fname)
        txt = norm(f.node).replace(' ', '')
        p = f.params[0]
        ok = f'data={p}.reshape((-1,4,4))' in txt and 'forcolinrange(4):' in txt and f'out[:,col]={inner}(data[:,col])' in txt and 'returnout.reshape(dims)' in txt \
            and f'dims={p}.shape' in txt
        ctx.pattern(ok, 'C05-D3', f'{f.key}::per column', f'{fname} does not apply {inner} to each of the four 4-byte groups of the (...,4,4) view', f'{inner} applied to each of the 4 columns', f.where())


def d4(ctx, prog):
    m = prog.need_mod(A)
    steps = enumtab.enum_members(prog, A, 'Steps')
    isteps = enumtab.enum_members(prog, A, 'InverseSteps')
    lists = {}
    for name in ('_ENC_FIRST_ROUND', '_ENC_ROUND', '_ENC_LAST_ROUND', '_DEC_FIRST_ROUND', '_DEC_ROUND', '_DEC_LAST_ROUND'):
        if name not in m.assigns:
            raise AnalysisError(f'{name} not found')
        lists[name] = [x.split('.')[-1] if x else x for x in enumtab.eval_list(prog, m, m.assigns[name], m.assigns, 'Steps')]
    want_enc = {'SUB_BYTES': 'sub_bytes', 'SHIFT_ROWS': 'shift_rows', 'MIX_COLUMNS': 'mix_columns', 'ADD_ROUND_KEY': 'add_round_key'}
    want_dec = {'INV_ADD_ROUND_KEY': 'add_round_key', 'INV_MIX_COLUMNS': 'inv_mix_columns', 'INV_SHIFT_ROWS': 'inv_shift_rows', 'INV_SUB_BYTES': 'inv_sub_bytes'}
    enc = [want_enc[k] for k, v in sorted(steps.items(), key=lambda kv: kv[1])] if set(steps) == set(want_enc) else None
    dec = [want_dec[k] for k, v in sorted(isteps.items(), key=lambda kv: kv[1])] if set(isteps) == set(want_dec) else None
    if enc is None or dec is None:
        raise AnalysisError('Steps / InverseSteps members changed')
    loc = m.relpath
    ctx.check(enc == ['sub_bytes', 'shift_rows', 'mix_columns', 'add_round_key'], 'C05-D4', f'{A}::Steps order', f'Steps enumerates the round as {enc}; FIPS-197 Cipher(): SubBytes, ShiftRows, MixColumns, AddRoundKey', 'Steps follow FIPS-197 Cipher()', loc)
    ctx.check(dec == ['add_round_key', 'inv_mix_columns', 'inv_shift_rows', 'inv_sub_bytes'], 'C05-D4', f'{A}::InverseSteps order', f'InverseSteps enumerates {dec}', 'InverseSteps: AddRoundKey, InvMixColumns, InvShiftRows, InvSubBytes', loc)
    ctx.check(lists['_ENC_ROUND'] == enc, 'C05-D4', f'{A}::_ENC_ROUND', f'_ENC_ROUND = {lists["_ENC_ROUND"]}: position i must be the primitive of Steps value i', '_ENC_ROUND[i] is the primitive of Steps(i)', loc)
    ctx.check(lists['_DEC_ROUND'] == dec, 'C05-D4', f'{A}::_DEC_ROUND', f'_DEC_ROUND = {lists["_DEC_ROUND"]}: position i must be the primitive of InverseSteps value i', '_DEC_ROUND[i] is the primitive of InverseSteps(i)', loc)

    def variant(base, ident):
        return [('_identity' if i in ident else x) for i, x in enumerate(base)]
    exp = {'_ENC_FIRST_ROUND': (variant(enc, {0, 1, 2}), 'round 0 is only AddRoundKey'),
           '_ENC_LAST_ROUND': (variant(enc, {2}), 'the last round has no MixColumns'),
           '_DEC_FIRST_ROUND': (variant(dec, {1}), 'the first inverse round has no InvMixColumns'),
           '_DEC_LAST_ROUND': (variant(dec, {1, 2, 3}), 'the last inverse round is only AddRoundKey')}
    for name, (w, why) in exp.items():
        ctx.check(lists[name] == w, 'C05-D4', f'{A}::{name}', f'{name} = {lists[name]}; FIPS-197 requires {w} ({why})', f'{name}: {why}', loc)
    for fname, triple, mode in (('encrypt', ['_ENC_FIRST_ROUND', '_ENC_ROUND', '_ENC_LAST_ROUND'], None), ('decrypt', ['_DEC_FIRST_ROUND', '_DEC_ROUND', '_DEC_LAST_ROUND'], 'decrypt')):
        f = prog.need_func(A, fname)
        ops = [s for s in ast.walk(f.node) if isinstance(s, ast.Assign) and norm(s.targets[0]) == 'operations']
        ok = len(ops) == 1 and isinstance(ops[0].value, ast.List) and [norm(e) for e in ops[0].value.elts] == triple
        ctx.check(ok, 'C05-D4', f'{f.key}::operations', f'{fname} does not pass [{", ".join(triple)}]', f'{fname} passes its first/middle/last round lists', f.where())
        calls = [c for c in ast.walk(f.node) if isinstance(c, ast.Call) and norm(c.func) == '_parametric_cipher']
        kws = {k.arg: norm(k.value) for c in calls for k in c.keywords}
        ok = len(calls) == 1 and kws.get('operations') == 'operations' and kws.get('at_round') == 'at_round' and kws.get('after_step') == 'after_step' and \
            kws.get('key') == 'key' and kws.get('state') == f.params[0] and (kws.get('mode') == "'decrypt'" if mode else 'mode' not in kws)
        ctx.check(ok, 'C05-D4', f'{f.key}::call', f'{fname} does not forward its arguments (and mode) to _parametric_cipher unchanged: {kws}', f'{fname} forwards state, key, stop point' + (', mode=decrypt' if mode else ''), f.where())
    pk = prog.need_func(A, '_prepare_keys')
    flips = [s for s in ast.walk(pk.node) if isinstance(s, ast.Assign) and isinstance(s.value, ast.Call) and norm(s.value.func).split('.')[-1] == 'flip']
    pm = astutil.parents(pk.node)
    ok = len(flips) == 1 and norm(flips[0].targets[0]) == 'round_keys' and norm(flips[0].value.args[0]) == 'round_keys' and \
        any(k.arg == 'axis' and const_value(k.value) == 1 for k in flips[0].value.keywords) and \
        any(pol and norm(t).replace(' ', '') == "mode=='decrypt'" for t, pol in astutil.guards(flips[0], pm))
    ctx.check(ok, 'C05-D4', f'{pk.key}::reverse for decrypt', 'the round keys are not reversed along the round axis (axis 1 of (keys, rounds, 16)) exactly for decryption',
              'round-key axis reversed for decryption only', pk.where())
    from .. import inline
    pc0 = prog.need_func(A, '_parametric_cipher')
    pc = inline.inlined(prog, pc0, skip={'_prepare_rounds', '_prepare_keys', '_is_bytes_of_len', '_identity'})
    key = f'{pc0.key}::round loop'
    loops = [l for l in ast.walk(pc.node) if isinstance(l, ast.For) and isinstance(l.iter, ast.Call) and norm(l.iter.func) == 'enumerate' and norm(l.iter.args[0]) == 'rounds'
             and isinstance(l.target, ast.Tuple) and len(l.target.elts) == 2 and all(isinstance(x, ast.Name) for x in l.target.elts)]
    if len(loops) != 1:
        ctx.undecided('C05-D4', key, 'the loop over the prepared rounds (for i, ops in enumerate(rounds)) was not found', pc0.where())
        return
    ri, rops = loops[0].target.elts[0].id, loops[0].target.elts[1].id
    inner = [l for l in ast.walk(loops[0]) if isinstance(l, ast.For) and l is not loops[0] and (norm(l.iter) == rops or (isinstance(l.iter, ast.Call) and norm(l.iter.func) == 'enumerate' and norm(l.iter.args[0]) == rops))]
    if len(inner) != 1:
        ctx.undecided('C05-D4', key, 'the loop over the operations of a round was not found', pc0.where())
        return
    opv = inner[0].target.id if isinstance(inner[0].target, ast.Name) else (inner[0].target.elts[-1].id if isinstance(inner[0].target, ast.Tuple) and isinstance(inner[0].target.elts[-1], ast.Name) else None)
    calls_ark = [c for c in ast.walk(inner[0]) if isinstance(c, ast.Call) and norm(c.func) in ('add_round_key', opv) and any(k.arg == 'keys' for k in c.keywords)]
    ok = bool(calls_ark) and all(norm(next(k.value for k in c.keywords if k.arg == 'keys')).replace(' ', '') == f'round_keys[:,{ri},:]' for c in calls_ark)
    if calls_ark:
        ctx.check(ok, 'C05-D4', f'{pc0.key}::round key index', f'round {ri} does not use round_keys[:, {ri}, :] (`{norm(calls_ark[0])[:70]}`)', f'round {ri} uses round_keys[:, {ri}, :]', pc0.where())
    else:
        ctx.undecided('C05-D4', f'{pc0.key}::round key index', 'the key-mixing call (keys=...) was not found in the round loop', pc0.where())
    # every operation is applied to the running state, which is what the next operation receives
    applies = [s for s in ast.walk(inner[0]) if isinstance(s, ast.Assign) and isinstance(s.value, ast.Call) and norm(s.value.func) in (opv, 'add_round_key')]
    good = bool(applies)
    for a_ in applies:
        tgt = norm(a_.targets[0])
        arg = next((norm(k.value) for k in a_.value.keywords if k.arg == 'state'), norm(a_.value.args[0]) if a_.value.args else None)
        good = good and arg == tgt
    ctx.pattern(good and len({norm(a_.targets[0]) for a_ in applies}) == 1, 'C05-D4', f'{pc0.key}::apply operation', 'operations are not applied to the running state in list order',
                'each operation applied to the running state, in list order', pc0.where())


def d6(ctx, prog):
    """round composition for every stop point, by partial evaluation of the configuration code (sa.confinterp): encrypt / decrypt
    are interpreted up to their call of _parametric_cipher (captured), then _prepare_rounds is interpreted for every key size
    (11 / 13 / 15 round keys), every at_round (None and 0..Nr) and every after_step; the resulting operation sequence must be the
    FIPS-197 Cipher / InvCipher prefix that ends at that stop point."""
    from .. import confinterp as ci
    m = prog.need_mod(A)
    pr = prog.need_func(A, '_prepare_rounds')
    pc = prog.need_func(A, '_parametric_cipher')
    ident = prog.need_func(A, '_identity')
    body = [s for s in ident.node.body if not (isinstance(s, ast.Expr) and isinstance(s.value, ast.Constant))]
    ctx.check(len(body) == 1 and isinstance(body[0], ast.Return) and norm(body[0].value) == ident.params[0], 'C05-D6', f'{ident.key}::identity',
              '_identity does not return its argument unchanged', '_identity returns its argument', ident.where())
    steps = enumtab.enum_members(prog, A, 'Steps')
    isteps = enumtab.enum_members(prog, A, 'InverseSteps')
    K = lambda n: f'{A}:{n}'    # noqa: E731
    # FIPS-197: which primitive sits at which step position, and where the standard has none
    table = {
        'encrypt': ({steps['SUB_BYTES']: K('sub_bytes'), steps['SHIFT_ROWS']: K('shift_rows'), steps['MIX_COLUMNS']: K('mix_columns'), steps['ADD_ROUND_KEY']: K('add_round_key')},
                    lambda r, p, nr: (r == 0 and p != steps['ADD_ROUND_KEY']) or (r == nr and p == steps['MIX_COLUMNS'])),
        'decrypt': ({isteps['INV_ADD_ROUND_KEY']: K('add_round_key'), isteps['INV_MIX_COLUMNS']: K('inv_mix_columns'), isteps['INV_SHIFT_ROWS']: K('inv_shift_rows'), isteps['INV_SUB_BYTES']: K('inv_sub_bytes')},
                    lambda r, p, nr: (r == 0 and p == isteps['INV_MIX_COLUMNS']) or (r == nr and p != isteps['INV_ADD_ROUND_KEY'])),
    }
    n = 0
    for fname in ('encrypt', 'decrypt'):
        f = prog.need_func(A, fname)
        prims, absent = table[fname]
        it = ci.Interp(prog)
        captured = []
        pcsym = it.module_value(m, '_parametric_cipher')

        def stub(args, kwargs, captured=captured):
            captured.append((args, kwargs))
            return ci.Sym('ciphertext')
        orig_call = it.call

        def call(func, args=(), kwargs=None, selfobj=None, depth=0, orig_call=orig_call, stub=stub):
            if func is pc:
                return stub(args, kwargs or {})
            return orig_call(func, args, kwargs, selfobj, depth)
        it.call = call
        bad = []
        configs = 0
        try:
            for nrk in (11, 13, 15):
                nr = nrk - 1
                rk = ci.Obj(shape=(ci.Sym('n_keys'), nrk, 16))
                for ar in [None] + list(range(nrk)):
                    for stp in [None] + list(range(4)):
                        captured.clear()
                        kw = {f.params[0]: ci.Sym('state'), 'key': ci.Sym('key')}
                        if ar is not None:
                            kw['at_round'] = ar
                        if stp is not None:
                            kw['after_step'] = stp
                        orig_call(f, (), kw)
                        if len(captured) != 1:
                            raise ci.Unknown(f'{fname} does not call _parametric_cipher exactly once')
                        cargs, ckw = captured[0]
                        if cargs or ckw.get('at_round') != ar:
                            bad.append(f'{fname}(at_round={ar}) hands at_round={ckw.get("at_round")} to the cipher')
                            continue
                        eff_step = ckw.get('after_step')
                        if stp is not None and eff_step != stp:
                            bad.append(f'{fname}(after_step={stp}) hands after_step={eff_step} to the cipher')
                            continue
                        if stp is None and eff_step != 3:
                            bad.append(f'default after_step of {fname} is {eff_step}: a default call does not run the last step of the last round')
                            continue
                        want_mode = 'decrypt' if fname == 'decrypt' else 'encrypt'
                        mode_default = next((const_value(d) for p_, d in zip(reversed(pc.params), reversed(pc.node.args.defaults)) if p_ == 'mode'), None)
                        if ckw.get('mode', mode_default) != want_mode:
                            bad.append(f'{fname} runs the cipher in mode {ckw.get("mode", mode_default)!r}')
                            continue
                        try:
                            rounds = orig_call(pr, (), dict(round_keys=rk, at_round=ar, after_step=eff_step, operations=ckw.get('operations')))
                        except ci.Raised as e:
                            if ar == nrk - 1 + 1:
                                continue
                            bad.append(f'{fname}: at_round={ar}, after_step={eff_step} with {nrk} round keys is refused ({e.kind})')
                            continue
                        configs += 1
                        r_stop = nr if ar is None else ar
                        got = [[(o.name if isinstance(o, ci.Sym) else repr(o)) for o in ops] for ops in rounds]
                        exp = []
                        for r in range(r_stop + 1):
                            last_pos = eff_step if r == r_stop else 3
                            exp.append([(ident.key if absent(r, p, nr) else prims[p]) for p in range(last_pos + 1)])
                        if got != exp:
                            # first difference
                            d = next((r for r in range(max(len(got), len(exp))) if r >= len(got) or r >= len(exp) or got[r] != exp[r]), 0)
                            bad.append(f'{fname} with {nrk} round keys stopped at (at_round={ar}, after_step={eff_step}): {len(got)} rounds, round {d} = '
                                       f'{[x.split(":")[-1] for x in got[d]] if d < len(got) else "missing"}; FIPS-197 prefix has {len(exp)} rounds, round {d} = '
                                       f'{[x.split(":")[-1] for x in exp[d]] if d < len(exp) else "none"}')
            key = f'{f.key}::round composition'
            n += configs
            if it.template_writes:
                o, node = it.template_writes[0]
                ctx.fail('C05-D6', f'{pr.key}::shared round list', f'the stop-point surgery writes into the shared list {o} (`{norm(node)[:60]}`): later calls see a modified cipher', pr.where(node))
            if bad:
                ctx.fail('C05-D6', key, f'{bad[0]} ({len(bad)} stop points differ)', f.where(), differing=len(bad))
            else:
                ctx.ok('C05-D6', key, f'{configs} stop points (3 key sizes x at_round None/0..Nr x after_step default/0..3): the operation sequence is the FIPS-197 '
                       f'{"InvCipher" if fname == "decrypt" else "Cipher"} prefix ending at that step', f.where(), stop_points=configs)
        except ci.Unknown as e:
            ctx.undecided('C05-D6', f'{f.key}::round composition', f'configuration code not evaluable: {e}', f.where())
    # the driver hands the stop point over unchanged
    calls = [c for c in ast.walk(pc.node) if isinstance(c, ast.Call) and norm(c.func) == '_prepare_rounds']
    ok = len(calls) == 1
    if ok:
        amap = {}
        for i_, a in enumerate(calls[0].args):
            amap[pr.params[i_]] = norm(a)
        for k in calls[0].keywords:
            amap[k.arg] = norm(k.value)
        ok = amap.get('at_round') == 'at_round' and amap.get('after_step') == 'after_step' and amap.get('operations') == 'operations' and amap.get('round_keys') == 'round_keys'
    ctx.check(ok, 'C05-D6', f'{pc.key}::stop point hand-over', '_parametric_cipher does not pass at_round / after_step / operations / round_keys to _prepare_rounds unchanged',
              'stop point and operation lists handed to _prepare_rounds unchanged', pc.where())
    return n


def buffer_dtypes(ctx, prog, modname, rule):
    """every array allocated in a cipher module has a dtype fixed by the module (an explicit unsigned/integer literal dtype),
    never one inherited from the caller's array: table outputs (0..255) stored into an int8 buffer wrap"""
    n = 0
    for f in prog.funcs_in(modname):
        for c in ast.walk(f.node):
            if not (isinstance(c, ast.Call) and isinstance(c.func, ast.Attribute)):
                continue
            d = prog.dotted(f.mod, c.func) or ''
            name = d.split('.')[-1]
            if not d.startswith('numpy') or name not in ('empty', 'zeros', 'ones', 'full', 'empty_like', 'zeros_like', 'ones_like', 'full_like'):
                continue
            n += 1
            dt = next((k.value for k in c.keywords if k.arg == 'dtype'), None)
            if dt is None and not name.endswith('_like') and len(c.args) >= (3 if name == 'full' else 2):
                dt = c.args[2 if name == 'full' else 1]
            key = f'{f.key}::{norm(c)[:80]}'
            if dt is None:
                if name.endswith('_like'):
                    ctx.fail(rule, key, f'`{norm(c)[:60]}` takes the dtype of its argument: with a signed byte (int8) state the table outputs 128..255 wrap', f.where(c))
                else:
                    ctx.fail(rule, key, f'`{norm(c)[:60]}` has no dtype (float64): the state is not a byte array any more', f.where(c))
                continue
            txt = norm(dt).strip('\'"').split('.')[-1]
            if txt in ('uint8', 'uint16', 'uint32', 'uint64', 'int16', 'int32', 'int64'):
                ctx.ok(rule, key, f'buffer dtype fixed to {txt}', f.where(c))
            elif txt == 'dtype' or 'dtype' in norm(dt):
                ctx.fail(rule, key, f'`{norm(c)[:60]}` takes its dtype from another array (`{norm(dt)}`): a signed byte state makes table outputs wrap', f.where(c))
            elif txt == 'int8':
                ctx.fail(rule, key, 'an int8 buffer cannot hold byte values 128..255', f.where(c))
            else:
                ctx.undecided(rule, key, f'dtype `{norm(dt)}` not understood', f.where(c))
    return n


def run(ctx, prog):
    ctx.rule('C05-D1', 'literal tables equal the FIPS-197 definitions (generated from GF(2^8) arithmetic), all entries')
    ctx.rule('C05-D2', 'primitives bind the right table / operation')
    ctx.rule('C05-D3', 'MixColumns / InvMixColumns dependency relation is the FIPS circulant; applied per column')
    ctx.rule('C05-D4', 'round operation lists, enums, first/last variants, key direction and round-key index')
    ctx.rule('C05-D5', 'no in-place effect reaches a caller-owned array')
    ctx.rule('C05-D6', 'round composition: for every key size, at_round (None, 0..Nr) and after_step (default, 0..3) the operation sequence produced by the configuration code (partially evaluated, cipher data opaque) is the FIPS-197 Cipher / InvCipher prefix ending at that step; shared round lists are never written')
    ctx.assume('the four broadcasting shapes (one/many states x one/many keys) are numpy broadcasting at run time and are not decided')
    n1 = d1(ctx, prog)
    d2(ctx, prog)
    d3(ctx, prog)
    d4(ctx, prog)
    n5 = ownership(ctx, prog, A, 'C05-D5')
    n6 = d6(ctx, prog)
    ctx.floor('buffer allocations judged (aes)', buffer_dtypes(ctx, prog, A, 'C05-D2'), 6)
    ctx.floor('stop points composed (aes)', n6, 2 * 3 * 12 * 5)
    ctx.floor('table entries compared', n1, 256 * 8 + 32 + 10)
    ctx.floor('in-place effects judged (aes)', n5, 8)
