"""C05 - AES conforms to FIPS-197 (ingredients decided statically).

D1 tables        SBOX (GF(2^8) inverse + affine map), INV_SBOX (its inverse permutation), RCON (powers of x), SHIFT_ROWS /
                 INV_SHIFT_ROWS (index maps, mutually inverse), XTIME_k[x] = k.x for k in 2,3,9,11,13,14: all entries.
D2 primitives    sub_bytes = SBOX[state], inv_sub_bytes = INV_SBOX[state], shift_rows / inv gather with the right table on the
                 last (16) axis, add_round_key = xor of its two arguments, inv_add_round_key is add_round_key.
D3 MixColumns    labelled def-use of mix_column / inv_mix_column: output byte j <- table <- input byte r is the circulant of
                 (2,3,1,1) resp. (14,11,13,9); mix_columns applies it to each 4-byte group of the (...,4,4) view.
D4 round lists   _ENC_ROUND / _DEC_ROUND are the resolved primitives in Steps / InverseSteps order; FIRST / LAST variants differ
                 from them exactly by the FIPS-mandated identities; encrypt/decrypt pass the matching triple; decryption
                 reverses the round-key axis; round i uses round_keys[:, i, :].
D5 ownership     no in-place effect reaches a caller-owned array; the state buffer is a copy on both branches.
D6 stop point    the last round is cut at [:after_step + 1] (inclusive).
"""
import ast

from .. import tables, enumtab, alias, astutil
from .. import provarr as pa
from ..model import norm, AnalysisError, const_value
from spec import fips
from .c06 import d6 as ownership

A = 'scared.aes.base'


def d1(ctx, prog):
    sb = fips.aes_sbox()
    inv = [0] * 256
    for i, v in enumerate(sb):
        inv[v] = i
    isr = [0] * 16
    for i, v in enumerate(fips.SHIFT_ROWS):
        isr[v] = i
    want = {'SBOX': sb, 'INV_SBOX': inv, 'SHIFT_ROWS': fips.SHIFT_ROWS, 'INV_SHIFT_ROWS': isr}
    for k in (2, 3, 9, 11, 13, 14):
        want[f'XTIME_{k}'] = [fips.gmul(k, x) for x in range(256)]
    n = 0
    for name, w in want.items():
        got, node = tables.literal(prog, A, name)
        n += len(w)
        diff = tables.first_diff(list(got), list(w))
        ctx.check(diff is None, 'C05-D1', f'{A}::{name}', f'{name}{list(diff[0]) if diff else ""} = {diff[1] if diff else ""}; FIPS-197 gives {diff[2] if diff else ""}',
                  f'all {len(w)} entries of {name} equal the FIPS-197 definition', tables.where(prog, A, node), entries=len(w))
    got, node = tables.literal(prog, A, 'RCON')
    rc = fips.aes_rcon(len(got))
    ok = all(list(r) == [rc[i], 0, 0, 0] for i, r in enumerate(got)) and len(got) >= 10
    ctx.check(ok, 'C05-D1', f'{A}::RCON', 'RCON is not [x^(i), 0, 0, 0] for i = 0..9 (powers of x in GF(2^8))', f'RCON: {len(got)} round constants [x^i,0,0,0]', tables.where(prog, A, node))
    co, node = tables.literal(prog, A, '_cols_out')
    ctx.check(co == {16: 44, 24: 52, 32: 60}, 'C05-D1', f'{A}::_cols_out', f'_cols_out = {co}; FIPS-197 schedules have 4*(Nr+1) = 44/52/60 columns', '_cols_out = {16:44, 24:52, 32:60}', tables.where(prog, A, node))
    return n + 10


def d2(ctx, prog):
    """the byte-wise primitives by provenance evaluation (sa.provarr) on a two-item batch and a single state: sub_bytes /
    inv_sub_bytes look byte i up in their table and nothing else; shift_rows / inv_shift_rows move byte FIPS[i] to position i
    within its own state; add_round_key is the xor of the two arguments byte for byte."""
    isr = [fips.SHIFT_ROWS.index(i) for i in range(16)]
    for name, kind, ref in (('sub_bytes', 'table', 'SBOX'), ('inv_sub_bytes', 'table', 'INV_SBOX'), ('shift_rows', 'gather', fips.SHIFT_ROWS), ('inv_shift_rows', 'gather', isr)):
        f = prog.need_func(A, name)
        key = f'{f.key}::' + ('return' if kind == 'table' else 'gather')
        bad = None
        try:
            for shape in ((2, 16), (16,)):
                y = MixEval(prog, f.mod).run(f, [pa.PArr.inputs(shape)])
                if not isinstance(y, pa.PArr) or y.shape != tuple(shape):
                    bad = bad or f'{name} on a {shape} state returns {getattr(y, "shape", type(y).__name__)}'
                    continue
                for o, got in enumerate(y.flat):
                    base, j = o - o % 16, o % 16
                    want = frozenset([(ref, o)]) if kind == 'table' else frozenset([('ID', base + ref[j])])
                    if got != want and bad is None:
                        g_ = sorted(got)
                        if kind == 'table':
                            bad = f'{name}: output byte {j} is {g_}; it must be {ref}[input byte {j}] and nothing else'
                        else:
                            bad = f'{name}: output byte {j} comes from {g_}; FIPS-197 moves input byte {ref[j]} of the same state there'
        except pa.Unknown as e:
            ctx.undecided('C05-D2', key, f'not evaluable: {e}', f.where())
            continue
        if bad:
            ctx.fail('C05-D2', key, bad, f.where())
        else:
            ctx.ok('C05-D2', key, f'{name} = {ref}[state] byte for byte' if kind == 'table' else f'{name}: out[..., i] = in[..., T[i]] with the FIPS-197 row rotation, per state', f.where())
    f = prog.need_func(A, 'add_round_key')
    key = f'{f.key}::xor'
    try:
        bad = None
        for sa_, sb_ in (((2, 16), (2, 16)), ((16,), (16,)), ((2, 16), (1, 16))):
            x, k = pa.PArr.inputs(sa_, 'STATE'), pa.PArr.inputs(sb_, 'KEY')
            y = MixEval(prog, f.mod).run(f, [x, k])
            if not isinstance(y, pa.PArr):
                bad = bad or 'add_round_key does not return an array'
                continue
            kb = k.broadcast_to(y.shape) if len(k.flat) != len(y.flat) else k
            xb = x.broadcast_to(y.shape) if len(x.flat) != len(y.flat) else x
            for o, got in enumerate(y.flat):
                if got != (xb.flat[o] | kb.flat[o]) and bad is None:
                    bad = f'add_round_key: output byte {o % 16} is built from {sorted(got)}, not from state byte {o % 16} xor key byte {o % 16}'
        ctx.check(bad is None, 'C05-D2', key, bad or '', 'add_round_key = state xor keys, byte for byte', f.where())
    except pa.Unknown as e:
        ctx.undecided('C05-D2', key, f'not evaluable: {e}', f.where())
    r = prog.lookup(prog.need_mod(A), 'inv_add_round_key')
    ctx.check(bool(r) and r[0] == 'func' and r[1] is f, 'C05-D2', f'{A}::inv_add_round_key', 'inv_add_round_key is not add_round_key', 'inv_add_round_key is add_round_key', f.where())


class MixEval:
    """provenance evaluation (sa.provarr) of a column-mixing primitive: the function body is walked with arrays of provenance sets
    - element = set of (table, input byte) edges, xor = symmetric difference - over a fixed small shape (two batch items)."""

    def __init__(self, prog, mod, depth=0):
        self.prog, self.mod, self.depth = prog, mod, depth

    def run(self, f, args):
        env = dict(zip(f.params, args))
        try:
            self.block(f, f.node.body, env)
        except _Ret as r:
            return r.value
        raise pa.Unknown(f'{f.name}: no return reached')

    def block(self, f, stmts, env):
        for st in stmts:
            if isinstance(st, ast.Expr):
                continue          # docstring / argument check (no value flows out of it)
            if isinstance(st, ast.Return):
                raise _Ret(self.ev(f, st.value, env))
            if isinstance(st, ast.Assign) and len(st.targets) == 1:
                v = self.ev(f, st.value, env)
                t = st.targets[0]
                if isinstance(t, ast.Name):
                    env[t.id] = v
                elif isinstance(t, ast.Subscript) and isinstance(t.value, ast.Name) and isinstance(env.get(t.value.id), pa.PArr):
                    env[t.value.id][self.index(f, t.slice, env)] = v
                else:
                    raise pa.Unknown(f'{f.name}: store `{norm(t)[:40]}`')
                continue
            if isinstance(st, ast.AugAssign) and isinstance(st.op, ast.BitXor):
                v = self.ev(f, st.value, env)
                t = st.target
                if isinstance(t, ast.Name) and isinstance(env.get(t.id), pa.PArr):
                    env[t.id] = env[t.id].xor(v)
                elif isinstance(t, ast.Subscript) and isinstance(t.value, ast.Name) and isinstance(env.get(t.value.id), pa.PArr):
                    i = self.index(f, t.slice, env)
                    env[t.value.id][i] = env[t.value.id][i].xor(v)
                else:
                    raise pa.Unknown(f'{f.name}: `{norm(st)[:40]}`')
                continue
            if isinstance(st, ast.For) and not st.orelse:
                it = self.ev(f, st.iter, env)
                if not isinstance(it, (range, list, tuple)) or len(it) > 64:
                    raise pa.Unknown(f'{f.name}: loop over `{norm(st.iter)[:40]}`')
                for x in it:
                    if isinstance(st.target, ast.Name):
                        env[st.target.id] = x
                    elif isinstance(st.target, ast.Tuple) and isinstance(x, tuple) and len(x) == len(st.target.elts) and all(isinstance(t_, ast.Name) for t_ in st.target.elts):
                        for t_, x_ in zip(st.target.elts, x):
                            env[t_.id] = x_
                    else:
                        raise pa.Unknown(f'{f.name}: loop target')
                    self.block(f, st.body, env)
                continue
            raise pa.Unknown(f'{f.name}: statement `{norm(st)[:50]}` not modelled')

    def index(self, f, sl, env):
        if isinstance(sl, ast.Tuple):
            return tuple(self.index(f, x, env) for x in sl.elts)
        if isinstance(sl, ast.Slice):
            g = lambda x: None if x is None else self.ev(f, x, env)    # noqa: E731
            return slice(g(sl.lower), g(sl.upper), g(sl.step))
        v = self.ev(f, sl, env)
        if v is Ellipsis or isinstance(v, (int, list, tuple)):
            return v
        raise pa.Unknown(f'{f.name}: index `{norm(sl)[:30]}`')

    def ev(self, f, e, env):
        if isinstance(e, ast.Constant):
            return e.value
        if isinstance(e, ast.Name):
            if e.id in env:
                return env[e.id]
            if e.id in f.mod.assigns:
                try:
                    v, _n = tables.literal(self.prog, f.mod.name, e.id)
                    v = list(v)
                    if len(v) <= 64 and all(isinstance(x, int) for x in v):
                        return v          # a small literal index table (a permutation of positions)
                except Exception:
                    pass
            raise pa.Unknown(f'{f.name}: name {e.id}')
        if isinstance(e, (ast.Tuple, ast.List)):
            vals = [self.ev(f, x, env) for x in e.elts]
            return tuple(vals) if isinstance(e, ast.Tuple) else vals
        if isinstance(e, ast.UnaryOp) and isinstance(e.op, ast.USub):
            v = self.ev(f, e.operand, env)
            if isinstance(v, int):
                return -v
        if isinstance(e, ast.BinOp):
            l, r = self.ev(f, e.left, env), self.ev(f, e.right, env)
            if isinstance(e.op, ast.BitXor) and (isinstance(l, pa.PArr) or isinstance(r, pa.PArr)):
                return l.xor(r) if isinstance(l, pa.PArr) else r.xor(l)
            if isinstance(l, int) and isinstance(r, int) and not isinstance(l, bool):
                import operator
                ops = {ast.Add: operator.add, ast.Sub: operator.sub, ast.Mult: operator.mul, ast.FloorDiv: operator.floordiv, ast.Mod: operator.mod}
                if type(e.op) in ops and not (isinstance(e.op, (ast.FloorDiv, ast.Mod)) and r == 0):
                    return ops[type(e.op)](l, r)
            if isinstance(e.op, ast.Add) and isinstance(l, tuple) and isinstance(r, tuple):
                return l + r
            raise pa.Unknown(f'{f.name}: operator in `{norm(e)[:40]}`')
        if isinstance(e, ast.Attribute):
            if isinstance(e.value, ast.Name) and e.value.id not in env or not isinstance(e.value, ast.Name) and self.prog.dotted(f.mod, e):
                raise pa.Unknown(f'{f.name}: `{norm(e)[:40]}`')
            v = self.ev(f, e.value, env)
            if isinstance(v, pa.PArr):
                if e.attr == 'shape':
                    return v.shape
                if e.attr == 'T':
                    return v.transpose()
                if e.attr == 'ndim':
                    return len(v.shape)
            raise pa.Unknown(f'{f.name}: attribute `{norm(e)[:40]}`')
        if isinstance(e, ast.Subscript):
            if isinstance(e.value, ast.Name) and e.value.id not in env and e.value.id in f.mod.assigns:
                inner = self.ev(f, e.slice, env)
                if isinstance(inner, pa.PArr):
                    return inner.table(e.value.id)
                raise pa.Unknown(f'{f.name}: table index `{norm(e)[:40]}`')
            v = self.ev(f, e.value, env)
            if isinstance(v, pa.PArr):
                return v[self.index(f, e.slice, env)]
            if isinstance(v, (tuple, list)):
                i = self.index(f, e.slice, env)
                if isinstance(i, (int, slice)):
                    return v[i]
            raise pa.Unknown(f'{f.name}: subscript `{norm(e)[:40]}`')
        if isinstance(e, ast.Call):
            return self.call(f, e, env)
        if isinstance(e, (ast.ListComp, ast.GeneratorExp)) and len(e.generators) == 1 and not e.generators[0].is_async:
            g = e.generators[0]
            src = self.ev(f, g.iter, env)
            if not isinstance(src, (range, list, tuple)) or len(src) > 64:
                raise pa.Unknown(f'{f.name}: comprehension source `{norm(g.iter)[:30]}`')
            out = []
            for x in src:
                sc = dict(env)
                if isinstance(g.target, ast.Name):
                    sc[g.target.id] = x
                elif isinstance(g.target, ast.Tuple) and isinstance(x, tuple) and len(x) == len(g.target.elts):
                    for t_, x_ in zip(g.target.elts, x):
                        sc[t_.id] = x_
                else:
                    raise pa.Unknown(f'{f.name}: comprehension target')
                conds = [self.ev(f, c, sc) for c in g.ifs]
                if any(not isinstance(c, (bool, int)) for c in conds):
                    raise pa.Unknown(f'{f.name}: comprehension condition')
                if all(conds):
                    out.append(self.ev(f, e.elt, sc))
            return out
        if isinstance(e, ast.Compare) and len(e.ops) == 1:
            l, r = self.ev(f, e.left, env), self.ev(f, e.comparators[0], env)
            if isinstance(l, int) and isinstance(r, int):
                import operator
                ops = {ast.Eq: operator.eq, ast.NotEq: operator.ne, ast.Lt: operator.lt, ast.LtE: operator.le, ast.Gt: operator.gt, ast.GtE: operator.ge}
                if type(e.ops[0]) in ops:
                    return ops[type(e.ops[0])](l, r)
        raise pa.Unknown(f'{f.name}: expression `{norm(e)[:40]}`')

    def call(self, f, e, env):
        fn = e.func
        kw = {k.arg: k.value for k in e.keywords if k.arg}
        d = self.prog.dotted(f.mod, fn) if isinstance(fn, (ast.Name, ast.Attribute)) else None
        if isinstance(fn, ast.Name) and fn.id == 'range':
            a = [self.ev(f, x, env) for x in e.args]
            if all(isinstance(x, int) for x in a):
                return range(*a)
        if isinstance(fn, ast.Name) and fn.id == 'len':
            v = self.ev(f, e.args[0], env)
            return v.shape[0] if isinstance(v, pa.PArr) else len(v)
        if isinstance(fn, ast.Name) and fn.id in ('enumerate', 'list', 'tuple') and len(e.args) == 1:
            v = self.ev(f, e.args[0], env)
            if isinstance(v, (range, list, tuple)):
                return list(enumerate(v)) if fn.id == 'enumerate' else (list(v) if fn.id == 'list' else tuple(v))
        if d and d.startswith('numpy.'):
            name = d.split('.')[-1]

            def arg(i, k=None, default=None):
                if len(e.args) > i:
                    return self.ev(f, e.args[i], env)
                if k in kw:
                    return self.ev(f, kw[k], env)
                return default
            if name in ('zeros', 'empty'):
                shp = arg(0, 'shape')
                shp = (shp,) if isinstance(shp, int) else shp
                if name == 'zeros':
                    return pa.PArr.zeros(shp)
                return pa.PArr.inputs(shp, 'UNINITIALISED')
            if name in ('zeros_like', 'empty_like'):
                v = arg(0)
                return pa.PArr.zeros(v.shape) if name == 'zeros_like' else pa.PArr.inputs(v.shape, 'UNINITIALISED')
            if name in ('array', 'asarray', 'ascontiguousarray', 'copy', 'stack'):
                v = arg(0)
                if isinstance(v, pa.PArr):
                    return v.copy()
                if isinstance(v, (list, tuple)):
                    ax = arg(99, 'axis', 0) if name == 'stack' else 0
                    return pa.PArr.stack(list(v), ax)
            if name == 'roll':
                v, sh, ax = arg(0, 'a'), arg(1, 'shift'), arg(2, 'axis')
                if isinstance(v, pa.PArr) and isinstance(sh, int) and (ax is None or isinstance(ax, int)):
                    return v.roll(sh, ax)
            if name == 'bitwise_xor' and len(e.args) == 2:
                return self.ev(f, e.args[0], env).xor(self.ev(f, e.args[1], env))
            if name == 'take' and len(e.args) >= 2 and isinstance(e.args[0], ast.Name) and e.args[0].id not in env and e.args[0].id in f.mod.assigns \
                    and isinstance(self.ev(f, e.args[1], env), pa.PArr) and arg(2, 'axis') is None:
                return self.ev(f, e.args[1], env).table(e.args[0].id)
            if name == 'take' and len(e.args) >= 2:
                v, idx, ax = arg(0), arg(1), arg(2, 'axis')
                if isinstance(v, pa.PArr) and isinstance(idx, list) and isinstance(ax, int):
                    sel = [slice(None)] * len(v.shape)
                    sel[ax % len(v.shape)] = idx
                    return v[tuple(sel)]
                if isinstance(v, str) and isinstance(idx, pa.PArr) and ax is None:
                    return idx.table(v)
            if name in ('swapaxes',):
                return arg(0).swapaxes(arg(1), arg(2))
            if name == 'transpose':
                return arg(0).transpose(arg(1, 'axes'))
            if name == 'reshape':
                return arg(0).reshape(arg(1))
            if name == 'expand_dims':
                v, ax = arg(0), arg(1, 'axis')
                shp = list(v.shape)
                shp.insert(ax % (len(shp) + 1), 1)
                return v.reshape(shp)
            raise pa.Unknown(f'{f.name}: numpy.{name}')
        if isinstance(fn, ast.Attribute) and d is None and fn.attr == 'take' and isinstance(fn.value, ast.Name) and fn.value.id not in env and fn.value.id in f.mod.assigns \
                and len(e.args) == 1 and not kw and isinstance(self.ev(f, e.args[0], env), pa.PArr):
            return self.ev(f, e.args[0], env).table(fn.value.id)
        if isinstance(fn, ast.Attribute) and d is None:
            v = self.ev(f, fn.value, env)
            if isinstance(v, pa.PArr):
                if fn.attr in ('astype', 'copy', 'view'):
                    return v.copy()              # the dtype argument carries no provenance
                a = [self.ev(f, x, env) for x in e.args]
                if fn.attr == 'reshape':
                    return v.reshape(a[0] if len(a) == 1 and isinstance(a[0], (tuple, list)) else a)
                if fn.attr in ('astype', 'copy', 'view'):
                    return v.copy()
                if fn.attr == 'swapaxes' and len(a) == 2:
                    return v.swapaxes(*a)
                if fn.attr == 'transpose':
                    return v.transpose(a[0] if len(a) == 1 and isinstance(a[0], (tuple, list)) else (a or None))
                if fn.attr == 'squeeze' and not a:
                    return v.reshape([d_ for d_ in v.shape if d_ != 1])
                if fn.attr == 'take' and a and isinstance(a[0], list):
                    ax = a[1] if len(a) > 1 else (self.ev(f, kw['axis'], env) if 'axis' in kw else None)
                    if isinstance(ax, int):
                        sel = [slice(None)] * len(v.shape)
                        sel[ax % len(v.shape)] = a[0]
                        return v[tuple(sel)]
            raise pa.Unknown(f'{f.name}: method `{norm(fn)[:40]}`')
        r = self.prog.resolve(f.mod, fn) if isinstance(fn, (ast.Name, ast.Attribute)) else None
        if r and r[0] == 'func' and self.depth < 3:
            callee = r[1]
            if callee.name.startswith('_is_bytes'):
                return None
            bind = {}
            for i, a in enumerate(e.args):
                bind[callee.params[i]] = self.ev(f, a, env)
            for k, v in kw.items():
                bind[k] = self.ev(f, v, env)
            if set(bind) != set(callee.params):
                raise pa.Unknown(f'{f.name}: call of {callee.name} leaves parameters to their defaults')
            return MixEval(self.prog, callee.mod, self.depth + 1).run(callee, [bind[p_] for p_ in callee.params])
        raise pa.Unknown(f'{f.name}: call `{norm(fn)[:40]}`')


class _Ret(Exception):
    def __init__(self, value):
        self.value = value


def d3(ctx, prog):
    """mix_column / inv_mix_column on (2,4) and (4,) inputs, mix_columns / inv_mix_columns on (2,16) and (16,) inputs: output
    byte j of column c of item n must be exactly the xor of  coef[(r - j) mod 4] . in[n, c, r]  for r = 0..3 - the FIPS-197
    circulant - and nothing else (in particular no uninitialised buffer element)."""
    names = {1: 'ID', 2: 'XTIME_2', 3: 'XTIME_3', 9: 'XTIME_9', 11: 'XTIME_11', 13: 'XTIME_13', 14: 'XTIME_14'}

    def show(edges):
        return sorted((t if t != 'ID' else '1', b) for t, b in edges)
    for fname, first, width in (('mix_column', [2, 3, 1, 1], 4), ('inv_mix_column', [14, 11, 13, 9], 4), ('mix_columns', [2, 3, 1, 1], 16), ('inv_mix_columns', [14, 11, 13, 9], 16)):
        f = prog.need_func(A, fname)
        key = f'{f.key}::dependency relation'
        edges = 0
        bad = None
        try:
            for shape in ((2, width), (width,)):
                x = pa.PArr.inputs(shape)
                y = MixEval(prog, f.mod).run(f, [x])
                if not isinstance(y, pa.PArr) or y.shape != tuple(shape):
                    bad = bad or f'{fname} on a {shape} input returns {getattr(y, "shape", type(y).__name__)}'
                    continue
                for o in range(len(y.flat)):
                    base, j = o - o % 4, o % 4
                    want = frozenset((names[first[(r - j) % 4]], base + r) for r in range(4))
                    edges += 4
                    if y.flat[o] != want and bad is None:
                        bad = f'{fname} on a {shape} input: output byte {o} is built from {show(y.flat[o])}; FIPS-197 requires {show(want)} (coefficient . input byte)'
        except pa.Unknown as e:
            ctx.undecided('C05-D3', key, f'not evaluable: {e}', f.where())
            continue
        if bad:
            ctx.fail('C05-D3', key, bad, f.where())
        else:
            ctx.ok('C05-D3', key, f'{fname}: out[j] = xor_r {first}[(r-j) mod 4] . in[r] within every 4-byte column - the FIPS-197 circulant ({edges} table edges, batch and single input)', f.where(), edges=edges)


def d4(ctx, prog):
    m = prog.need_mod(A)
    steps = enumtab.enum_members(prog, A, 'Steps')
    isteps = enumtab.enum_members(prog, A, 'InverseSteps')
    lists = {}
    for name in ('_ENC_FIRST_ROUND', '_ENC_ROUND', '_ENC_LAST_ROUND', '_DEC_FIRST_ROUND', '_DEC_ROUND', '_DEC_LAST_ROUND'):
        if name not in m.assigns:
            raise AnalysisError(f'{name} not found')
        lists[name] = [x.split('.')[-1] if x else x for x in enumtab.eval_list(prog, m, m.assigns[name], m.assigns, 'Steps')]
    want_enc = {'SUB_BYTES': 'sub_bytes', 'SHIFT_ROWS': 'shift_rows', 'MIX_COLUMNS': 'mix_columns', 'ADD_ROUND_KEY': 'add_round_key'}
    want_dec = {'INV_ADD_ROUND_KEY': 'add_round_key', 'INV_MIX_COLUMNS': 'inv_mix_columns', 'INV_SHIFT_ROWS': 'inv_shift_rows', 'INV_SUB_BYTES': 'inv_sub_bytes'}
    enc = [want_enc[k] for k, v in sorted(steps.items(), key=lambda kv: kv[1])] if set(steps) == set(want_enc) else None
    dec = [want_dec[k] for k, v in sorted(isteps.items(), key=lambda kv: kv[1])] if set(isteps) == set(want_dec) else None
    if enc is None or dec is None:
        raise AnalysisError('Steps / InverseSteps members changed')
    loc = m.relpath
    ctx.check(enc == ['sub_bytes', 'shift_rows', 'mix_columns', 'add_round_key'], 'C05-D4', f'{A}::Steps order', f'Steps enumerates the round as {enc}; FIPS-197 Cipher(): SubBytes, ShiftRows, MixColumns, AddRoundKey', 'Steps follow FIPS-197 Cipher()', loc)
    ctx.check(dec == ['add_round_key', 'inv_mix_columns', 'inv_shift_rows', 'inv_sub_bytes'], 'C05-D4', f'{A}::InverseSteps order', f'InverseSteps enumerates {dec}', 'InverseSteps: AddRoundKey, InvMixColumns, InvShiftRows, InvSubBytes', loc)
    ctx.check(lists['_ENC_ROUND'] == enc, 'C05-D4', f'{A}::_ENC_ROUND', f'_ENC_ROUND = {lists["_ENC_ROUND"]}: position i must be the primitive of Steps value i', '_ENC_ROUND[i] is the primitive of Steps(i)', loc)
    ctx.check(lists['_DEC_ROUND'] == dec, 'C05-D4', f'{A}::_DEC_ROUND', f'_DEC_ROUND = {lists["_DEC_ROUND"]}: position i must be the primitive of InverseSteps value i', '_DEC_ROUND[i] is the primitive of InverseSteps(i)', loc)

    def variant(base, ident):
        return [('_identity' if i in ident else x) for i, x in enumerate(base)]
    exp = {'_ENC_FIRST_ROUND': (variant(enc, {0, 1, 2}), 'round 0 is only AddRoundKey'),
           '_ENC_LAST_ROUND': (variant(enc, {2}), 'the last round has no MixColumns'),
           '_DEC_FIRST_ROUND': (variant(dec, {1}), 'the first inverse round has no InvMixColumns'),
           '_DEC_LAST_ROUND': (variant(dec, {1, 2, 3}), 'the last inverse round is only AddRoundKey')}
    for name, (w, why) in exp.items():
        ctx.check(lists[name] == w, 'C05-D4', f'{A}::{name}', f'{name} = {lists[name]}; FIPS-197 requires {w} ({why})', f'{name}: {why}', loc)
    for fname, triple, mode in (('encrypt', ['_ENC_FIRST_ROUND', '_ENC_ROUND', '_ENC_LAST_ROUND'], None), ('decrypt', ['_DEC_FIRST_ROUND', '_DEC_ROUND', '_DEC_LAST_ROUND'], 'decrypt')):
        f = prog.need_func(A, fname)
        ops = [s for s in ast.walk(f.node) if isinstance(s, ast.Assign) and norm(s.targets[0]) == 'operations']
        ok = len(ops) == 1 and isinstance(ops[0].value, ast.List) and [norm(e) for e in ops[0].value.elts] == triple
        ctx.check(ok, 'C05-D4', f'{f.key}::operations', f'{fname} does not pass [{", ".join(triple)}]', f'{fname} passes its first/middle/last round lists', f.where())
        calls = [c for c in ast.walk(f.node) if isinstance(c, ast.Call) and norm(c.func) == '_parametric_cipher']
        kws = {k.arg: norm(k.value) for c in calls for k in c.keywords}
        ok = len(calls) == 1 and kws.get('operations') == 'operations' and kws.get('at_round') == 'at_round' and kws.get('after_step') == 'after_step' and \
            kws.get('key') == 'key' and kws.get('state') == f.params[0] and (kws.get('mode') == "'decrypt'" if mode else 'mode' not in kws)
        ctx.check(ok, 'C05-D4', f'{f.key}::call', f'{fname} does not forward its arguments (and mode) to _parametric_cipher unchanged: {kws}', f'{fname} forwards state, key, stop point' + (', mode=decrypt' if mode else ''), f.where())
    pk = prog.need_func(A, '_prepare_keys')
    flips = [s for s in ast.walk(pk.node) if isinstance(s, ast.Assign) and reversal(s.value) is not None]
    pm = astutil.parents(pk.node)
    ok = len(flips) == 1 and norm(flips[0].targets[0]) == 'round_keys' and reversal(flips[0].value) == ('round_keys', 1) and \
        any(pol and norm(t).replace(' ', '') == "mode=='decrypt'" for t, pol in astutil.guards(flips[0], pm))
    body_ = [s_ for s_ in pk.node.body if not (isinstance(s_, ast.Expr) and isinstance(s_.value, ast.Constant))]
    delegates = len(body_) == 1 and isinstance(body_[0], ast.Return) and isinstance(body_[0].value, ast.Call) and isinstance(body_[0].value.func, ast.Attribute) \
        and isinstance(body_[0].value.func.value, ast.Call)
    if delegates and not flips:
        ctx.undecided('C05-D4', f'{pk.key}::reverse for decrypt', f'_prepare_keys only delegates to `{norm(body_[0].value.func)[:60]}` (the cipher gathered into a class): this clause does not follow the delegation', pk.where())
    else:
        ctx.check(ok, 'C05-D4', f'{pk.key}::reverse for decrypt', 'the round keys are not reversed along the round axis (axis 1 of (keys, rounds, 16)) exactly for decryption',
                  'round-key axis reversed for decryption only', pk.where())
    driver(ctx, prog)


def reversal(e):
    """(base text, axis) when e is its base reversed along one axis: np.flip(x, axis=a) / np.flip(x, a) / x[:, ::-1] / x[:, ::-1, :]"""
    if isinstance(e, ast.Call) and last_name(e.func) == 'flip' and e.args:
        ax = next((k.value for k in e.keywords if k.arg == 'axis'), e.args[1] if len(e.args) > 1 else None)
        return (norm(e.args[0]), const_value(ax)) if ax is not None and isinstance(const_value(ax), int) else None
    if isinstance(e, ast.Subscript):
        elts = e.slice.elts if isinstance(e.slice, ast.Tuple) else [e.slice]
        rev = [i for i, x in enumerate(elts) if isinstance(x, ast.Slice) and x.lower is None and x.upper is None and x.step is not None and const_value(x.step) == -1]
        full = [i for i, x in enumerate(elts) if isinstance(x, ast.Slice) and x.lower is None and x.upper is None and (x.step is None or const_value(x.step) == 1)]
        if len(rev) == 1 and len(rev) + len(full) == len(elts):
            return norm(e.value), rev[0]
    return None


def last_name(fn):
    return norm(fn).split('.')[-1]


def driver(ctx, prog):
    """the cipher driver applies the prepared rounds in order to the running state, add_round_key of round i with round key i:
    _parametric_cipher is interpreted (sa.confinterp) with every primitive, _prepare_keys and the argument check opaque, for every
    key size and stop point; the value it returns must be the composition, in order, of exactly the operations _prepare_rounds
    returned (captured in the same evaluation), each applied to the previous result, key indexes = round numbers."""
    from .. import confinterp as ci
    m = prog.need_mod(A)
    pc = prog.need_func(A, '_parametric_cipher')
    pr = prog.need_func(A, '_prepare_rounds')
    pk = prog.need_func(A, '_prepare_keys')
    ark = prog.need_func(A, 'add_round_key')
    prims = [prog.need_func(A, n_) for n_ in ('sub_bytes', 'shift_rows', 'mix_columns', 'add_round_key', 'inv_sub_bytes', 'inv_shift_rows', 'inv_mix_columns')]
    key = f'{pc.key}::round loop'
    lists = {n_: None for n_ in ('_ENC_FIRST_ROUND', '_ENC_ROUND', '_ENC_LAST_ROUND', '_DEC_FIRST_ROUND', '_DEC_ROUND', '_DEC_LAST_ROUND')}
    configs = 0
    bad = []
    try:
        for mode, triple in (('encrypt', ('_ENC_FIRST_ROUND', '_ENC_ROUND', '_ENC_LAST_ROUND')), ('decrypt', ('_DEC_FIRST_ROUND', '_DEC_ROUND', '_DEC_LAST_ROUND'))):
            for nrk in (11, 13, 15):
                for ndim in (2, 1):
                    for ar in [None] + list(range(nrk)):
                        for stp in range(4):
                            if ndim == 1 and not (ar in (None, 0, 1, nrk - 1) and stp in (0, 3)):
                                continue
                            it = ci.Interp(prog)
                            it.opaque_funcs = {f_.key for f_ in prims} | {pk.key} | {f_.key for f_ in prog.funcs_in(A) if f_.name.startswith('_is_bytes')}
                            it.opaque_attrs = {pk.key: lambda args, kwargs, nrk=nrk: {'shape': (2, nrk, 16), 'ndim': 3}}
                            captured = []
                            orig_call = it.call

                            def call(func, args=(), kwargs=None, selfobj=None, depth=0, orig_call=orig_call, captured=captured):
                                r = orig_call(func, args, kwargs, selfobj, depth)
                                if func is pr:
                                    captured.append([list(x) for x in r])
                                return r
                            it.call = call
                            ops = ci.TList([it.module_value(m, t_) for t_ in triple])
                            state = ci.Sym('state', attrs={'ndim': ndim, 'shape': (16,) if ndim == 1 else (2, 16)})
                            try:
                                res = orig_call(pc, (), dict(state=state, key=ci.Sym('key', attrs={'ndim': 2, 'shape': (2, (nrk - 7) * 4)}), operations=ops, after_step=stp, at_round=ar, mode=mode))
                            except ci.Raised:
                                continue
                            if len(captured) != 1:
                                raise ci.Unknown('_prepare_rounds is not called exactly once')
                            configs += 1
                            want = [(o.func.name, r) for r, rops in enumerate(captured[0]) for o in rops if isinstance(o, ci.Sym) and getattr(o, 'func', None) is not None and o.func.name != '_identity']
                            got, base = unchain(res, ark.name)
                            got.reverse()
                            label = f'{mode}, {nrk} round keys, at_round={ar}, after_step={stp}, {ndim}-d state'
                            if got is None or [g_[0] for g_ in got] != [w_[0] for w_ in want]:
                                bad.append(f'{label}: the operations applied to the state are {[g_[0] for g_ in got][:9]}...; the prepared rounds are {[w_[0] for w_ in want][:9]}...')
                            elif any(g_[1] != w_[1] for g_, w_ in zip(got, want) if w_[0] == ark.name):
                                g_, w_ = next((g_, w_) for g_, w_ in zip(got, want) if w_[0] == ark.name and g_[1] != w_[1])
                                bad.append(f'{label}: add_round_key of round {w_[1]} is given {g_[1]}, not round key {w_[1]} (round_keys[:, {w_[1]}, :])')
                            elif 'state' not in base.name:
                                bad.append(f'{label}: the first operation is applied to {base.name[:60]}, which is not derived from the input state')
        if bad:
            ctx.fail('C05-D4', key, f'{bad[0]} ({len(bad)} configurations differ)', pc.where(), differing=len(bad))
        else:
            ctx.ok('C05-D4', key, f'{configs} configurations (mode x key size x stop point x state rank): the value returned is the prepared operations applied in order to the '
                   'running state, add_round_key of round i with round_keys[:, i, :]', pc.where(), configurations=configs)
    except ci.Unknown as e:
        ctx.undecided('C05-D4', key, f'driver not evaluable: {e}', pc.where())
    ctx.floor('C05 driver configurations interpreted', configs, 300)


LAYOUT_ONLY = ('squeeze', 'copy', 'reshape', 'astype', 'view')


def unchain(v, ark_name):
    """[(operation name, key index)] from the outermost application inwards, and the innermost value"""
    from .. import confinterp as ci
    out = []
    while isinstance(v, ci.Sym) and v.term is not None:
        t = v.term
        if getattr(v, 'method', None) in LAYOUT_ONLY:
            v = v.recv
            continue
        if t[0] == 'call':
            name, args, kws = t[1], t[2], dict(t[3])
            nm = name.split('.')[-1]
            if nm in ('array', 'asarray', 'ascontiguousarray', 'copy', 'squeeze'):
                break
            st = kws.get('state', args[0] if args else None)
            if st is None:
                break
            idx = None
            if nm == ark_name:
                k = kws.get('keys', args[1] if len(args) > 1 else None)
                if isinstance(k, ci.Sym) and k.term is not None and k.term[0] == 'index' and isinstance(k.term[2], tuple) and len(k.term[2]) == 3 \
                        and all(isinstance(x, slice) and x == slice(None, None, None) for x in (k.term[2][0], k.term[2][2])) and 'prepare_keys' in k.term[1].name:
                    idx = k.term[2][1]
                else:
                    idx = k.name if isinstance(k, ci.Sym) else repr(k)
            out.append((nm, idx))
            v = st
            continue
        break
    return out, v


def d6(ctx, prog):
    """round composition for every stop point, by partial evaluation of the configuration code (sa.confinterp): encrypt / decrypt
    are interpreted up to their call of _parametric_cipher (captured), then _prepare_rounds is interpreted for every key size
    (11 / 13 / 15 round keys), every at_round (None and 0..Nr) and every after_step; the resulting operation sequence must be the
    FIPS-197 Cipher / InvCipher prefix that ends at that stop point."""
    from .. import confinterp as ci
    m = prog.need_mod(A)
    pr = prog.need_func(A, '_prepare_rounds')
    pc = prog.need_func(A, '_parametric_cipher')
    ident = prog.need_func(A, '_identity')
    body = [s for s in ident.node.body if not (isinstance(s, ast.Expr) and isinstance(s.value, ast.Constant))]
    ctx.check(len(body) == 1 and isinstance(body[0], ast.Return) and norm(body[0].value) == ident.params[0], 'C05-D6', f'{ident.key}::identity',
              '_identity does not return its argument unchanged', '_identity returns its argument', ident.where())
    steps = enumtab.enum_members(prog, A, 'Steps')
    isteps = enumtab.enum_members(prog, A, 'InverseSteps')
    K = lambda n: f'{A}:{n}'    # noqa: E731
    # FIPS-197: which primitive sits at which step position, and where the standard has none
    table = {
        'encrypt': ({steps['SUB_BYTES']: K('sub_bytes'), steps['SHIFT_ROWS']: K('shift_rows'), steps['MIX_COLUMNS']: K('mix_columns'), steps['ADD_ROUND_KEY']: K('add_round_key')},
                    lambda r, p, nr: (r == 0 and p != steps['ADD_ROUND_KEY']) or (r == nr and p == steps['MIX_COLUMNS'])),
        'decrypt': ({isteps['INV_ADD_ROUND_KEY']: K('add_round_key'), isteps['INV_MIX_COLUMNS']: K('inv_mix_columns'), isteps['INV_SHIFT_ROWS']: K('inv_shift_rows'), isteps['INV_SUB_BYTES']: K('inv_sub_bytes')},
                    lambda r, p, nr: (r == 0 and p == isteps['INV_MIX_COLUMNS']) or (r == nr and p != isteps['INV_ADD_ROUND_KEY'])),
    }
    n = 0
    for fname in ('encrypt', 'decrypt'):
        f = prog.need_func(A, fname)
        prims, absent = table[fname]
        it = ci.Interp(prog)
        captured = []
        pcsym = it.module_value(m, '_parametric_cipher')

        def stub(args, kwargs, captured=captured):
            captured.append((args, kwargs))
            return ci.Sym('ciphertext')
        orig_call = it.call

        def call(func, args=(), kwargs=None, selfobj=None, depth=0, orig_call=orig_call, stub=stub):
            if func is pc:
                return stub(args, kwargs or {})
            return orig_call(func, args, kwargs, selfobj, depth)
        it.call = call
        bad = []
        configs = 0
        try:
            for nrk in (11, 13, 15):
                nr = nrk - 1
                rk = ci.Obj(shape=(ci.Sym('n_keys'), nrk, 16))
                for ar in [None] + list(range(nrk)):
                    for stp in [None] + list(range(4)):
                        captured.clear()
                        kw = {f.params[0]: ci.Sym('state'), 'key': ci.Sym('key')}
                        if ar is not None:
                            kw['at_round'] = ar
                        if stp is not None:
                            kw['after_step'] = stp
                        orig_call(f, (), kw)
                        if len(captured) != 1:
                            raise ci.Unknown(f'{fname} does not call _parametric_cipher exactly once')
                        cargs, ckw = captured[0]
                        if cargs or ckw.get('at_round') != ar:
                            bad.append(f'{fname}(at_round={ar}) hands at_round={ckw.get("at_round")} to the cipher')
                            continue
                        eff_step = ckw.get('after_step')
                        if stp is not None and eff_step != stp:
                            bad.append(f'{fname}(after_step={stp}) hands after_step={eff_step} to the cipher')
                            continue
                        if stp is None and eff_step != 3:
                            bad.append(f'default after_step of {fname} is {eff_step}: a default call does not run the last step of the last round')
                            continue
                        want_mode = 'decrypt' if fname == 'decrypt' else 'encrypt'
                        mode_default = next((const_value(d) for p_, d in zip(reversed(pc.params), reversed(pc.node.args.defaults)) if p_ == 'mode'), None)
                        if ckw.get('mode', mode_default) != want_mode:
                            bad.append(f'{fname} runs the cipher in mode {ckw.get("mode", mode_default)!r}')
                            continue
                        try:
                            rounds = orig_call(pr, (), dict(round_keys=rk, at_round=ar, after_step=eff_step, operations=ckw.get('operations')))
                        except ci.Raised as e:
                            if ar == nrk - 1 + 1:
                                continue
                            bad.append(f'{fname}: at_round={ar}, after_step={eff_step} with {nrk} round keys is refused ({e.kind})')
                            continue
                        configs += 1
                        r_stop = nr if ar is None else ar
                        got = [[(o.name if isinstance(o, ci.Sym) else repr(o)) for o in ops] for ops in rounds]
                        exp = []
                        for r in range(r_stop + 1):
                            last_pos = eff_step if r == r_stop else 3
                            exp.append([(ident.key if absent(r, p, nr) else prims[p]) for p in range(last_pos + 1)])
                        if got != exp:
                            # first difference
                            d = next((r for r in range(max(len(got), len(exp))) if r >= len(got) or r >= len(exp) or got[r] != exp[r]), 0)
                            bad.append(f'{fname} with {nrk} round keys stopped at (at_round={ar}, after_step={eff_step}): {len(got)} rounds, round {d} = '
                                       f'{[x.split(":")[-1] for x in got[d]] if d < len(got) else "missing"}; FIPS-197 prefix has {len(exp)} rounds, round {d} = '
                                       f'{[x.split(":")[-1] for x in exp[d]] if d < len(exp) else "none"}')
            key = f'{f.key}::round composition'
            n += configs
            if it.template_writes:
                o, node = it.template_writes[0]
                ctx.fail('C05-D6', f'{pr.key}::shared round list', f'the stop-point surgery writes into the shared list {o} (`{norm(node)[:60]}`): later calls see a modified cipher', pr.where(node))
            if bad:
                ctx.fail('C05-D6', key, f'{bad[0]} ({len(bad)} stop points differ)', f.where(), differing=len(bad))
            else:
                ctx.ok('C05-D6', key, f'{configs} stop points (3 key sizes x at_round None/0..Nr x after_step default/0..3): the operation sequence is the FIPS-197 '
                       f'{"InvCipher" if fname == "decrypt" else "Cipher"} prefix ending at that step', f.where(), stop_points=configs)
        except ci.Unknown as e:
            ctx.undecided('C05-D6', f'{f.key}::round composition', f'configuration code not evaluable: {e}', f.where())
    # the driver hands the stop point over unchanged
    calls = [c for c in ast.walk(pc.node) if isinstance(c, ast.Call) and norm(c.func) == '_prepare_rounds']
    ok = len(calls) == 1
    if ok:
        amap = {}
        for i_, a in enumerate(calls[0].args):
            amap[pr.params[i_]] = norm(a)
        for k in calls[0].keywords:
            amap[k.arg] = norm(k.value)
        ok = amap.get('at_round') == 'at_round' and amap.get('after_step') == 'after_step' and amap.get('operations') == 'operations' and amap.get('round_keys') == 'round_keys'
    ctx.check(ok, 'C05-D6', f'{pc.key}::stop point hand-over', '_parametric_cipher does not pass at_round / after_step / operations / round_keys to _prepare_rounds unchanged',
              'stop point and operation lists handed to _prepare_rounds unchanged', pc.where())
    return n


DTYPES = {'uint8': ('u', 0, 255), 'int8': ('i', -128, 127), 'int16': ('i', -2 ** 15, 2 ** 15 - 1), 'uint16': ('u', 0, 2 ** 16 - 1), 'int32': ('i', -2 ** 31, 2 ** 31 - 1),
          'uint32': ('u', 0, 2 ** 32 - 1), 'int64': ('i', -2 ** 63, 2 ** 63 - 1), 'uint64': ('u', 0, 2 ** 64 - 1), 'float64': ('f', None, None), 'float32': ('f', None, None)}


def byte_validator(ctx, prog, rule):
    """the shared argument check accepts exactly the arrays of byte values: `_is_bytes_array` is interpreted (sa.confinterp) for
    every integer dtype and every (minimum, maximum) pair on the boundaries -1, 0, 1, 127, 128, 254, 255, 256, 1000 that the
    dtype can hold; it must return for 0 <= min <= max <= 255 and raise otherwise; float arrays are refused."""
    from .. import confinterp as ci
    f = prog.need_func('scared._utils', '_is_bytes_array')
    key = f'{f.key}::accepts exactly byte values'
    pts = (-1, 0, 1, 127, 128, 254, 255, 256, 1000)
    bad = []
    n = 0
    try:
        for dt, (kind, lo, hi) in DTYPES.items():
            pairs = [(None, None)] if kind == 'f' else [(a, b) for a in pts for b in pts if a <= b and lo <= a and b <= hi]
            for mn, mx in pairs:
                it = ci.Interp(prog)
                dts = ci.Sym('numpy.' + dt, attrs={'kind': kind, 'name': dt, 'itemsize': 8})
                arr = ci.Sym('array', attrs={'dtype': dts, '__isa__': {'numpy.ndarray'}, 'ndim': 2, 'shape': (2, 16), 'size': 32})

                def stub_min(args, kwargs, mn=mn):
                    return mn if mn is not None else ci.Sym('min')

                def stub_max(args, kwargs, mx=mx):
                    return mx if mx is not None else ci.Sym('max')

                def stub_iinfo(args, kwargs):
                    nm = args[0].name.split('.')[-1] if args and isinstance(args[0], ci.Sym) else (args[0] if args else None)
                    if nm in DTYPES and DTYPES[nm][0] != 'f':
                        return ci.Sym(f'iinfo({nm})', attrs={'min': DTYPES[nm][1], 'max': DTYPES[nm][2]})
                    raise ci.Unknown('iinfo argument')
                it.ext_stubs = {'numpy.min': stub_min, 'numpy.amin': stub_min, 'numpy.nanmin': stub_min, 'array.min': stub_min, 'numpy.max': stub_max, 'numpy.amax': stub_max,
                                'numpy.nanmax': stub_max, 'array.max': stub_max, 'numpy.iinfo': stub_iinfo}
                n += 1
                try:
                    it.call(f, (arr,), {})
                    accepted = True
                except ci.Raised:
                    accepted = False
                want = kind != 'f' and mn >= 0 and mx <= 255
                if accepted != want:
                    bad.append(f'a {dt} array with values in [{mn}, {mx}] is {"accepted" if accepted else "refused"}' if kind != 'f' else f'a {dt} array is accepted')
    except ci.Unknown as e:
        ctx.undecided(rule, key, f'validator not evaluable: {e}', f.where())
        return 0
    ctx.check(not bad, rule, key, f'{bad[0] if bad else ""}: the ciphers accept every integer array holding byte values 0..255 and nothing else ({len(bad)} of {n} dtype x range cases differ)',
              f'{n} dtype x (min, max) cases: accepted exactly when 0 <= min and max <= 255', f.where(), cases=n)
    return n


def buffer_dtypes(ctx, prog, modname, rule):
    """every array allocated in a cipher module has a dtype fixed by the module (an explicit unsigned/integer literal dtype),
    never one inherited from the caller's array: table outputs (0..255) stored into an int8 buffer wrap"""
    n = 0
    for f in prog.funcs_in(modname):
        for c in ast.walk(f.node):
            if not (isinstance(c, ast.Call) and isinstance(c.func, ast.Attribute)):
                continue
            d = prog.dotted(f.mod, c.func) or ''
            name = d.split('.')[-1]
            if not d.startswith('numpy') or name not in ('empty', 'zeros', 'ones', 'full', 'empty_like', 'zeros_like', 'ones_like', 'full_like'):
                continue
            n += 1
            dt = next((k.value for k in c.keywords if k.arg == 'dtype'), None)
            if dt is None and not name.endswith('_like') and len(c.args) >= (3 if name == 'full' else 2):
                dt = c.args[2 if name == 'full' else 1]
            key = f'{f.key}::{norm(c)[:80]}'
            if dt is None:
                if name.endswith('_like'):
                    ctx.fail(rule, key, f'`{norm(c)[:60]}` takes the dtype of its argument: with a signed byte (int8) state the table outputs 128..255 wrap', f.where(c))
                else:
                    ctx.fail(rule, key, f'`{norm(c)[:60]}` has no dtype (float64): the state is not a byte array any more', f.where(c))
                continue
            txt = norm(dt).strip('\'"').split('.')[-1]
            if txt in ('uint8', 'uint16', 'uint32', 'uint64', 'int16', 'int32', 'int64'):
                ctx.ok(rule, key, f'buffer dtype fixed to {txt}', f.where(c))
            elif txt == 'dtype' or 'dtype' in norm(dt):
                ctx.fail(rule, key, f'`{norm(c)[:60]}` takes its dtype from another array (`{norm(dt)}`): a signed byte state makes table outputs wrap', f.where(c))
            elif txt == 'int8':
                ctx.fail(rule, key, 'an int8 buffer cannot hold byte values 128..255', f.where(c))
            else:
                ctx.undecided(rule, key, f'dtype `{norm(dt)}` not understood', f.where(c))
    return n



def pairing_domain(ctx, prog):
    """which (key array, state array) shapes the cipher accepts: _prepare_keys interpreted (sa.symtensor, concrete shapes) for the
    three key sizes, keys and states given as one vector or as N rows: every combination is accepted except N keys with M != N
    states, and arrays of more than two dimensions (documented: one block per key, or one against many)."""
    from .. import symtensor, ratfun
    np = symtensor.np
    f = prog.need_func(A, '_prepare_keys')
    key = f'{f.key}::accepted shapes'
    if np is None:
        ctx.undecided('C05-D8', key, 'numpy is not available to the analysis interpreter', f.where())
        return 0
    kp, sp, mp = f.params[0], f.params[1], f.params[2]
    bad = None
    n = 0
    try:
        for klen in (16, 24, 32):
            for kshape in ((klen,), (1, klen), (3, klen), (2, 2, klen)):
                for sshape in ((16,), (1, 16), (3, 16), (4, 16), (2, 2, 16)):
                    for mode in ('encrypt', 'decrypt'):
                        te = symtensor.TensorEval(prog, None, {})
                        te.numeric = True
                        te.strict_if = True
                        te.summaries = {}

                        def hook(e, fn_, env, ev, klen=klen):
                            nm = norm(e.func).split('.')[-1]
                            if nm.startswith('_is_bytes'):
                                return True
                            if nm == 'key_schedule':
                                k_ = ev.ev(fn_, e.args[0], env)
                                rounds = {16: 11, 24: 13, 32: 15}[klen]
                                return np.zeros(k_.shape[:-1] + (rounds, 16), dtype=np.uint8)
                            return NotImplemented
                        te.call_hook = hook
                        n += 1
                        legal = len(kshape) <= 2 and len(sshape) <= 2 and not (len(kshape) == 2 and len(sshape) == 2 and kshape[0] != sshape[0])
                        # only the refusals are of interest: the statements are interpreted up to the last one that can raise
                        last_raise = max([i_ for i_, st_ in enumerate(f.node.body) if any(isinstance(x_, ast.Raise) for x_ in ast.walk(st_))] + [-1])
                        env_ = {kp: np.zeros(kshape, dtype=np.uint8), sp: np.zeros(sshape, dtype=np.uint8), mp: mode}
                        try:
                            for st_ in f.node.body[:last_raise + 1]:
                                try:
                                    te.block(f, [st_], env_)
                                except ratfun.Unknown:
                                    if any(isinstance(x_, ast.Raise) for x_ in ast.walk(st_)):
                                        raise
                            got = True
                        except symtensor.Raised:
                            got = False
                        if got != legal and bad is None:
                            bad = (f'{mode} with keys of shape {kshape} and states of shape {sshape} is ' + ('refused' if legal else 'accepted') +
                                   ('; documented: N keys go with N states, whatever the key size' if legal else '; documented: at most two dimensions, N keys with N states'))
        ctx.check(bad is None, 'C05-D8', key, f'{bad}', f'{n} (key size, key shape, state shape, mode) cases: accepted exactly when at most two dimensions and, for N keys with M states, N = M', f.where(), cases=n)
    except ratfun.Unknown as e:
        ctx.undecided('C05-D8', key, f'_prepare_keys not evaluable: {e}', f.where())
    return n

def run(ctx, prog):
    ctx.rule('C05-D1', 'literal tables equal the FIPS-197 definitions (generated from GF(2^8) arithmetic), all entries')
    ctx.rule('C05-D2', 'primitives bind the right table / operation')
    ctx.rule('C05-D3', 'MixColumns / InvMixColumns dependency relation is the FIPS circulant; applied per column')
    ctx.rule('C05-D4', 'round operation lists, enums, first/last variants, key direction and round-key index')
    ctx.rule('C05-D5', 'no in-place effect reaches a caller-owned array')
    ctx.rule('C05-D6', 'round composition: for every key size, at_round (None, 0..Nr) and after_step (default, 0..3) the operation sequence produced by the configuration code (partially evaluated, cipher data opaque) is the FIPS-197 Cipher / InvCipher prefix ending at that step; shared round lists are never written')
    ctx.assume('the four broadcasting shapes (one/many states x one/many keys) are numpy broadcasting at run time and are not decided')
    n1 = d1(ctx, prog)
    d2(ctx, prog)
    d3(ctx, prog)
    d4(ctx, prog)
    n5 = ownership(ctx, prog, A, 'C05-D5')
    n6 = d6(ctx, prog)
    ctx.rule('C05-D7', 'the shared byte-array check accepts exactly integer arrays with all values in 0..255 (every dtype x boundary range, by interpretation)')
    ctx.floor('byte validator cases', byte_validator(ctx, prog, 'C05-D7'), 100)
    ctx.floor('buffer allocations judged (aes)', buffer_dtypes(ctx, prog, A, 'C05-D2'), 2)
    ctx.floor('stop points composed (aes)', n6, 2 * 3 * 12 * 5)
    ctx.floor('table entries compared', n1, 256 * 8 + 32 + 10)
    ctx.floor('in-place effects judged (aes)', n5, 8)
    ctx.rule('C05-D8', 'pairing of keys and states: accepted exactly when both have at most two dimensions and N keys go with N states, for the three key sizes and both modes (interpretation of _prepare_keys on concrete shapes)')
    ctx.floor('pairing cases interpreted', pairing_domain(ctx, prog), 100)
