"""C12 - classes are identified by value: order is irrelevant, foreign values are ignored.

D1 value -> position map   the lookup table is filled with -1 and stores table[values[i]] = i over all declared values;
                           the vectorised lookup returns table[x]; on every accepted path of the partitioned `_update` the
                           data handed to `_accumulate` is the output of exactly that lookup.
D2 index kinds             every value that may be the sentinel is guarded before it is used as an index (kernels), and the
                           template row used for matching is selected by a class *position*: a loop index over the declared
                           classes, or a lookup output checked for the sentinel - never a raw hypothesis value.
D3 per-class outputs       the template builder walks the classes with enumerate(self.partitions) (row i <-> class i).
D4 automatic class set     interval evaluation of the literal size thresholds: for every admitted first-batch maximum the
                           chosen arange(r) contains it.
"""
import ast

from .. import flow, kernels, kernelrules, universe, lut, astutil
from ..model import AnalysisError, norm, const_value, self_attr
from .c11 import emit


def d1(ctx, prog, lk):
    for f, info in lk.builders.items():
        if info.get('wrapper_of') is not None:
            ctx.ok('C12-D1', f'{f.key}::hands out the table of {info["wrapper_of"].name}', 'every value returned is the table the builder made for the same argument (or a copy of it)', f.where())
            continue
        fill = info['fill']
        ctx.ok('C12-D1', f'{f.key}::{norm(fill)[:100]}', 'every table entry starts as the sentinel -1', f.where(fill))
        for status, node, detail in lut.check_builder(f, info):
            (ctx.ok if status == 'ok' else ctx.fail)('C12-D1', f'{f.key}::{norm(node)[:100]}', detail, f.where(node))
    for f, info in lk.factories.items():
        g = info['nested']
        shape = info['plain_lookup']
        b = info['builder']
        b = lk.builders[b].get('wrapper_of') or b
        fill = lk.builders[b]['fill']
        # does the table extent depend on the declared values?
        ext_dep = bool({n.id for n in ast.walk(fill.value) if isinstance(n, ast.Name)} & (set(b.params) | {
            t.targets[0].id for t in ast.walk(b.node) if isinstance(t, ast.Assign) and isinstance(t.targets[0], ast.Name)
            and ({x.id for x in ast.walk(t.value) if isinstance(x, ast.Name)} & set(b.params))}))
        key = f'{g.key}::return'
        if shape is None:
            ctx.fail('C12-D1', key, 'the vectorised lookup does not return table[x] for its argument x (or the sentinel under a bound check)', g.where())
        elif shape == 'guarded1':
            ctx.fail('C12-D1', key, 'the lookup bounds its argument on one side only: values beyond the unchecked side wrap around / read outside '
                                    'the table and are counted in a declared class instead of being ignored', g.where())
        elif shape == 'plain' and ext_dep:
            ctx.fail('C12-D1', key, 'the table extent depends on the declared values but the lookup is unguarded: undeclared values beyond the '
                                    'extent (or negative ones, which wrap) address foreign entries', g.where())
        else:
            ctx.ok('C12-D1', key, 'the vectorised lookup returns table[x]' + (' under a two-sided bound check' if shape == 'guarded2' else
                                                                               ' into a table whose extent does not depend on the declared values'), g.where())
    funcs = list(lk.builders) + list(lk.factories) + [f for lst in lk.attrs.values() for f, st in lst]
    uses = lut.order_destroyed_uses(prog, funcs)
    for f, node, name, fn, how in uses:
        ctx.fail('C12-D1', f'{f.key}::{norm(node)[:100]}', f'`{name}` is derived from the declared classes through `{fn}` (which forgets their order) and is '
                                                          f'used as {how} while the lookup is built: two class lists with the same values in another order get the '
                                                          f'same positions', f.where(node))
    if not uses:
        ctx.ok('C12-D1', 'lookup construction::order', f'no order-destroying function of the declared classes is used as key/iterable/argument in {len(funcs)} construction functions')
    # the lookup is applied to the data handed to _accumulate, on every accepted path
    allc, concrete = universe.distinguisher_classes(prog)
    done = set()
    n = 0
    for ci in concrete:
        upd = prog.resolve_method(ci, '_update')
        acc = prog.resolve_method(ci, '_accumulate')
        if upd is None or acc is None:
            continue
        tagged_params = [p for p in acc.params if (acc.key, p) in lk.tagged]
        key = (upd.key, acc.key)
        if key in done:
            continue
        done.add(key)
        n += 1
        ckey = f'{upd.key}::lookup before {acc.qualname}'
        if not tagged_params:
            ctx.fail('C12-D1', ckey, f'{acc.qualname} never receives a lookup output: kernels would index classes by raw value', upd.where())
            continue
        params = [p for p in acc.params if p != 'self']
        pos = params.index(tagged_params[0])

        def keep(ev, fl):
            return ev[0] in ('call', 'lstore')
        fl = flow.Flow(prog, ci, keep=keep, inline=lambda callee, call, caller: False)
        paths = fl.run(upd)
        problems = []
        n_ok = 0
        for p in paths:
            if p.outcome != flow.NORMAL:
                continue
            mapped = set()
            pending = None
            calls = 0
            for ev in p.events:
                kind, name, how, site = ev
                node = fl.node_of(ev)
                if kind == 'call' and name.startswith('self.') and name[5:] in lk.attrs:
                    pending = node
                elif kind == 'lstore' and how == 'bind':
                    if isinstance(node, ast.Assign) and node.value is pending and pending is not None:
                        mapped.add(name)
                    else:
                        mapped.discard(name)
                elif kind == 'call' and name == 'self.' + acc.name:
                    calls += 1
                    a = node.args[pos] if pos < len(node.args) else None
                    for k in node.keywords:
                        if k.arg == tagged_params[0]:
                            a = k.value
                    good = isinstance(a, ast.Name) and a.id in mapped
                    if isinstance(a, ast.Call) and isinstance(a.func, ast.Attribute) and a.func.attr in lk.attrs:
                        good = True
                    if not good:
                        problems.append(f'`{norm(node)[:80]}` passes `{norm(a) if a is not None else "?"}`, which is not the lookup output on this path')
            if calls != 1:
                problems.append(f'{calls} calls of {acc.name} on an accepted path')
            else:
                n_ok += 1
        if problems:
            ctx.fail('C12-D1', ckey, '; '.join(sorted(set(problems))[:2]), upd.where())
        else:
            ctx.ok('C12-D1', ckey, f'on each of {n_ok} accepted paths the {tagged_params[0]} argument of {acc.name} is the lookup output', upd.where())
    return n


def d2_templates(ctx, prog, lk):
    """index kind of every subscript into self.templates"""
    n = 0
    allc, concrete = universe.distinguisher_classes(prog)
    for ci in concrete:
        upd = prog.resolve_method(ci, '_update')
        if upd is None:
            continue
        from .. import normalize
        upd = normalize.normal(prog, upd, skip={'get_template_index', '_get_dimension'})
        subs = [s for s in ast.walk(upd.node) if isinstance(s, ast.Subscript) and self_attr(s.value) == 'templates'
                and isinstance(s.value, ast.Attribute)]
        for s in subs:
            n += 1
            key = f'{ci.key}::{norm(s)[:100]}'
            idx = s.slice
            kind, why = index_kind(prog, lk, ci, upd, idx)
            if kind == 'ClassIndex':
                ctx.ok('C12-D2', key, f'{ci.name}: template row selected by a class position ({why})', upd.where(s))
            elif kind is None:
                ctx.undecided('C12-D2', key, f'{ci.name}: cannot determine the kind of index `{norm(idx)[:60]}` ({why})', upd.where(s))
            else:
                ctx.fail('C12-D2', key, f'{ci.name}: self.templates is indexed with a {kind} ({why}); rows are class positions, so another '
                                        f'order of the declared classes, or a gap, selects the wrong template', upd.where(s))
    return n


def loop_range_of(func, name):
    """`for name in range(X)` enclosing -> X"""
    for n in ast.walk(func.node):
        if isinstance(n, ast.For) and isinstance(n.target, ast.Name) and n.target.id == name and isinstance(n.iter, ast.Call) \
                and norm(n.iter.func) == 'range' and len(n.iter.args) == 1:
            return n.iter.args[0]
    return None


def is_len_partitions(e):
    return norm(e).replace(' ', '') in ('len(self.partitions)', 'self.partitions.shape[0]')


def _elem_pred(e, name):
    """'neg' when the element-wise expression is true exactly for the sentinel (name < 0, name == -1, name <= -1), 'ok' when it
    is true exactly for the class positions (name >= 0, name != -1, name > -1); None otherwise"""
    if isinstance(e, ast.UnaryOp) and isinstance(e.op, (ast.Invert, ast.Not)):
        k = _elem_pred(e.operand, name)
        return {'neg': 'ok', 'ok': 'neg'}.get(k)
    if isinstance(e, ast.Call) and norm(e.func).split('.')[-1] == 'logical_not' and len(e.args) == 1:
        return {'neg': 'ok', 'ok': 'neg'}.get(_elem_pred(e.args[0], name))
    if isinstance(e, ast.Compare) and len(e.ops) == 1:
        l, r, op = e.left, e.comparators[0], e.ops[0]
        flip = {ast.Lt: ast.Gt, ast.Gt: ast.Lt, ast.LtE: ast.GtE, ast.GtE: ast.LtE, ast.Eq: ast.Eq, ast.NotEq: ast.NotEq}
        if isinstance(r, ast.Name) and r.id == name and type(op) in flip:
            l, r, op = r, l, flip[type(op)]()
        if not (isinstance(l, ast.Name) and l.id == name):
            return None
        c = const_value(r)
        if not isinstance(c, int) or isinstance(c, bool):
            return None
        table = {(ast.Lt, 0): 'neg', (ast.LtE, -1): 'neg', (ast.Eq, -1): 'neg', (ast.GtE, 0): 'ok', (ast.Gt, -1): 'ok', (ast.NotEq, -1): 'ok'}
        return table.get((type(op), c))
    return None


def refuses_sentinel(test, name):
    """the test is true whenever some element of `name` is the sentinel: any(neg) / not all(ok) / min(name) < 0, alone or as one
    alternative of an `or`"""
    if isinstance(test, ast.BoolOp) and isinstance(test.op, ast.Or):
        return any(refuses_sentinel(v, name) for v in test.values)
    neg = False
    while isinstance(test, ast.UnaryOp) and isinstance(test.op, ast.Not):
        neg = not neg
        test = test.operand
    red, arg = None, None
    if isinstance(test, ast.Call) and isinstance(test.func, ast.Attribute) and test.func.attr in ('any', 'all'):
        if norm(test.func.value) in ('_np', 'np', 'numpy') and len(test.args) == 1:
            red, arg = test.func.attr, test.args[0]
        elif not test.args:
            red, arg = test.func.attr, test.func.value
    elif isinstance(test, ast.Call) and isinstance(test.func, ast.Name) and test.func.id in ('any', 'all') and len(test.args) == 1:
        red, arg = test.func.id, test.args[0]
    if red is not None:
        k = _elem_pred(arg, name)
        return (red == 'any' and k == 'neg' and not neg) or (red == 'all' and k == 'ok' and neg)
    if isinstance(test, ast.Compare) and len(test.ops) == 1 and not neg:
        l = test.left
        is_min = isinstance(l, ast.Call) and ((isinstance(l.func, ast.Attribute) and l.func.attr == 'min' and norm(l.func.value) == name and not l.args)
                                              or (norm(l.func).split('.')[-1] in ('min', 'amin') and len(l.args) == 1 and norm(l.args[0]) == name))
        c = const_value(test.comparators[0])
        if is_min and ((isinstance(test.ops[0], ast.Lt) and c == 0) or (isinstance(test.ops[0], ast.LtE) and c == -1) or (isinstance(test.ops[0], ast.Eq) and c == -1)):
            return True
    return False


def index_kind(prog, lk, ci, func, idx, depth=0):
    if depth > 3:
        return None, 'too deep'
    if isinstance(idx, ast.Name):
        rng = loop_range_of(func, idx.id)
        if isinstance(rng, ast.Name):
            # range(<local>): follow a local that is assigned exactly once
            defs = [n.value for n in ast.walk(func.node) if isinstance(n, ast.Assign) and len(n.targets) == 1
                    and isinstance(n.targets[0], ast.Name) and n.targets[0].id == rng.id]
            if len(defs) == 1:
                rng = defs[0]
        if rng is not None:
            if is_len_partitions(rng):
                return 'ClassIndex', f'`{idx.id}` ranges over range(len(self.partitions))'
            if isinstance(rng, ast.Call) and isinstance(rng.func, ast.Attribute) and norm(rng.func.value) == 'self':
                g = prog.resolve_method(ci, rng.func.attr)
                if g is not None:
                    rets = [r.value for r in ast.walk(g.node) if isinstance(r, ast.Return) and r.value is not None]
                    if rets and all(is_len_partitions(r) for r in rets):
                        return 'ClassIndex', f'`{idx.id}` ranges over range({g.qualname}()) = range(len(self.partitions))'
                    return 'Plain', f'`{idx.id}` ranges over range({g.qualname}()) = range({norm(rets[0]) if rets else "?"}), not over the declared classes'
            return 'Plain', f'`{idx.id}` ranges over range({norm(rng)[:40]})'
        if (func.key, idx.id) in lk.tagged:
            # lookup output: needs an array-level sentinel check before use
            guard = None
            for n in ast.walk(func.node):
                if isinstance(n, ast.If) and n.body and isinstance(n.body[-1], ast.Raise) and refuses_sentinel(n.test, idx.id):
                    guard = n
            if guard is not None:
                return 'ClassIndex', f'`{idx.id}` is the value->position lookup output, refused when it contains the sentinel'
            return 'MaybeClassIndex', f'`{idx.id}` is a lookup output that may contain the sentinel -1 (never checked)'
        if idx.id in func.params:
            return None, f'parameter `{idx.id}`'
        return None, f'local `{idx.id}`'
    if isinstance(idx, ast.Call) and isinstance(idx.func, ast.Attribute) and norm(idx.func.value) == 'self':
        g = prog.resolve_method(ci, idx.func.attr)
        if g is None and idx.func.attr in lk.attrs:
            # the value->position lookup applied in place: its output holds the sentinel -1 for every undeclared value and nothing
            # between the lookup and the use refuses it (-1 as a row index is the last class)
            return 'MaybeClassIndex', f'`{norm(idx)[:50]}` is a lookup output that may contain the sentinel -1, used without a check on this batch'
        if g is None:
            return None, f'unresolved self.{idx.func.attr}'
        amap = kernels.call_arg_map(g, idx, skip_self=True)
        kinds = []
        for r in ast.walk(g.node):
            if isinstance(r, ast.Return) and r.value is not None:
                v = r.value
                if isinstance(v, ast.Name) and v.id in g.params:
                    a = amap.get(v.id)
                    if a is None:
                        kinds.append((None, f'parameter {v.id} unbound'))
                    else:
                        kinds.append(index_kind(prog, lk, ci, func, a, depth + 1))
                elif isinstance(v, ast.Subscript) and isinstance(v.value, ast.Name) and v.value.id in g.params:
                    kinds.append(('ClassValue', f'{g.qualname} returns the raw intermediate values `{norm(v)}`'))
                else:
                    kinds.append(index_kind(prog, lk, ci, g, v, depth + 1))
        if not kinds:
            return None, f'{g.qualname} has no return'
        bad = [k for k in kinds if k[0] != 'ClassIndex']
        if bad:
            return bad[0]
        return 'ClassIndex', f'{g.qualname}: ' + kinds[0][1]
    if isinstance(idx, ast.Subscript):
        return 'ClassValue', f'raw data `{norm(idx)[:40]}`'
    return None, 'unrecognised index expression'


def d3(ctx, prog):
    n = 0
    for f in prog.funcs:
        if f.name != '_compute' or f.cls is None:
            continue
        for loop in ast.walk(f.node):
            if isinstance(loop, ast.For) and isinstance(loop.iter, ast.Call) and norm(loop.iter.func) == 'enumerate' \
                    and loop.iter.args and norm(loop.iter.args[0]) == 'self.partitions':
                n += 1
                i = loop.target.elts[0].id if isinstance(loop.target, ast.Tuple) and isinstance(loop.target.elts[0], ast.Name) else None
                # every subscript by a loop variable inside the body must use the position i, not the value
                v = loop.target.elts[1].id if isinstance(loop.target, ast.Tuple) and isinstance(loop.target.elts[1], ast.Name) else None
                bad = [s for s in ast.walk(loop) if isinstance(s, ast.Subscript) and isinstance(s.slice, ast.Name) and s.slice.id == v]
                key = f'{f.key}::for {norm(loop.target)} in {norm(loop.iter)}'
                if bad:
                    ctx.fail('C12-D3', key, f'per-class array indexed by the class value `{v}` instead of its position `{i}`: `{norm(bad[0])}`', f.where(bad[0]))
                else:
                    ctx.ok('C12-D3', key, f'per-class arrays are indexed by the position `{i}` of each declared class', f.where(loop))
            elif isinstance(loop, ast.For) and isinstance(loop.target, ast.Name) and isinstance(loop.iter, ast.Call) and norm(loop.iter.func) == 'range' \
                    and len(loop.iter.args) == 1 and is_len_partitions(astutil.expand_locals(loop.iter.args[0], astutil.local_defs(f.node))):
                n += 1
                i = loop.target.id
                # a value read from self.partitions inside the loop must not index a per-class array
                vals = {s_.targets[0].id for s_ in ast.walk(loop) if isinstance(s_, ast.Assign) and len(s_.targets) == 1 and isinstance(s_.targets[0], ast.Name)
                        and norm(s_.value).replace(' ', '') == f'self.partitions[{i}]'}
                bad = [s_ for s_ in ast.walk(loop) if isinstance(s_, ast.Subscript) and ((isinstance(s_.slice, ast.Name) and s_.slice.id in vals) or
                                                                                       norm(s_.slice).replace(' ', '') == f'self.partitions[{i}]')]
                key = f'{f.key}::for {i} in {norm(loop.iter)}'
                if bad:
                    ctx.fail('C12-D3', key, f'per-class array indexed by a class value instead of its position `{i}`: `{norm(bad[0])}`', f.where(bad[0]))
                else:
                    ctx.ok('C12-D3', key, f'per-class arrays are indexed by the position `{i}` in range(len(self.partitions))', f.where(loop))
    return n


def _searchsorted(a, k):
    """numpy.searchsorted on a literal sorted list and an integer (side='left' unless stated)"""
    import bisect
    from .. import confinterp as cf
    seq, v = a[0], a[1]
    if not (isinstance(seq, (list, tuple)) and all(isinstance(x, int) for x in seq) and isinstance(v, int)):
        raise cf.Unknown('searchsorted on non-literal operands')
    side = k.get('side', a[2] if len(a) > 2 else 'left')
    return bisect.bisect_right(list(seq), v) if side == 'right' else bisect.bisect_left(list(seq), v)


def _bisect_stub(a, k, side):
    import bisect
    from .. import confinterp as cf
    seq = a[0] if a else k.get('a')
    v = a[1] if len(a) > 1 else k.get('x')
    if not isinstance(seq, (list, tuple)) or not all(isinstance(x, (int, float)) for x in seq) or not isinstance(v, (int, float)) or len(a) > 2 or set(k) - {'a', 'x'}:
        raise cf.Unknown('bisect over values that are not literal numbers')
    return bisect.bisect_right(list(seq), v) if side == 'right' else bisect.bisect_left(list(seq), v)


def d4(ctx, prog):
    """automatic class set: _initialize is partially evaluated (sa.confinterp) with no class set declared, for every admitted
    first-batch maximum 0..255 (minimum 0): the class set built must be arange(n) with n > maximum, i.e. contain every value the
    batch can hold; maxima above 255 and negative minima must be refused."""
    from .. import confinterp as cf
    ci = prog.need_class('scared.distinguishers.partitioned', '_PartitionnedDistinguisherBaseMixin')
    f = ci.methods.get('_initialize')
    if f is None:
        raise AnalysisError('_PartitionnedDistinguisherBaseMixin._initialize not found')
    key = f'{f.key}::automatic class set'
    bad, sizes = [], {}
    und = None

    def run_one(mx, mn):
        it = cf.Interp(prog)
        it.ext_stubs = {'numpy.nanmax': lambda a, k: mx, 'numpy.max': lambda a, k: mx, 'numpy.amax': lambda a, k: mx,
                        'numpy.nanmin': lambda a, k: mn, 'numpy.min': lambda a, k: mn, 'numpy.amin': lambda a, k: mn,
                        'numpy.arange': lambda a, k: ('arange',) + tuple(a),
                        'numpy.searchsorted': _searchsorted,
                        'bisect.bisect_right': lambda a, k: _bisect_stub(a, k, 'right'), 'bisect.bisect': lambda a, k: _bisect_stub(a, k, 'right'),
                        'bisect.bisect_left': lambda a, k: _bisect_stub(a, k, 'left')}
        o = cf.Obj(ci, partitions=None)
        traces = cf.Sym('traces', attrs={'shape': (cf.Sym('n'), cf.Sym('s'))})
        data = cf.Sym('data', attrs={'shape': (cf.Sym('n'), cf.Sym('w'))})
        try:
            it.call(f, kwargs={f.params[1]: traces, f.params[2]: data}, selfobj=o)
        except cf.Raised as e:
            if o.attrs.get('partitions') is None:
                return ('raised', e.kind)
        except cf.Unknown as e:
            if o.attrs.get('partitions') is None:
                return ('unknown', str(e))
        return ('set', o.attrs.get('partitions'))
    for mx in range(256):
        r = run_one(mx, 0)
        if r[0] == 'unknown':
            und = r[1]
            break
        if r[0] == 'raised':
            bad.append(f'first-batch maximum {mx} is refused ({r[1]})')
            continue
        p = r[1]
        if not (isinstance(p, tuple) and p and p[0] == 'arange' and len(p) == 2 and isinstance(p[1], int)):
            und = f'class set built as {p}, not arange(<size>)'
            break
        sizes.setdefault(p[1], []).append(mx)
        if not p[1] > mx:
            bad.append(f'first-batch maximum {mx} gives the class set arange({p[1]}) = 0..{p[1] - 1}: the value {mx} itself is not a class (its traces are dropped)')
    if und:
        ctx.undecided('C12-D4', key, f'automatic class set not evaluable: {und}', f.where())
        return
    if bad:
        ctx.fail('C12-D4', key, f'{bad[0]} ({len(bad)} of 256 maxima affected)', f.where(), affected=len(bad))
    else:
        ctx.ok('C12-D4', key, f'every first-batch maximum 0..255 is a member of the class set built for it (sizes {dict((k, (v[0], v[-1])) for k, v in sorted(sizes.items()))})', f.where(), maxima=256)
    for mx, mn, what in ((256, 0, 'a maximum above 255'), (300, 0, 'a maximum above 255'), (5, -1, 'a negative minimum')):
        r = run_one(mx, mn)
        ctx.check(r[0] == 'raised', 'C12-D4', f'{f.key}::refuses {what} ({mx}, {mn})', f'{what} is not refused when no class set is declared ({r})', f'{what} is refused', f.where())


def d5(ctx, prog):
    """(a) class statistics never use the global trace count: traces whose value is not a declared class are skipped by the
    accumulators but still counted in processed_traces, so a total / mean / degree of freedom taken from it makes undeclared
    values influence the result;  (b) no search that assumes an order of the declared classes (searchsorted / bisect on the class
    list): two lists with the same values in another order must designate the same classes."""
    PART = 'scared.distinguishers.partitioned'
    n = 0
    base = prog.need_class(PART, 'PartitionedDistinguisherMixin')
    funcs = [prog.resolve_method(base, '_compute')] + [ci.methods['_compute_metric'] for ci in prog.subclasses_of(base, strict=True) if '_compute_metric' in ci.methods]
    mia = prog.classes.get('scared.distinguishers.mia:MIADistinguisherMixin')
    if mia is not None:
        funcs += [f for f in (prog.resolve_method(mia, '_compute'), prog.resolve_method(mia, '_compute_pdf')) if f is not None]
    for f in funcs:
        if f is None:
            continue
        n += 1
        uses = [x for x in ast.walk(f.node) if isinstance(x, ast.Attribute) and norm(x) == 'self.processed_traces']
        ctx.check(not uses, 'C12-D5', f'{f.key}::global trace count', f'{f.qualname} uses self.processed_traces: it counts the traces of undeclared values too, so those traces change the class statistics',
                  'class statistics use the class counters only', f.where(uses[0]) if uses else f.where())
    for f in prog.funcs:
        if not f.mod.name.startswith('scared.distinguishers'):
            continue
        for c in ast.walk(f.node):
            if isinstance(c, ast.Call) and norm(c.func).split('.')[-1] in ('searchsorted', 'bisect', 'bisect_left', 'bisect_right', 'digitize') and c.args:
                recv = c.func.value if isinstance(c.func, ast.Attribute) and norm(c.func.value) not in ('_np', 'np', 'numpy', 'bisect') else c.args[0]
                names = {x.id for x in ast.walk(recv) if isinstance(x, ast.Name)}
                defs = {s_.targets[0].id: s_.value for s_ in ast.walk(f.node) if isinstance(s_, ast.Assign) and len(s_.targets) == 1 and isinstance(s_.targets[0], ast.Name)}
                txt = norm(recv) + ' ' + ' '.join(norm(defs[x]) for x in names if x in defs)
                if 'partitions' in txt:
                    n += 1
                    ctx.fail('C12-D5', f'{f.key}::{norm(c)[:80]}', f'`{norm(c)[:70]}` searches the declared classes assuming they are sorted: a class list in another order '
                             f'designates other classes (or none)', f.where(c))
    return n


ORDER_KEPT = {'array', 'asarray', 'asanyarray', 'ascontiguousarray', 'astype', 'copy', 'list', 'tuple', 'ravel', 'flatten', 'reshape', 'int32', 'int64'}
ORDER_LOST = {'unique', 'sort', 'sorted', 'set', 'frozenset', 'flip', 'flipud', 'reversed', 'argsort', 'roll', 'permutation', 'shuffle', 'fromkeys', 'union1d', 'intersect1d'}


def d9(ctx, prog):
    """the declared class list reaches the `partitions` attribute in the declared order: per-class outputs (template rows, counters,
    static template scores) are indexed by position in that attribute, so sorting / deduplicating the declaration makes row i
    something else than the class the caller listed at position i.  Rule: in every function of the distinguisher modules that
    stores a `.partitions` attribute from a parameter, the stored value derives from the parameter through conversions only."""
    n = 0
    for modname in ('scared.distinguishers.partitioned', 'scared.distinguishers.mia', 'scared.distinguishers.template', 'scared.distinguishers.base'):
        for f in prog.funcs_in(modname):
            stores = []
            for st in ast.walk(f.node):
                if isinstance(st, ast.Assign) and len(st.targets) == 1 and isinstance(st.targets[0], ast.Attribute) and st.targets[0].attr == 'partitions':
                    roots = [x.id for x in ast.walk(st.value) if isinstance(x, ast.Name) and x.id in f.params and x.id not in ('self', 'obj', 'cls')]
                    if len(set(roots)) == 1 and not isinstance(st.value, ast.Name):
                        # `obj.partitions = <expression over the parameter>`: judged like a rebinding of the parameter
                        st = ast.copy_location(ast.Assign(targets=st.targets, value=ast.Name(id=roots[0], ctx=ast.Load())), st)
                        st._expr = ast.copy_location(ast.Assign(targets=[ast.Name(id=roots[0], ctx=ast.Store())], value=[s_ for s_ in ast.walk(f.node) if isinstance(s_, ast.Assign) and s_.targets[0] is st.targets[0]][0].value), st)
                        stores.append(st)
                    elif isinstance(st.value, ast.Name) and st.value.id in f.params:
                        stores.append(st)
            for st in stores:
                pname = st.value.id
                n += 1
                key = f'{f.key}::declared order of `{pname}`'
                lost, unknown = None, None
                for a in list(ast.walk(f.node)) + ([st._expr] if hasattr(st, '_expr') else []):
                    if isinstance(a, (ast.Assign, ast.AugAssign)) and any(isinstance(t, ast.Name) and t.id == pname for t in (a.targets if isinstance(a, ast.Assign) else [a.target])):
                        v = a.value
                        if isinstance(a, ast.AugAssign):
                            unknown = unknown or a
                            continue
                        cands = [v]
                        if isinstance(v, ast.IfExp):
                            cands = [x for x in (v.body, v.orelse) if not (isinstance(x, ast.Constant) and x.value is None)]
                        for node in cands:
                          while True:
                              if isinstance(node, ast.Name):
                                  if node.id != pname:
                                      unknown = unknown or a
                                  break
                              if isinstance(node, ast.Call):
                                  nm = norm(node.func).split('.')[-1]
                                  inner = node.func.value if isinstance(node.func, ast.Attribute) and not norm(node.func.value).lstrip('_') in ('np', 'numpy') else (node.args[0] if node.args else None)
                                  if nm in ORDER_LOST:
                                      lost = lost or a
                                      break
                                  if nm not in ORDER_KEPT or inner is None:
                                      unknown = unknown or a
                                      break
                                  node = inner
                                  continue
                              if isinstance(node, ast.Subscript) and isinstance(node.slice, ast.Slice) and node.slice.lower is None and node.slice.upper is None and node.slice.step is None:
                                  node = node.value
                                  continue
                              unknown = unknown or a
                              break
                    if isinstance(a, ast.Expr) and isinstance(a.value, ast.Call) and isinstance(a.value.func, ast.Attribute) and isinstance(a.value.func.value, ast.Name) \
                            and a.value.func.value.id == pname and a.value.func.attr in ('sort', 'reverse'):
                        lost = lost or a
                if lost is not None:
                    ctx.fail('C12-D9', key, f'`{norm(lost)[:80]}` reorders / deduplicates the declared classes before they are stored: row i of the per-class outputs (templates, counters, static '
                             'template scores) is no longer the class the caller declared at position i', f.where(lost))
                elif unknown is not None:
                    ctx.undecided('C12-D9', key, f'cannot tell whether `{norm(unknown)[:80]}` keeps the declared order', f.where(unknown))
                else:
                    ctx.ok('C12-D9', key, 'the declared classes are stored as given (conversions only)', f.where(st))
    ctx.floor('functions storing the declared classes', n, 1)


def run(ctx, prog):
    from .. import universe as _uni0
    _uni0.inline_base_entry_points(ctx, prog)
    ctx.rule('C12-D9', 'the declared class list is stored in the declared order (conversions only, no sort / unique): per-class outputs are indexed by position in it')
    d9(ctx, prog)
    ctx.rule('C12-D1', 'lookup table: -1 fill, table[values[i]] = i over all declared values, plain table[x] lookup; _accumulate receives the lookup output on every accepted path')
    ctx.rule('C12-D2', 'sentinel-capable values are guarded before index use; template rows are selected by class position')
    ctx.rule('C12-D3', 'per-class outputs are built by enumerate(self.partitions) and indexed by position')
    ctx.rule('C12-D4', 'interval evaluation of the literal thresholds: the automatic class set contains every admitted maximum')
    lk = lut.Lookup(prog)
    ctx.unit('lookup', {'builders': [f.key for f in lk.builders], 'factories': [f.key for f in lk.factories],
                        'attributes': sorted(lk.attrs), 'tagged_values': sorted(f'{k}:{n}' for k, n in lk.tagged)})
    n1 = d1(ctx, prog, lk)
    n_k = 0
    for f, kind, call in kernels.numba_funcs(prog):
        mp = lk.maybe_params(f)
        if not mp:
            continue
        n_k += 1
        res, arrays = kernelrules.sentinel_discipline(prog, f, mp)
        emit(ctx, 'C12-D2', res)
        if not res:
            ctx.ok('C12-D2', f'{f.key}::lookup output `{sorted(mp)[0]}`', 'never used as an index (compared with class positions only)')
    n_t = d2_templates(ctx, prog, lk)
    # the lookup used by the matcher is built from the partitions the templates are ordered by
    for attr, lst in lk.attrs.items():
        for f, st in lst:
            args = [norm(a) for a in st.value.args] + [norm(k.value) for k in st.value.keywords]
            ctx.check(args == ['self.partitions'], 'C12-D1', f'{f.key}::{norm(st)[:100]}',
                      f'lookup built from {args}, not from self.partitions', 'lookup built from self.partitions', f.where(st))
    n3 = d3(ctx, prog)
    d4(ctx, prog)
    ctx.rule('C12-D5', 'class statistics never read the global trace count; no order-assuming search (searchsorted / bisect) over the declared classes')
    ctx.floor('class-statistic functions checked for the global count', d5(ctx, prog), 4)
    ctx.floor('update/accumulate pairs', n1, 3)
    ctx.floor('kernels receiving lookup output', n_k, 5)
    ctx.floor('template row selections', n_t, 2)
    ctx.floor('enumerate(self.partitions) loops', n3, 1)
    from .. import kernelvalues as _kv
    ctx.floor('kernel value cases interpreted', _kv.clause(ctx, prog, 'C12-D7', ('partitioned', 'template')), 20)
    from .. import kernelvalues as _kvm
    ctx.floor('MIA kernel cases interpreted', _kvm.mia_clause(ctx, prog, 'C12-D8'), 8)
