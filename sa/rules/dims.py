"""Shared drivers of the dimensional analysis (sa.units): accumulator dimensions from the update side, statistic dimension from
the compute side."""
import ast

from .. import units, kernels
from ..model import norm, self_attr

U = units.D


def contributions(prog, func, seeds, carries, extra_env=None):
    """{accumulator (self attribute or parameter name): dims} of every additive contribution in `func`; plus the Units object"""
    x = units.Units(func, seeds=dict(seeds, **(extra_env or {})), carries=carries, prog=prog).run()
    out = {}
    for name, dims, node, how in x.contrib:
        if how == 'add':
            if name in out and out[name] != dims:
                out[name] = units.TOP
            else:
                out[name] = dims
    return out, x


def report_mismatches(ctx, rule, func, x, prefix=''):
    n = 0
    for node, a, b, what in x.mismatches:
        n += 1
        ctx.fail(rule, f'{func.key}::{norm(node)[:90]}', f'{prefix}{what} of two different dimensions in `{norm(node)[:70]}`: {units.show(a)} vs {units.show(b)} '
                 f'(u = trace unit, v = data unit, n = number of traces): the expression is not homogeneous, e.g. a moment that is not normalised by the trace count', func.where(node))
    return n
