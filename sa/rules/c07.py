"""C07 - ready-made selection functions predict the real cipher state under the true key (wiring decided statically).

D1 registry      every ready-made class (5 AES + 8 DES, discovered from their __new__) binds, consistently: the metadata side
                 (plaintext_tag <-> First*, ciphertext_tag <-> Last*), the expected-key function (first round key
                 key_schedule(key)[0] for the plaintext side, last round key [-1] for the ciphertext side, of the *same* cipher),
                 the compute function whose extracted term is the documented intermediate (AES: data xor guess, SBOX / INV_SBOX of
                 it, ShiftRows(data) xor INV_SBOX(data xor guess); DES: des.encrypt(data, all-guess 128-byte expanded key,
                 round 0, the step named by the class)), and passes words / guesses / tags through unchanged.  The decrypt
                 namespaces are exactly the First <-> Last mirror of the encrypt ones.
D2 layout        axis typing of every compute function: result (traces, guesses, words); the guess loop visits `guesses` in
                 order, stores guess i at row i and the body depends on the guess value only; SelectionFunction.__call__ applies
                 `words` on the last axis and nothing else; the wrapped class maps target_tag -> the compute function's data
                 parameter and key_tag -> the key function's parameter (names agree across the sites); guesses reach the function
                 unchanged.
Not decided: equality with encrypt()/decrypt() intermediate states for all keys (run-time values; the cipher itself is C05/C06).
"""
import ast

from .. import axes, astutil
from ..model import norm, AnalysisError, const_value

BASE = 'scared.selection_functions.base'
NS = {'aes': ('scared.aes.selection_functions.encrypt', 'scared.aes.selection_functions.decrypt', 'scared.aes.base'),
      'des': ('scared.des.selection_functions.encrypt', 'scared.des.selection_functions.decrypt', 'scared.des.base')}
FLOOR = {'aes': 5, 'des': 8}


def last(s):
    return (s or '').split('.')[-1]


# ----------------------------------------------------------------------------------------------------- term extraction
class Unknown(Exception):
    pass


class Terms:
    """elementwise value term of a compute function (layout is the axis typer's business).  Terms: 'data', 'guess',
    ('xor', frozenset), ('app', dotted callee, arg terms..., (kw, term)...), ('const', v), ('allbytes', n, term),
    ('perguess', term), ('step', name)"""

    def __init__(self, prog, mod, cipher_mod):
        self.prog = prog
        self.mod = mod
        self.cipher_mod = cipher_mod
        self.loops = []          # facts about guess loops: dict

    def func(self, f, bind, depth=0):
        if depth > 4:
            raise Unknown('call depth')
        env = dict(bind)
        ret = self.stmts(f.node.body, env, f, depth)
        if ret is None:
            raise Unknown(f'{f.name} returns nothing')
        return ret

    def stmts(self, body, env, f, depth):
        for st in body:
            if isinstance(st, ast.Expr) and isinstance(st.value, ast.Constant):
                continue
            if isinstance(st, ast.Assign) and len(st.targets) == 1 and isinstance(st.targets[0], ast.Name):
                env[st.targets[0].id] = self.ev(st.value, env, f, depth)
                continue
            if isinstance(st, ast.Assign) and len(st.targets) == 1 and isinstance(st.targets[0], ast.Subscript) and isinstance(st.targets[0].value, ast.Name) and whole(st.targets[0].slice):
                # `res[...] = v`: every row at once; a value built from the guesses vector by broadcasting holds, in the row of a
                # guess, the elementwise term with that guess
                v = self.ev(st.value, env, f, depth)
                env[st.targets[0].value.id] = ('perguess', subst_guess(v)) if mentions_guesses(v) else v
                continue
            if isinstance(st, ast.For):
                self.loop(st, env, f, depth)
                continue
            if isinstance(st, ast.If):
                # a fast path next to the general one: both arms must leave the same value terms behind
                outs = []
                for arm in (st.body, st.orelse):
                    e2 = dict(env)
                    r2 = self.stmts(arm, e2, f, depth)
                    outs.append((e2, r2))
                (ea, ra), (eb, rb) = outs
                names = {k for k in set(ea) | set(eb) if ea.get(k) != env.get(k) or eb.get(k) != env.get(k)}
                for k in names:
                    if lift(ea.get(k))[1] != lift(eb.get(k))[1] or lift(ea.get(k))[0] != lift(eb.get(k))[0]:
                        raise Unknown(f'the two arms of `if {norm(st.test)[:40]}` leave different values in `{k}`')
                    env[k] = ea.get(k)
                if (ra is None) != (rb is None) or (ra is not None and lift(ra) != lift(rb)):
                    raise Unknown(f'the two arms of `if {norm(st.test)[:40]}` return different values')
                if ra is not None:
                    return ra
                continue
            if isinstance(st, ast.Return):
                return self.ev(st.value, env, f, depth)
            raise Unknown(f'statement `{norm(st)[:50]}`')
        return None

    def loop(self, st, env, f, depth):
        it, t = st.iter, st.target
        body = st.body
        if isinstance(it, ast.Call) and norm(it.func) == 'enumerate' and len(it.args) == 1 and isinstance(t, ast.Tuple) and len(t.elts) == 2 \
                and all(isinstance(x, ast.Name) for x in t.elts):
            iv, gv = t.elts[0].id, t.elts[1].id
            src = it.args[0]
        elif isinstance(it, ast.Call) and norm(it.func) == 'range' and len(it.args) == 1 and isinstance(t, ast.Name) and (
                (isinstance(it.args[0], ast.Call) and norm(it.args[0].func) == 'len' and len(it.args[0].args) == 1) or
                (isinstance(it.args[0], ast.Subscript) and isinstance(it.args[0].value, ast.Attribute) and it.args[0].value.attr == 'shape' and const_value(it.args[0].slice) == 0)):
            # index loop: `for i in range(len(G))` with G[i] standing for the guess
            src = it.args[0].args[0] if isinstance(it.args[0], ast.Call) else it.args[0].value.value
            iv, gv = t.id, '__guess_of_index_loop'
            stxt = norm(src)
            import copy as _copy

            class _G(ast.NodeTransformer):
                def visit_Subscript(self, n):
                    if norm(n.value) == stxt and norm(n.slice) == iv and isinstance(n.ctx, ast.Load):
                        return ast.copy_location(ast.Name(id=gv, ctx=ast.Load()), n)
                    self.generic_visit(n)
                    return n
            body = [_G().visit(_copy.deepcopy(b)) for b in st.body]
        elif isinstance(t, ast.Name):
            # `for g in guesses:` filling a list by append (position = iteration order)
            iv, gv, src = None, t.id, it
        else:
            raise Unknown(f'loop `for {norm(t)} in {norm(it)[:40]}` is not `for i, g in enumerate(...)`')
        elem = 'guess'
        gen = None
        if isinstance(src, ast.Call) and isinstance(src.func, (ast.Name, ast.Attribute)):
            r_ = self.prog.resolve(f.mod, src.func)
            if r_ and r_[0] == 'func' and r_[1].mod.name == self.mod and any(isinstance(n_, ast.Yield) for n_ in ast.walk(r_[1].node)):
                gen = r_[1]
        if gen is not None:
            # a generator of the module producing one item per guess: `for g in <its parameter>: yield expr(g)`
            gl = [n_ for n_ in gen.node.body if isinstance(n_, ast.For)]
            ys = [n_ for n_ in ast.walk(gen.node) if isinstance(n_, ast.Yield)]
            if len(gl) != 1 or len(ys) != 1 or len(src.args) != 1 or src.keywords or len(gen.params) != 1 or norm(gl[0].iter) != gen.params[0] or not isinstance(gl[0].target, ast.Name) \
                    or ys[0].value is None or not any(ys[0] is y_ for s_ in gl[0].body for y_ in ast.walk(s_)):
                raise Unknown(f'generator {gen.name} is not `for g in guesses: yield f(g)`')
            genv = {gen.params[0]: self.ev(src.args[0], env, f, depth)}
            for s_ in gen.node.body:
                if isinstance(s_, ast.Assign) and len(s_.targets) == 1 and isinstance(s_.targets[0], ast.Name):
                    genv[s_.targets[0].id] = self.ev(s_.value, genv, gen, depth + 1)
            genv[gl[0].target.id] = 'guess'
            for s_ in gl[0].body:
                if isinstance(s_, ast.Assign) and len(s_.targets) == 1 and isinstance(s_.targets[0], ast.Name):
                    genv[s_.targets[0].id] = self.ev(s_.value, genv, gen, depth + 1)
            elem = self.ev(ys[0].value, genv, gen, depth + 1)
            src = src.args[0]
        fact = {'func': f, 'node': st, 'iter_order': self.order_kind(src, env, f, depth), 'iter_text': norm(src)}
        if gen is None and fact['iter_order'] == 'unknown' and isinstance(src, ast.Call):
            raise Unknown(f'what the loop over `{norm(src)[:40]}` yields per guess is not derivable')
        lenv = dict(env)
        lenv[gv] = elem
        if iv is not None:
            lenv[iv] = ('index',)
        target = None
        for b in body:
            if isinstance(b, ast.Expr) and isinstance(b.value, ast.Constant):
                continue
            if isinstance(b, ast.Assign) and len(b.targets) == 1 and isinstance(b.targets[0], ast.Name):
                lenv[b.targets[0].id] = self.ev(b.value, lenv, f, depth)
                continue
            if isinstance(b, ast.Assign) and len(b.targets) == 1 and isinstance(b.targets[0], ast.Subscript) and isinstance(b.targets[0].value, ast.Name):
                if target is not None:
                    raise Unknown('two stores in the guess loop')
                sub = b.targets[0]
                target = sub.value.id
                fact['store_index_is_i'] = norm(sub.slice) == iv
                fact['store_text'] = norm(sub)
                val = self.ev(b.value, lenv, f, depth)
                fact['index_in_value'] = contains_index(val)
                env[target] = ('perguess', val)
                continue
            if isinstance(b, ast.Expr) and isinstance(b.value, ast.Call) and isinstance(b.value.func, ast.Attribute) and b.value.func.attr == 'append' \
                    and isinstance(b.value.func.value, ast.Name) and env.get(b.value.func.value.id) == ('emptylist',) and len(b.value.args) == 1 and not b.value.keywords:
                if target is not None:
                    raise Unknown('two stores in the guess loop')
                target = b.value.func.value.id
                fact['store_index_is_i'] = True          # append: position in the list = iteration order
                fact['store_text'] = norm(b.value)
                val = self.ev(b.value.args[0], lenv, f, depth)
                fact['index_in_value'] = contains_index(val)
                env[target] = ('perguess', val)
                continue
            raise Unknown(f'loop statement `{norm(b)[:50]}`')
        if target is None:
            raise Unknown('guess loop stores nothing')
        self.loops.append(fact)

    SAME = {'list', 'tuple', 'iter', 'asarray', 'array', 'tolist', 'copy', 'astype', 'ravel', 'flatten'}
    CHANGED = {'sorted', 'reversed', 'sort', 'unique', 'flip', 'flipud', 'set', 'frozenset', 'roll', 'permutation', 'shuffle', 'argsort'}

    def order_kind(self, e, env, f, depth):
        """'same' when e yields the elements of the guesses parameter in their order, 'changed' when it definitely reorders,
        drops or repeats them, else 'unknown'"""
        if isinstance(e, ast.Name):
            try:
                return 'same' if self.ev(e, env, f, depth) == 'guesses' else 'unknown'
            except Unknown:
                return 'unknown'
        if isinstance(e, ast.Call):
            name = last(norm(e.func))
            inner = e.func.value if isinstance(e.func, ast.Attribute) and not e.args else (e.args[0] if e.args else None)
            if inner is None:
                return 'unknown'
            k = self.order_kind(inner, env, f, depth)
            if k == 'unknown':
                return 'unknown'
            if name in self.SAME and len(e.args) <= 1:
                return k
            if name in self.CHANGED:
                return 'changed'
            return 'unknown'
        if isinstance(e, ast.Subscript):
            k = self.order_kind(e.value, env, f, depth)
            if k == 'unknown':
                return 'unknown'
            sl = e.slice
            if isinstance(sl, ast.Slice) and sl.lower is None and sl.upper is None and (sl.step is None or const_value(sl.step) == 1):
                return k
            return 'changed'
        return 'unknown'

    def ev(self, e, env, f, depth):
        if isinstance(e, ast.Constant):
            return ('const', e.value)
        if isinstance(e, ast.List) and not e.elts:
            return ('emptylist',)
        if isinstance(e, ast.Name):
            if e.id in env:
                return env[e.id]
            raise Unknown(f'name {e.id}')
        if isinstance(e, ast.UnaryOp) and isinstance(e.op, ast.USub) and isinstance(e.operand, ast.Constant):
            return ('const', -e.operand.value)
        if isinstance(e, ast.BinOp) and isinstance(e.op, ast.BitXor):
            return xor(self.ev(e.left, env, f, depth), self.ev(e.right, env, f, depth))
        if isinstance(e, ast.Attribute):
            d = self.prog.dotted(f.mod, e)
            if d is None and isinstance(e.value, ast.Attribute):
                # Enum member: des.Steps.SBOXES
                r = self.prog.resolve(f.mod, e.value)
                if r and r[0] == 'class':
                    return ('step', r[1].name + '.' + e.attr)
            raise Unknown(f'attribute {norm(e)[:40]}')
        if isinstance(e, ast.Subscript):
            sl = e.slice.elts if isinstance(e.slice, ast.Tuple) else [e.slice]
            if all((isinstance(x, ast.Constant) and x.value in (None, Ellipsis)) or (isinstance(x, ast.Slice) and x.lower is None and x.upper is None and x.step is None)
                   or (isinstance(x, ast.Attribute) and x.attr == 'newaxis') for x in sl):
                return self.ev(e.value, env, f, depth)        # x[None], x[:, None], x[...]: added unit axes, the elementwise term is unchanged
            raise Unknown(f'subscript {norm(e)[:40]}')
        if isinstance(e, ast.Call):
            fn = e.func
            d = self.prog.dotted(f.mod, fn) if isinstance(fn, (ast.Name, ast.Attribute)) else None
            name = last(d or norm(fn))
            if d and d.startswith('numpy'):
                if name in ('empty', 'empty_like'):
                    return ('empty',)
                args = [self.ev(a, env, f, depth) for a in e.args]
                if name == 'bitwise_xor' and len(args) == 2:
                    return xor(args[0], args[1])
                if name in ('zeros',) and args and args[0][0] == 'const':
                    return ('allbytes', args[0][1], ('const', 0))
                if name == 'full' and len(args) >= 2 and args[0][0] == 'const':
                    return ('allbytes', args[0][1], args[1])
                if name in ('empty',):
                    return ('empty',)
                if name in ('asarray', 'ascontiguousarray', 'copy', 'array') and len(args) == 1:
                    return args[0]
                if name in ('swapaxes', 'moveaxis', 'transpose') and args:
                    return args[0]          # layout only: the value term is unchanged (the layout is C07-D2's)
                if name == 'stack' and args and isinstance(args[0], tuple) and args[0] and args[0][0] == 'perguess':
                    return args[0]          # the list of per-guess values as one array: layout only (C07-D2)
                raise Unknown(f'numpy.{name}')
            if isinstance(fn, ast.Attribute) and d is None:
                # array method on a term
                base = self.ev(fn.value, env, f, depth)
                if fn.attr in ('swapaxes', 'astype', 'copy', 'reshape', 'transpose'):
                    return base
                raise Unknown(f'method .{fn.attr}')
            if isinstance(fn, ast.Name) and fn.id == 'len':
                return ('len', self.ev(e.args[0], env, f, depth))
            r = self.prog.resolve(f.mod, fn) if isinstance(fn, (ast.Name, ast.Attribute)) else None
            if r and r[0] == 'func':
                callee = r[1]
                if callee.mod.name == self.mod:
                    bind = {}
                    ps = callee.params
                    for i, a in enumerate(e.args):
                        bind[ps[i]] = self.ev(a, env, f, depth)
                    for k in e.keywords:
                        bind[k.arg] = self.ev(k.value, env, f, depth)
                    if set(bind) != set(ps):
                        raise Unknown(f'call of {callee.name} does not bind all parameters')
                    return self.func(callee, bind, depth + 1)
                args = tuple(self.ev(a, env, f, depth) for a in e.args)
                kws = tuple(sorted((k.arg, self.ev(k.value, env, f, depth)) for k in e.keywords))
                return ('app', callee.mod.name + '.' + callee.qualname, args, kws)
            raise Unknown(f'call {norm(fn)[:40]}')
        raise Unknown(f'expression {norm(e)[:40]}')


def whole(sl):
    xs = sl.elts if isinstance(sl, ast.Tuple) else [sl]
    return all((isinstance(x, ast.Constant) and x.value is Ellipsis) or (isinstance(x, ast.Slice) and x.lower is None and x.upper is None and x.step is None) for x in xs)


def mentions_guesses(t):
    if t == 'guesses':
        return True
    if isinstance(t, (tuple, frozenset)):
        return any(mentions_guesses(x) for x in t)
    return False


def subst_guess(t):
    if t == 'guesses':
        return 'guess'
    if isinstance(t, frozenset):
        return frozenset(subst_guess(x) for x in t)
    if isinstance(t, tuple):
        return tuple(subst_guess(x) for x in t)
    return t


def xor(a, b):
    parts = []
    for t in (a, b):
        if isinstance(t, tuple) and t[0] == 'xor':
            parts.extend(t[1])
        else:
            parts.append(t)
    # xor with an all-zero vector is the identity on the other operand, broadcast to the vector's length
    zeros = [p for p in parts if isinstance(p, tuple) and p[0] == 'allbytes' and p[2] == ('const', 0)]
    if len(zeros) == 1 and len(parts) == 2:
        other = [p for p in parts if p is not zeros[0]][0]
        return ('allbytes', zeros[0][1], other)
    return ('xor', frozenset(parts))


def lift(t):
    """move the per-guess stacking outward through operations that act on the trailing (word) axis only: elementwise xor with
    broadcasting, and one-argument cipher primitives (table lookups / gathers on the last axis, as C05-D2 decides them)"""
    if isinstance(t, tuple) and t and t[0] == 'perguess':
        return True, lift(t[1])[1]
    if isinstance(t, tuple) and t and t[0] == 'xor':
        parts = [lift(x) for x in t[1]]
        return any(p[0] for p in parts), xor_all([p[1] for p in parts])
    if isinstance(t, tuple) and t and t[0] == 'app' and len(t[2]) == 1 and not t[3]:
        h, inner = lift(t[2][0])
        return h, ('app', t[1], (inner,), ())
    return False, t


def xor_all(parts):
    out = parts[0]
    for p in parts[1:]:
        out = xor(out, p)
    return out


def normal(t):
    h, inner = lift(t)
    return ('perguess', inner) if h else inner


def contains_index(t):
    if t == ('index',):
        return True
    if isinstance(t, (tuple, frozenset)):
        return any(contains_index(x) for x in t)
    return False


def show(t):
    if isinstance(t, str):
        return t
    if t[0] == 'xor':
        return ' xor '.join(sorted(show(x) for x in t[1]))
    if t[0] == 'app':
        a = [show(x) for x in t[2]] + [f'{k}={show(v)}' for k, v in t[3]]
        return f'{last(t[1])}({", ".join(a)})'
    if t[0] == 'perguess':
        return f'[{show(t[1])} for guess in guesses]'
    if t[0] == 'allbytes':
        return f'{t[1]} bytes all equal to {show(t[2])}'
    if t[0] in ('const', 'step'):
        return str(t[1])
    return str(t)


# ----------------------------------------------------------------------------------------------------- expectations
def expected_terms(cipher, cmod):
    ark = ('xor', frozenset(['data', 'guess']))
    if cipher == 'aes':
        def app(fn, x):
            return ('app', f'{cmod}.{fn}', (x,), ())
        return {
            'AddRoundKey': {'First': ark, 'Last': ark},
            'SubBytes': {'First': app('sub_bytes', ark), 'Last': app('inv_sub_bytes', ark)},
            'DeltaR': {'Last': ('xor', frozenset([app('shift_rows', 'data'), app('inv_sub_bytes', ark)]))},
        }

    def enc(step):
        return ('app', f'{cmod}.encrypt', ('data', ('allbytes', 128, 'guess')), (('after_step', ('step', 'Steps.' + step)), ('at_round', ('const', 0))))
    return {
        'AddRoundKey': {s: enc('ADD_ROUND_KEY') for s in ('First', 'Last')},
        'Sboxes': {s: enc('SBOXES') for s in ('First', 'Last')},
        'FeistelR': {s: enc('INV_PERMUTATION_P_RIGHT') for s in ('First', 'Last')},
        'DeltaR': {s: enc('INV_PERMUTATION_P_DELTA_RIGHT') for s in ('First', 'Last')},
    }


def canon_app(prog, t):
    """normalise ('app', ...) terms: positional args of cipher calls are bound to parameter names where known"""
    if isinstance(t, tuple) and t and t[0] == 'app':
        f = prog.by_key.get(t[1].rsplit('.', 1)[0] + ':' + t[1].rsplit('.', 1)[1])
        args = tuple(canon_app(prog, a) for a in t[2])
        kws = dict((k, canon_app(prog, v)) for k, v in t[3])
        if f is not None and last(t[1]) in ('encrypt', 'decrypt'):
            ps = f.params
            for i, a in enumerate(args):
                if i < len(ps):
                    kws[ps[i]] = a
            if len(args) <= len(ps) and all(p_ in kws for p_ in ps[:2]):
                args = tuple(kws.pop(p_) for p_ in ps[:2])
        return ('app', t[1], args, tuple(sorted(kws.items())))
    if isinstance(t, tuple) and t and t[0] == 'xor':
        return ('xor', frozenset(canon_app(prog, x) for x in t[1]))
    if isinstance(t, tuple) and t and t[0] in ('perguess', 'allbytes'):
        return t[:-1] + (canon_app(prog, t[-1]),)
    return t


def split_name(name):
    """'FirstSubBytes' -> ('SubBytes', 'First'); 'DeltaRLastRounds' -> ('DeltaR', 'Last')"""
    for side in ('First', 'Last'):
        if name.startswith(side):
            return name[len(side):], side
    for side in ('First', 'Last'):
        if side in name:
            i = name.index(side)
            return name[:i], side
    return name, None


# ----------------------------------------------------------------------------------------------------- D1
def registry(ctx, prog, cipher):
    enc_mod, dec_mod, cmod = NS[cipher]
    m = prog.need_mod(enc_mod)
    out = {}
    for cname in sorted(m.classes):
        ci = prog.need_class(enc_mod, cname)
        new = ci.methods.get('__new__')
        if new is None:
            continue
        from .. import inline
        new = inline.inlined(prog, new)
        rets = [r for r in ast.walk(new.node) if isinstance(r, ast.Return) and isinstance(r.value, ast.Call)]
        if len(rets) != 1:
            ctx.undecided('C07-D1', f'{ci.key}::__new__', '__new__ does not consist of one factory call', new.where())
            continue
        call = rets[0].value
        d = prog.dotted(new.mod, call.func)
        if last(d) != '_decorated_selection_function':
            ctx.undecided('C07-D1', f'{ci.key}::__new__', f'factory `{norm(call.func)}` not recognised', new.where())
            continue
        out[cname] = (ci, new, call)
    ctx.floor(f'C07 ready-made {cipher.upper()} selection-function classes', len(out), FLOOR[cipher])
    exp = expected_terms(cipher, cmod)
    tcache = {}
    facts = {}
    for cname, (ci, new, call) in out.items():
        key = f'{ci.key}'
        where = new.where()
        kws = {k.arg: k.value for k in call.keywords}
        pos = list(call.args)
        klass = pos[0] if pos else kws.get('klass')
        compute = pos[1] if len(pos) > 1 else kws.get('function')
        ctx.check(klass is not None and last(prog.dotted(new.mod, klass)) == '_AttackSelectionFunctionWrapped', 'C07-D1', f'{key}::wrapper class',
                  f'built with `{norm(klass) if klass is not None else "?"}`, not the tag-mapping attack wrapper', 'built as _AttackSelectionFunctionWrapped', where)
        kind, side = split_name(cname)
        tag_params = [p for p in new.params if p in ('plaintext_tag', 'ciphertext_tag')]
        if len(tag_params) != 1 or side is None:
            ctx.undecided('C07-D1', f'{key}::side', f'cannot tell the metadata side of {cname} (tag parameters {tag_params})', where)
            continue
        tagp = tag_params[0]
        want_tag = 'plaintext_tag' if side == 'First' else 'ciphertext_tag'
        ctx.check(tagp == want_tag, 'C07-D1', f'{key}::side', f'{cname} ({side} round of encryption) takes `{tagp}`: the {side.lower()} round is reached from the '
                  f'{"plaintext" if side == "First" else "ciphertext"}', f'{side} round <-> {tagp}', where)
        # defaults of the tag parameters
        a = new.node.args
        names = [x.arg for x in a.args]
        defaults = dict(zip(names[len(names) - len(a.defaults):], a.defaults))
        dv = const_value(defaults.get(tagp)) if tagp in defaults else None
        ctx.check(dv == tagp[:-4], 'C07-D1', f'{key}::default tag', f'default of `{tagp}` is {dv!r}: the {tagp[:-4]} metadata is not what is read by default', f'default {tagp} = {dv!r}', where)
        # pass-through of the configuration
        for kwname, want in (('target_tag', tagp), ('key_tag', 'key_tag'), ('words', 'words'), ('guesses', 'guesses')):
            got = kws.get(kwname)
            ctx.check(got is not None and norm(got) == want, 'C07-D1', f'{key}::{kwname}', f'`{kwname}={norm(got) if got is not None else "<missing>"}`: the caller\'s `{want}` is not what configures the selection function',
                      f'{kwname} = {want}', where)
        # expected key function
        ek = kws.get('expected_key_function')
        r = prog.resolve(new.mod, ek) if isinstance(ek, (ast.Name, ast.Attribute)) else None
        if not r or r[0] != 'func':
            ctx.undecided('C07-D1', f'{key}::expected key', f'expected key function `{norm(ek) if ek is not None else None}` not resolved', where)
        else:
            kf = r[1]
            idx = key_round(prog, kf, cmod)
            if idx is None:
                ctx.undecided('C07-D1', f'{key}::expected key', f'{kf.name} is not `key_schedule(key)[k]` of {cmod}', kf.where())
            elif isinstance(idx, tuple):
                ctx.fail('C07-D1', f'{key}::expected key', f'{kf.name} schedules `{idx[1][:60]}`, a selected part of the key metadata, not the key as given: with one key per trace the expected key '
                         'of the other traces is never computed (the true key the scores are ranked against is the first trace\'s only)', kf.where())
            else:
                want_idx = 0 if tagp == 'plaintext_tag' else -1
                if cipher == 'des' and idx == 15:
                    idx = -1        # DES always has 16 rounds
                ctx.check(idx == want_idx, 'C07-D1', f'{key}::expected key', f'{cname} reads the {tagp[:-4]} but its expected key is round key [{idx}] of the schedule; the key word acting '
                          f'on that side is round key [{want_idx}]' + (' (a fixed positive index is the last round key for one key size only)' if want_idx == -1 and idx > 0 else ''), f'{tagp[:-4]} side <-> round key [{idx}] ({kf.name})', where, key_function=kf.name)
            facts.setdefault('keyfuncs', {})[kf.key] = kf
        # compute function term
        r = prog.resolve(new.mod, compute) if isinstance(compute, (ast.Name, ast.Attribute)) else None
        if not r or r[0] != 'func':
            ctx.undecided('C07-D1', f'{key}::compute', 'compute function not resolved', where)
            continue
        cf = r[1]
        facts.setdefault('computes', {})[cf.key] = cf
        if cf.key not in tcache:
            tx = Terms(prog, enc_mod, cmod)
            try:
                tcache[cf.key] = (normal(canon_app(prog, tx.func(cf, {p: p for p in cf.params}))), tx.loops, None)
            except Unknown as e:
                tcache[cf.key] = (None, tx.loops, str(e))
        term, loops, err = tcache[cf.key]
        if term is None:
            ctx.undecided('C07-D1', f'{key}::compute', f'value term of {cf.name} not extractable: {err}', cf.where())
            continue
        want = exp.get(kind, {}).get(side)
        if want is None:
            ctx.undecided('C07-D1', f'{key}::compute', f'no documented intermediate for class name {cname}', where)
            continue
        want = ('perguess', want)
        ctx.check(term == want, 'C07-D1', f'{key}::compute', f'{cname} computes {show(term)}; the intermediate it is documented to predict is {show(want)}',
                  f'{cname} = {show(term)}', cf.where(), compute=cf.name)
    # decrypt namespace: First <-> Last mirror of the encrypt one
    dm = prog.need_mod(dec_mod)
    n_alias = 0
    for name, v in sorted(dm.assigns.items()):
        r = prog.resolve(dm, v)
        if not (r and r[0] == 'class' and r[1].mod.name == enc_mod):
            continue
        n_alias += 1
        kind, side = split_name(name)
        mirror = name.replace(side, 'Last' if side == 'First' else 'First') if side else None
        ctx.check(mirror == r[1].name, 'C07-D1', f'{dec_mod}::{name}', f'decrypt.{name} is encrypt.{r[1].name}; decryption\'s {side} round is encryption\'s '
                  f'{"Last" if side == "First" else "First"} round, i.e. encrypt.{mirror}', f'decrypt.{name} = encrypt.{r[1].name}', dm.relpath)
    ctx.floor(f'C07 decrypt aliases ({cipher})', n_alias, FLOOR[cipher])
    missing = sorted(c for c in out if not any(prog.resolve(dm, v) and prog.resolve(dm, v)[0] == 'class' and prog.resolve(dm, v)[1].name == c for v in dm.assigns.values()))
    ctx.check(not missing, 'C07-D1', f'{dec_mod}::coverage', f'encrypt classes {missing} have no decrypt counterpart', 'every encrypt class is the mirror of one decrypt name', dm.relpath)
    return out, facts, tcache


def key_round(prog, kf, cmod):
    """k if kf(key) evaluates (configuration partial evaluation, schedule opaque) to <cmod>.key_schedule(key)[k]"""
    from .. import confinterp as cf
    ks = prog.func(cmod, 'key_schedule')
    if ks is None or len(kf.params) != 1:
        return None
    it = cf.Interp(prog)
    it.opaque_funcs = {ks.key}
    try:
        r = it.call(kf, kwargs={kf.params[0]: cf.Sym('key')})
    except (cf.Unknown, cf.Raised):
        return None
    if not (isinstance(r, cf.Sym) and r.term and r.term[0] == 'index'):
        return None
    base, k = r.term[1], r.term[2]
    if not (isinstance(base, cf.Sym) and base.term and base.term[0] == 'call' and base.term[1] == ks.name):
        return None
    args = list(base.term[2]) + [v for _, v in base.term[3]]
    if len(args) == 1 and isinstance(args[0], cf.Sym) and args[0].name != 'key' and args[0].term and args[0].term[0] == 'index' and args[0].name.startswith('key'):
        return ('partial', args[0].name)          # the schedule of a selected part of the key metadata
    if len(args) != 1 or not (isinstance(args[0], cf.Sym) and args[0].name == 'key'):
        return None
    if not isinstance(k, int) or isinstance(k, bool):
        return None
    return int(k)


# ----------------------------------------------------------------------------------------------------- D2
def squeezing_functions(prog, modnames):
    """keys of the functions / methods of the cipher modules whose result is `<array>.squeeze()` (no axis): directly, or by
    returning the call of such a function (methods are matched by name inside the module)"""
    funcs = [f for m in modnames for f in prog.funcs_in(m)]
    out = set()
    changed = True
    while changed:
        changed = False
        for f in funcs:
            if f.key in out:
                continue
            for r in ast.walk(f.node):
                if not (isinstance(r, ast.Return) and isinstance(r.value, ast.Call)):
                    continue
                c = r.value
                hit = False
                if isinstance(c.func, ast.Attribute) and c.func.attr == 'squeeze' and not c.args and not c.keywords:
                    hit = True
                elif isinstance(c.func, (ast.Name, ast.Attribute)):
                    rr = prog.resolve(f.mod, c.func)
                    if rr and rr[0] == 'func' and rr[1].key in out:
                        hit = True
                    elif isinstance(c.func, ast.Attribute) and any(g.key in out and g.name == c.func.attr and g.cls is not None and g.mod is f.mod for g in funcs):
                        hit = True
                if hit:
                    out.add(f.key)
                    changed = True
                    break
    return out


def d2(ctx, prog, regs):
    counter = [0]
    squeezers = squeezing_functions(prog, [f'scared.{c}.base' for c in regs])
    ctx.unit('squeezing cipher entry points', len(squeezers))
    sink = axes.make_sink(ctx, 'C07-D2', counter)
    names = {'data': set(), 'key': set()}
    n_loops = 0
    for cipher, (out, facts, tcache) in regs.items():
        for key, cf in sorted(facts.get('computes', {}).items()):
            ty = axes.Typer(prog, None, 'C07-D2', sink, {})
            ty.squeezers = squeezers
            ps = cf.params
            ctx.check(len(ps) == 2 and ps[1] == 'guesses', 'C07-D2', f'{cf.key}::parameters', f'compute function takes {ps}: the attack wrapper binds the guess array by the name `guesses`',
                      f'parameters {ps}', cf.where())
            names['data'].add(ps[0])
            env = {ps[0]: axes.Arr(('N', 'W'))}
            if len(ps) > 1:
                env[ps[1]] = axes.Arr(('G',))
            before = counter[0]
            r = ty.run(cf, env, expected_return=('N', 'G', 'W'))
            if not (isinstance(r, axes.Arr) and all(axes.known(l) for l in r.labels)):
                ctx.undecided('C07-D2', f'{cf.key}::layout', f'result layout of {cf.name} not derivable ({r})', cf.where())
            term, loops, err = tcache.get(key, (None, [], 'not extracted'))
            for lf in loops:
                n_loops += 1
                f, st = lf['func'], lf['node']
                k = f'{f.key}::guess loop'
                if lf['iter_order'] == 'unknown':
                    ctx.undecided('C07-D2', f'{k} order', f'cannot tell whether `{lf["iter_text"]}` yields the guesses in their order', f.where(st))
                else:
                    ctx.check(lf['iter_order'] == 'same', 'C07-D2', f'{k} order', f'the loop iterates `{lf["iter_text"]}`, which reorders / drops guesses: column i is not guess i',
                              'iterates enumerate(guesses): column order = guess order', f.where(st))
                ctx.check(lf.get('store_index_is_i', False), 'C07-D2', f'{k} store', f'guess i is stored at `{lf.get("store_text")}`', 'guess i is stored at row i', f.where(st))
                ctx.check(not lf.get('index_in_value'), 'C07-D2', f'{k} independence', 'the value computed for a guess depends on its position in the guesses array',
                          'the value of a column depends on the guess value only', f.where(st))
        for key, kf in sorted(facts.get('keyfuncs', {}).items()):
            names['key'].update(kf.params[:1])
            ctx.check(len(kf.params) == 1, 'C07-D2', f'{kf.key}::parameters', f'expected-key function takes {kf.params}', f'parameters {kf.params}', kf.where())
    ctx.floor('C07 guess loops', n_loops, 2)
    ctx.unit('layout_obligations', counter[0])
    # the wrapped class: tag -> name mapping, names agree with the functions' parameters
    w = prog.need_class(BASE, '_AttackSelectionFunctionWrapped')
    init = w.methods.get('__init__')
    if init is None:
        raise AnalysisError('_AttackSelectionFunctionWrapped.__init__ not found')
    a = init.node.args
    pn = [x.arg for x in a.args]
    defaults = dict(zip(pn[len(pn) - len(a.defaults):], a.defaults))
    for attr in ('target_tag', 'target_name', 'key_name', 'key_tag'):
        st = [s for s in ast.walk(init.node) if isinstance(s, ast.Assign) and norm(s.targets[0]) == f'self.{attr}']
        ctx.check(len(st) == 1 and norm(st[0].value) == attr, 'C07-D2', f'{init.key}::self.{attr}', f'self.{attr} is not the `{attr}` argument', f'self.{attr} = {attr}', init.where())
    tn, kn = const_value(defaults.get('target_name')), const_value(defaults.get('key_name'))
    ctx.check(names['data'] == {tn}, 'C07-D2', f'{init.key}::target_name', f'the wrapper hands the tagged metadata over as `{tn}` but the compute functions take {sorted(names["data"])}',
              f'target_name default `{tn}` = first parameter of every compute function', init.where())
    ctx.check(names['key'] == {kn}, 'C07-D2', f'{init.key}::key_name', f'the wrapper hands the key over as `{kn}` but the expected-key functions take {sorted(names["key"])}',
              f'key_name default `{kn}` = parameter of every expected-key function', init.where())
    sup = [c for c in ast.walk(init.node) if isinstance(c, ast.Call) and norm(c.func) == 'super().__init__']
    if len(sup) == 1:
        kws = {k.arg: norm(k.value) for k in sup[0].keywords}
        ctx.check(all(kws.get(x) == x for x in ('function', 'words', 'guesses', 'expected_key_function')) and not sup[0].args, 'C07-D2', f'{init.key}::super().__init__',
                  f'`{norm(sup[0])[:90]}` does not pass function / words / guesses / expected_key_function on unchanged', 'configuration passed on unchanged', init.where(sup[0]))
    else:
        ctx.undecided('C07-D2', f'{init.key}::super().__init__', 'super().__init__ call not found', init.where())
    for meth, name_attr, tag_attr in (('__call__', 'target_name', 'target_tag'), ('compute_expected_key', 'key_name', 'key_tag')):
        f = w.methods.get(meth)
        if f is None:
            ctx.undecided('C07-D2', f'{w.key}.{meth}', 'method not found', w.mod.relpath)
            continue
        kwp = f.node.args.kwarg.arg if f.node.args.kwarg else None
        body = [s for s in f.node.body if not (isinstance(s, ast.Expr) and isinstance(s.value, ast.Constant))]
        want_store = f'{kwp}[self.{name_attr}] = {kwp}[self.{tag_attr}]'
        ok = len(body) == 2 and norm(body[0]) == want_store and isinstance(body[1], ast.Return) and norm(body[1].value) == f'super().{meth}(**{kwp})'
        if ok:
            ctx.ok('C07-D2', f'{f.key}::mapping', f'{want_store}; then the parent method with the same metadata', f.where())
        else:
            stores = [s for s in body if isinstance(s, ast.Assign) and isinstance(s.targets[0], ast.Subscript) and norm(s.targets[0].value) == kwp]
            if len(stores) == 1 and norm(stores[0].value).startswith(f'{kwp}[') and norm(stores[0]) != want_store:
                ctx.fail('C07-D2', f'{f.key}::mapping', f'`{norm(stores[0])}`: the metadata tagged {tag_attr} is not what reaches the parameter named {name_attr}', f.where(stores[0]))
            elif not stores and any(isinstance(s, ast.If) and isinstance(s.test, ast.Compare) and len(s.test.ops) == 1 and isinstance(s.test.ops[0], ast.NotIn) and norm(s.test.left) == f'self.{name_attr}'
                                    and norm(s.test.comparators[0]) == kwp and any(norm(x) == want_store for x in s.body) for s in body):
                g_ = [s for s in body if isinstance(s, ast.If)][0]
                ctx.fail('C07-D2', f'{f.key}::mapping', f'`if {norm(g_.test)}: {want_store}`: a metadata field that is itself called like the parameter ({name_attr}) is kept, so the value tagged {tag_attr} '
                         'does not reach the function whenever the metadata hold both', f.where(g_))
            elif any(isinstance(s, ast.Expr) and isinstance(s.value, ast.Call) and norm(s.value.func) == f'{kwp}.setdefault' and len(s.value.args) == 2
                     and norm(s.value.args[0]) == f'self.{name_attr}' for s in body) and not stores:
                sd = [s for s in body if isinstance(s, ast.Expr) and isinstance(s.value, ast.Call) and norm(s.value.func) == f'{kwp}.setdefault'][0]
                ctx.fail('C07-D2', f'{f.key}::mapping', f'`{norm(sd)[:80]}`: setdefault keeps a metadata field that is itself called like the parameter ({name_attr}), so the value tagged {tag_attr} '
                         'does not reach the function whenever the metadata hold both', f.where(sd))
            else:
                # functional form: super().meth(**{..., self.name: kwargs[self.tag], ...}) - in a dict display the LAST entry wins
                sup = [c for c in ast.walk(f.node) if isinstance(c, ast.Call) and norm(c.func) == f'super().{meth}' and not c.args and len(c.keywords) == 1 and c.keywords[0].arg is None
                       and isinstance(c.keywords[0].value, ast.Dict)]
                if len(sup) == 1 and not stores:
                    dct = sup[0].keywords[0].value
                    entries = list(zip(dct.keys, dct.values))
                    pos_name = [i for i, (k_, v_) in enumerate(entries) if k_ is not None and norm(k_) == f'self.{name_attr}']
                    pos_unpack = [i for i, (k_, v_) in enumerate(entries) if k_ is None and norm(v_) == kwp]
                    if len(pos_name) == 1 and len(pos_unpack) == 1 and len(entries) == 2:
                        val = norm(entries[pos_name[0]][1])
                        if val != f'{kwp}[self.{tag_attr}]':
                            ctx.fail('C07-D2', f'{f.key}::mapping', f'the parameter named {name_attr} receives `{val}`, not the metadata tagged {tag_attr}', f.where(sup[0]))
                        else:
                            ctx.check(pos_name[0] > pos_unpack[0], 'C07-D2', f'{f.key}::mapping', f'`{norm(dct)[:80]}`: the metadata are unpacked after the tagged entry, so a metadata field that is itself '
                                      f'called like the parameter ({name_attr}) overrides the tagged value', f'{{**{kwp}, {name_attr}: {kwp}[{tag_attr}]}}: the tagged value wins', f.where(sup[0]))
                    else:
                        ctx.undecided('C07-D2', f'{f.key}::mapping', 'tag mapping shape not recognised', f.where())
                else:
                    ctx.undecided('C07-D2', f'{f.key}::mapping', 'tag mapping shape not recognised', f.where())
    # guesses reach the function unchanged
    asf = prog.need_class(BASE, '_AttackSelectionFunction')
    init = asf.methods.get('__init__')
    stores = [s for s in ast.walk(init.node) if isinstance(s, ast.Assign) and norm(s.targets[0]) == "self._base_kwargs['guesses']"]
    rebinds = [s for s in ast.walk(init.node) if isinstance(s, ast.Assign) and norm(s.targets[0]) == 'guesses']
    pm = astutil.parents(init.node)
    ok_rebind = all(norm(g[0]) == 'isinstance(guesses, range)' for s in rebinds for g in astutil.guards(s, pm, init.node)) and all(
        isinstance(s.value, ast.Call) and last(norm(s.value.func)) == 'array' and norm(s.value.args[0]) == 'guesses' and astutil.guards(s, pm, init.node) for s in rebinds)
    ctx.check(len(stores) == 1 and norm(stores[0].value) == 'guesses' and ok_rebind, 'C07-D2', f'{init.key}::guesses', 'the guesses handed to the compute function are not the caller\'s guesses '
              '(only a range may be converted to an array)', "_base_kwargs['guesses'] = guesses (range converted to array only)", init.where())
    st = [s for s in ast.walk(init.node) if isinstance(s, ast.Assign) and norm(s.targets[0]) == 'self.expected_key_function']
    ctx.check(len(st) == 1 and norm(st[0].value) == 'expected_key_function', 'C07-D2', f'{init.key}::expected_key_function', 'self.expected_key_function is not the argument', 'self.expected_key_function = expected_key_function', init.where())
    from .. import normalize as _nz0
    ek = _nz0.normal(prog, asf.methods.get('compute_expected_key'))
    rets = [r for r in ast.walk(ek.node) if isinstance(r, ast.Return) and r.value is not None and not (isinstance(r.value, ast.Constant) and r.value.value is None)]
    ctx.check(len(rets) == 1 and isinstance(rets[0].value, ast.Call) and norm(rets[0].value.func) == 'self.expected_key_function', 'C07-D2', f'{ek.key}::result',
              'compute_expected_key does not return the expected-key function\'s result', 'returns expected_key_function(**selected metadata)', ek.where())
    binds = [s for s in ast.walk(ek.node) if isinstance(s, ast.Assign) and isinstance(s.targets[0], ast.Subscript) and isinstance(s.value, ast.Subscript)]
    dcomps = [d for d in ast.walk(ek.node) if isinstance(d, ast.DictComp) and isinstance(d.value, ast.Subscript) and len(d.generators) == 1 and not d.generators[0].ifs]
    same_name = (len(binds) == 1 and not dcomps and norm(binds[0].targets[0].slice) == norm(binds[0].value.slice)) or \
        (len(dcomps) == 1 and not binds and isinstance(dcomps[0].key, ast.Name) and norm(dcomps[0].key) == norm(dcomps[0].value.slice) and norm(dcomps[0].generators[0].target) == norm(dcomps[0].key))
    ctx.check(same_name, 'C07-D2', f'{ek.key}::binding', 'key metadata is not bound to the parameter of the same name',
              'each parameter of the key function receives the metadata of the same name', ek.where())
    # SelectionFunction.__call__: words on the last axis, nothing else
    sf = prog.need_class(BASE, 'SelectionFunction')
    from .. import normalize as _nz
    call = _nz.normal(prog, sf.methods.get('__call__'))
    kwp = call.node.args.kwarg.arg
    calls = [c for c in ast.walk(call.node) if isinstance(c, ast.Call) and norm(c.func) == 'self._function']
    ctx.check(len(calls) == 1 and norm(calls[0]) == 'self._function(**self._base_kwargs)', 'C07-D2', f'{call.key}::invoke', 'the wrapped function is not called once with the collected arguments',
              'values = self._function(**self._base_kwargs)', call.where())
    local1 = {}
    for s_ in ast.walk(call.node):
        if isinstance(s_, ast.Assign) and len(s_.targets) == 1 and isinstance(s_.targets[0], ast.Name):
            local1.setdefault(s_.targets[0].id, []).append(s_.value)

    def through(v):
        return local1[v.id][0] if isinstance(v, ast.Name) and len(local1.get(v.id, ())) == 1 else v
    binds = [s for s in ast.walk(call.node) if isinstance(s, ast.Assign) and norm(s.targets[0]).startswith('self._base_kwargs[') and isinstance(through(s.value), ast.Subscript)
             and norm(through(s.value).value) == kwp]
    binds = [ast.Assign(targets=b_.targets, value=through(b_.value)) for b_ in binds]
    ctx.check(len(binds) == 1 and norm(binds[0].targets[0].slice) == norm(binds[0].value.slice), 'C07-D2', f'{call.key}::binding',
              'an argument of the wrapped function does not receive the metadata of the same name', 'argument `name` <- metadata[`name`]', call.where())
    # what is returned, as one expression over the function output per path (locals expanded along the path)
    import copy as _copy
    stripped = _copy.deepcopy(call.node)
    stripped.body = [s_ for s_ in stripped.body if not isinstance(s_, ast.For)]
    paths = astutil.return_paths(stripped)
    NOWORDS = {('self.words is None', True), ('self.words is not None', False)}
    sel_paths = [(g_, e_) for g_, e_ in (paths or []) if e_ is not None and not any((norm(t_), pol_) in NOWORDS for t_, pol_ in g_)]
    plain_paths = [(g_, e_) for g_, e_ in (paths or []) if e_ is not None and any((norm(t_), pol_) in NOWORDS for t_, pol_ in g_)]
    ret = sel_paths[0][1] if len(sel_paths) == 1 else None
    CALL = 'self._function(**self._base_kwargs)'
    key_w = f'{call.key}::words axis'
    for g_, e_ in plain_paths:
        ctx.check(norm(e_) == CALL, 'C07-D2', f'{call.key}::result (no words selection)', f'without a words selection `{norm(e_)[:80]}` is returned, not the function output itself',
                  'without a words selection the function output is returned as it is', call.where())
    if ret is None:
        ctx.undecided('C07-D2', f'{call.key}::result', 'returned expression not derivable', call.where())
    else:
        e = ret
        # peel: X.swapaxes(a, b)[self.words].swapaxes(c, d)   or   X[..., self.words]
        def swap_of(x):
            if isinstance(x, ast.Call) and isinstance(x.func, ast.Attribute) and x.func.attr == 'swapaxes' and len(x.args) == 2 and not x.keywords:
                a_, b_ = const_value(x.args[0]), const_value(x.args[1])
                if isinstance(a_, int) and isinstance(b_, int):
                    return x.func.value, sorted((a_, b_))
            if isinstance(x, ast.Call) and last(norm(x.func)) == 'swapaxes' and len(x.args) == 3 and isinstance(x.func, ast.Attribute) and norm(x.func.value) in ('_np', 'np', 'numpy'):
                a_, b_ = const_value(x.args[1]), const_value(x.args[2])
                if isinstance(a_, int) and isinstance(b_, int):
                    return x.args[0], sorted((a_, b_))
            return None
        def index_kind(x, depth=0):
            """'same': the stored words selection itself (or an order-preserving copy); 'derived': a value computed from it with no
            element-wise justification; 'unknown'"""
            if norm(x) == 'self.words':
                return 'same', None
            if isinstance(x, ast.Call) and last(norm(x.func)) in ('asarray', 'array', 'copy', 'list', 'tuple') and len(x.args) == 1 and norm(x.args[0]) == 'self.words':
                return 'same', None
            if isinstance(x, ast.Call) and isinstance(x.func, ast.Attribute) and norm(x.func.value) == 'self' and depth < 2:
                h = prog.resolve_method(sf, x.func.attr)
                if h is None:
                    return 'unknown', None
                aliases = {'self.words'}
                for a_ in ast.walk(h.node):
                    if isinstance(a_, ast.Assign) and len(a_.targets) == 1 and isinstance(a_.targets[0], ast.Name) and norm(a_.value) == 'self.words':
                        aliases.add(a_.targets[0].id)
                pm_ = astutil.parents(h.node)
                worst = ('same', None)
                for r_ in ast.walk(h.node):
                    if isinstance(r_, ast.Return) and r_.value is not None:
                        if norm(r_.value) in aliases:
                            continue
                        elementwise = any(any(isinstance(c_, ast.Call) and last(norm(c_.func)) in ('all', 'array_equal', 'diff') for c_ in ast.walk(t_))
                                          for t_, pol_ in astutil.guards(r_, pm_, h.node))
                        worst = ('unknown', r_) if elementwise else ('derived', r_)
                        if worst[0] == 'derived':
                            return ('derived', (h, r_))
                return worst if worst[0] == 'same' else ('unknown', None)
            return 'unknown', None
        verdict = None
        modified = None
        o = swap_of(e)
        if o is not None and isinstance(o[0], ast.Subscript):
            i_ = swap_of(o[0].value)
            kind_, info_ = index_kind(o[0].slice)
            if i_ is not None and kind_ == 'derived':
                h_, r_ = info_
                ctx.fail('C07-D2', f'{call.key}::words index', f'the selection applied is `{norm(o[0].slice)[:50]}`, which replaces the stored words by `{norm(r_.value)[:50]}` computed from them '
                         f'(no element-wise justification): output position j is no longer word words[j]', h_.where(r_))
                verdict = (True, 'n/a')
            elif i_ is not None and kind_ == 'same':
                if norm(i_[0]) == CALL:
                    verdict = (o[1] == [-1, 0] and i_[1] == [-1, 0], f'selection applied after swapaxes{tuple(i_[1])}, swapped back with swapaxes{tuple(o[1])}')
                elif CALL in norm(i_[0]):
                    modified = i_[0]
        elif isinstance(e, ast.Subscript) and isinstance(e.slice, ast.Tuple) and len(e.slice.elts) == 2 \
                and isinstance(e.slice.elts[0], ast.Constant) and e.slice.elts[0].value is Ellipsis and index_kind(e.slice.elts[1])[0] == 'same':
            if norm(e.value) == CALL:
                verdict = (True, 'values[..., self.words]')
            elif CALL in norm(e.value):
                modified = e.value
        elif isinstance(e, ast.Subscript) and not isinstance(e.slice, ast.Tuple) and norm(e.value) == CALL and index_kind(e.slice)[0] == 'same':
            verdict = (False, 'selection applied on the first axis (the traces), not on the words axis')
        if modified is not None:
            ctx.fail('C07-D2', f'{call.key}::result', f'the words selection is applied to `{norm(modified)[:70]}`, not to the function output itself: the returned values are modified besides the words selection', call.where())
        elif verdict is None:
            if CALL not in norm(e):
                ctx.fail('C07-D2', f'{call.key}::result', f'what is returned (`{norm(e)[:80]}`) is not derived from the wrapped function\'s output', call.where())
            else:
                ctx.undecided('C07-D2', key_w, f'returned expression `{norm(e)[:90]}` is not the words selection on the last axis of the function output in a recognised form', call.where())
        else:
            ctx.ok('C07-D2', f'{call.key}::result', 'returns the function output with only the words selection applied', call.where())
            ctx.check(verdict[0], 'C07-D2', key_w, f'{verdict[1]}: the words selection is not applied on the last (words) axis', f'{verdict[1]}: words select on the last axis', call.where())
    sw = sf.methods.get('_set_words')
    st = [s for s in ast.walk(sw.node) if isinstance(s, ast.Assign) and norm(s.targets[0]) == 'self.words']
    wp_ = [p_ for p_ in sw.params if p_ != 'self'][0]
    rebinds = [s for s in ast.walk(sw.node) if isinstance(s, ast.Assign) and norm(s.targets[0]) == wp_]
    kinds_ = [astutil.passthrough_kind(s.value, wp_) for s in st + rebinds]
    if len(st) != 1 or 'unknown' in kinds_:
        ctx.undecided('C07-D2', f'{sw.key}::words', 'how the words selection is stored is not understood', sw.where())
    else:
        bad_ = [s for s, k_ in zip(st + rebinds, kinds_) if k_ == 'derived']
        ctx.check(not bad_, 'C07-D2', f'{sw.key}::words', f'the stored words selection is not the caller\'s: `{norm(bad_[0])[:70] if bad_ else ""}` reorders / transforms it '
                  f'(None meaning all words; a list may only be converted to an array)', 'self.words = the caller\'s selection (list -> array, None -> all)', sw.where())


def run(ctx, prog):
    ctx.rule('C07-D1', 'registry agreement per ready-made class: metadata side <-> First/Last <-> round key [0]/[-1] of the same cipher; extracted value term of the compute function = documented intermediate; '
                       'configuration passed through; decrypt namespace = First<->Last mirror')
    ctx.rule('C07-D2', 'axis typing: compute functions return (traces, guesses, words); guess loop in guess order, row i <- guess i, value independent of i; words applied on the last axis only; '
                       'tag -> parameter-name mapping agrees across wrapper, compute and key functions; guesses unchanged')
    ctx.assume('the intermediates the classes are documented to predict: AddRoundKey = data xor k; First/Last SubBytes = SBOX / INV_SBOX of it; AES DeltaRLastRounds = ShiftRows(ct) xor INV_SBOX(ct xor k); '
               'DES classes = des.encrypt stopped at round 0 after the step named by the class, with every 6-bit round-key word set to the guess')
    ctx.assume('scared.aes.base / scared.des.base primitives and key schedules are what C05 / C06 / C10 decide them to be')
    regs = {}
    for cipher in ('aes', 'des'):
        regs[cipher] = registry(ctx, prog, cipher)
    d2(ctx, prog, regs)
    ctx.unit('classes', {c: sorted(regs[c][0]) for c in regs})
