"""C04 - ANOVA / NICV / SNR over value classes: empty classes excluded consistently, undefined ratios are NaN.

D1 consistent exclusion   the partitioned _compute builds one mask "count is positive" from the counters and that same mask
                          selects the class axis of counters, sum and sum_square; only masked arrays (plus the mask and the
                          total count) reach the metric.
D2 metrics                each _compute_metric override reads only its parameters, writes no attribute, uses no constant
                          position on the class axis (order symmetric) - together with D4 it returns an (S,) array having
                          consumed the class axis by reductions / aligned elementwise operations only.
D3 inf -> NaN             the partitioned _compute maps infinities to NaN before storing each row.
D4 axis typing            labels of every +=, broadcast, contraction, mask application, reshape/product axis and the
                          returned (W,S) layout in the partitioned accumulation kernels, _compute and the three metrics.
"""
import ast

from .. import infnan, axes, astutil, universe, alias
from ..model import norm, AnalysisError, self_attr, const_value
from .c03 import d2 as infnan_rule

PART = 'scared.distinguishers.partitioned'


def d1(ctx, prog):
    ci = prog.need_class(PART, 'PartitionedDistinguisherMixin')
    from .. import normalize
    f = normalize.propagate_access_paths(normalize.normal(prog, prog.resolve_method(ci, '_compute'), skip={'_compute_metric'}))
    calls = [c for c in ast.walk(f.node) if isinstance(c, ast.Call) and isinstance(c.func, ast.Attribute) and c.func.attr == '_compute_metric']
    if len(calls) != 1:
        raise AnalysisError('partitioned _compute does not call _compute_metric exactly once')
    call = calls[0]
    defs = {}
    for n in ast.walk(f.node):
        if isinstance(n, ast.Assign) and len(n.targets) == 1 and isinstance(n.targets[0], ast.Name):
            defs.setdefault(n.targets[0].id, []).append(n)
    # the mask: a Compare of counters with zero
    masks = []
    for name, ds in defs.items():
        for d in ds:
            v = d.value
            if isinstance(v, ast.Compare) and len(v.ops) == 1 and 'counters' in {a for a in astutil.self_attrs_read(v.left)}:
                masks.append((name, d))
    # a mask computed for all words at once and read per word (`rows = self.counters > 0` ... `mask = rows[i]`, i the word loop variable):
    # the per-word row is the mask the rule speaks about, the hoisted comparison is its definition
    row_alias = {}
    if len(masks) == 1:
        base_name, base_def = masks[0]
        loops = [l for l in ast.walk(f.node) if isinstance(l, ast.For) and isinstance(l.target, ast.Name)]
        for name, ds in defs.items():
            if len(ds) == 1 and isinstance(ds[0].value, ast.Subscript) and isinstance(ds[0].value.value, ast.Name) and ds[0].value.value.id == base_name \
                    and isinstance(ds[0].value.slice, ast.Name) and any(l.target.id == ds[0].value.slice.id and any(x is ds[0] for x in ast.walk(l)) for l in loops) \
                    and norm(base_def.value.left) == 'self.counters' and len(defs[base_name]) == 1:
                row_alias[name] = ds[0]
        if len(row_alias) == 1:
            (rname, rdef), = row_alias.items()
            users = [n for n in ast.walk(f.node) if isinstance(n, ast.Name) and n.id == base_name and isinstance(n.ctx, ast.Load)]
            if len(users) == 1:          # the hoisted comparison is read only through its per-word row
                masks = [(rname, base_def)]
    key = f'{f.key}::non-empty class mask'
    if len(masks) != 1:
        ctx.fail('C04-D1', key, f'{len(masks)} masks derived from the class counters; exactly one mask must decide which classes take part', f.where())
        return
    mname, mdef = masks[0]
    op, c = type(mdef.value.ops[0]), const_value(mdef.value.comparators[0])
    positive = (op, c) in ((ast.Gt, 0), (ast.GtE, 1), (ast.NotEq, 0))
    ctx.check(positive, 'C04-D1', key, f'the mask `{norm(mdef.value)}` does not mean "count is positive": empty classes would take part (0/0) or non-empty ones be dropped',
              f'mask `{norm(mdef.value)}` keeps exactly the non-empty classes', f.where(mdef))
    # every array handed to the metric is masked by that same mask
    masked = set()
    pm = astutil.parents(f.node)

    def all_classes_populated(d):
        """the definition sits on a path where `<mask>.all()` holds: every class is non-empty, the mask selects everything,
        so the unmasked row of the accumulator is the masked one"""
        for t, pos in astutil.guards(d, pm, f.node):
            tt = norm(t).replace(' ', '')
            if pos and tt in (f'{mname}.all()', f'_np.all({mname})', f'np.all({mname})', f'numpy.all({mname})'):
                return True
            if not pos and tt in (f'not{mname}.all()', f'(~{mname}).any()', f'_np.any(~{mname})'):
                return True
        return False
    for name, ds in defs.items():
        if all(any(isinstance(s, ast.Subscript) and mname in astutil.names_read(s.slice) for s in ast.walk(d.value)) or
               (all_classes_populated(d) and astutil.self_attrs_read(d.value) & {'counters', 'sum', 'sum_square'}) for d in ds):
            masked.add(name)
    for a in call.args:
        akey = f'{f.key}::metric argument {norm(a)[:40]}'
        if isinstance(a, ast.Name) and (a.id == mname or a.id in masked):
            ctx.ok('C04-D1', akey, 'masked by the non-empty class mask (or the mask itself)', f.where(call))
        elif isinstance(a, ast.Name) and a.id in defs and all(
                isinstance(d.value, ast.Call) and norm(d.value.func).split('.')[-1] in ('sum', 'count_nonzero') and
                astutil.names_read(d.value) & (masked | {mname}) for d in defs[a.id]):
            ctx.ok('C04-D1', akey, 'a total computed from masked values', f.where(call))
        else:
            ctx.fail('C04-D1', akey, f'`{norm(a)}` reaches the metric without passing through the non-empty class mask `{mname}`: '
                                     f'empty classes influence the result', f.where(call))
    # the three per-class accumulators are each selected with that mask
    for attr in ('counters', 'sum', 'sum_square'):
        uses = [s for s in ast.walk(f.node) if isinstance(s, ast.Subscript) and isinstance(s.ctx, ast.Load) and self_attr(s) == attr
                and mname in astutil.names_read(s.slice)]
        ctx.check(bool(uses), 'C04-D1', f'{f.key}::self.{attr} masked', f'self.{attr} is never selected with the mask `{mname}`', f'self.{attr} selected with `{mname}`', f.where())


def d2(ctx, prog):
    base = prog.need_class(PART, 'PartitionedDistinguisherMixin')
    n = 0
    eff = alias.Effects(prog)
    for ci in prog.subclasses_of(base, strict=True):
        f = ci.methods.get('_compute_metric')
        if f is None:
            continue
        n += 1
        reads = astutil.self_attrs_read(f.node)
        ctx.check(not reads, 'C04-D2', f'{f.key}::reads', f'the metric reads instance attributes {sorted(reads)}: it is not a function of the masked per-class sums alone',
                  'reads only its parameters', f.where())
        stores = [st for t, st, how in __import__('sa.kernels', fromlist=['stores']).stores(f.node) if isinstance(t, (ast.Attribute,)) or self_attr(t)]
        ctx.check(not stores, 'C04-D2', f'{f.key}::stores', 'the metric stores into an attribute', 'stores no attribute', f.where())
    return n


def d2_purity(ctx, prog):
    """a metric may be handed views of the accumulators (fast paths): any in-place effect in the compute closure of an
    ANOVA / NICV / SNR class must land on values bound in the same call - the ownership analysis of C01-D5, instantiated for
    the partitioned family under this property (a metric that overwrites its argument changes the next compute's result)"""
    from . import c01
    us, _ = c01.units(prog)
    n = 0
    for u in us:
        m = prog.resolve_method(u.cls, '_compute_metric')
        if m is None or m.mod.name != PART:
            continue
        u.guard = c01.find_guard(prog, u)
        u.acc = universe.accumulators(prog, u.cls, u.init)
        c01.d5(ctx, prog, u.cls, u.compute, u.acc, u.count, u.guard or '', rule='C04-D2')
        n += 1
    return n


# ------------------------------------------------------------------------------------------------ D5: class-set size homogeneity
TOPX = 'T'


class Extent:
    """exponent of |P| (size of the declared class set, empty classes included) carried by every value of a metric.  The
    only source is `<mask>.shape[0]` / `len(<mask>)` / `<mask>.size`; products add, quotients subtract, constant powers scale,
    sums / differences need equal exponents, reductions keep the exponent.  A result with a non-zero exponent changes when an
    empty class is added to the class set."""

    def __init__(self, f, mask):
        self.f, self.mask = f, mask
        self.env = {p: 0 for p in f.params}
        self.sources = []

    def run(self):
        for st in f_body(self.f):
            if isinstance(st, ast.Assign) and len(st.targets) == 1 and isinstance(st.targets[0], ast.Name):
                self.env[st.targets[0].id] = self.ev(st.value)
            elif isinstance(st, ast.AugAssign) and isinstance(st.target, ast.Name):
                cur, v = self.env.get(st.target.id, TOPX), self.ev(st.value)
                self.env[st.target.id] = self.op(st.op, cur, v, st)
            elif isinstance(st, ast.Return):
                return self.ev(st.value)
            else:
                return TOPX
        return TOPX

    def op(self, op, a, b, node):
        if a == TOPX or b == TOPX:
            return TOPX
        if isinstance(op, ast.Mult):
            return a + b
        if isinstance(op, (ast.Div, ast.FloorDiv)):
            return a - b
        if isinstance(op, (ast.Add, ast.Sub)):
            return a if a == b else TOPX
        if isinstance(op, ast.Pow):
            c = const_value(node.right) if isinstance(node, ast.BinOp) else const_value(node.value)
            return a * c if isinstance(c, int) and b == 0 else (0 if a == 0 and b == 0 else TOPX)
        return TOPX

    def ev(self, e):
        if isinstance(e, ast.Constant):
            return 0
        if isinstance(e, ast.Name):
            return self.env.get(e.id, TOPX)
        if isinstance(e, ast.UnaryOp):
            return self.ev(e.operand)
        if isinstance(e, ast.BinOp):
            return self.op(e.op, self.ev(e.left), self.ev(e.right), e)
        if isinstance(e, ast.Attribute):
            if e.attr == 'T':
                return self.ev(e.value)
            if e.attr == 'size' and norm(e.value) == self.mask:
                self.sources.append(e)
                return 1
            if e.attr in ('shape', 'dtype', 'ndim'):
                return TOPX
            return TOPX
        if isinstance(e, ast.Subscript):
            if isinstance(e.value, ast.Attribute) and e.value.attr == 'shape':
                if norm(e.value.value) == self.mask and const_value(e.slice) in (0, -1):
                    self.sources.append(e)
                    return 1
                return TOPX       # some other extent (P' or S): not tracked
            return self.ev(e.value)
        if isinstance(e, ast.Call):
            name = norm(e.func).split('.')[-1]
            if name == 'len' and e.args and norm(e.args[0]) == self.mask:
                self.sources.append(e)
                return 1
            if name in ('sum', 'nansum', 'mean', 'nanmean', 'max', 'min', 'abs', 'absolute', 'sqrt', 'square', 'count_nonzero', 'asarray', 'array', 'copy', 'astype', 'float', 'int'):
                arg = e.args[0] if e.args and not (isinstance(e.func, ast.Attribute) and not norm(e.func.value).endswith('np')) else (e.func.value if isinstance(e.func, ast.Attribute) else None)
                v = self.ev(arg) if arg is not None else TOPX
                if name == 'sqrt' and v != TOPX:
                    return v / 2 if v % 2 == 0 else TOPX
                if name == 'square' and v != TOPX:
                    return 2 * v
                if name == 'count_nonzero':
                    return 0 if v != TOPX else TOPX
                return v
            return TOPX
        return TOPX


def f_body(f):
    b = list(f.node.body)
    if b and isinstance(b[0], ast.Expr) and isinstance(b[0].value, ast.Constant):
        b = b[1:]
    return b


def d5(ctx, prog):
    base = prog.need_class(PART, 'PartitionedDistinguisherMixin')
    n = 0
    for ci in prog.subclasses_of(base, strict=True):
        f = ci.methods.get('_compute_metric')
        if f is None:
            continue
        ps = [p for p in f.params if p != 'self']
        if not ps:
            continue
        x = Extent(f, ps[0])
        r = x.run()
        key = f'{f.key}::class-set size'
        n += 1
        if r == TOPX:
            if x.sources:
                ctx.undecided('C04-D5', key, f'the metric uses the size of the declared class set (`{norm(x.sources[0])}`) and the way it enters the result could not be followed', f.where(x.sources[0]))
            else:
                ctx.ok('C04-D5', key, 'the size of the declared class set (empty classes included) is never used', f.where())
        elif r == 0:
            ctx.ok('C04-D5', key, f'the size of the declared class set enters the result with exponent 0 ({len(x.sources)} uses cancel): adding an empty class changes nothing', f.where())
        else:
            ctx.fail('C04-D5', key, f'the result is proportional to (size of the declared class set)^{r} (`{norm(x.sources[0])}` does not cancel): an empty class changes the result',
                     f.where(x.sources[0]), exponent=r)
    return n


def d8(ctx, prog):
    """dimensional analysis of the three metrics: class counters n, class sums u n, class sums of squares u^2 n (from the
    accumulation kernel), the total count n; every sum / difference homogeneous; NICV and SNR are dimensionless and do not change
    when the data set is duplicated (u^0 n^0); the F statistic is scale free and grows like n (u^0 n^1)."""
    from . import dims
    from .. import units, kernels as _k
    base = prog.need_class(PART, 'PartitionedDistinguisherMixin')
    acc = prog.resolve_method(base, '_accumulate')
    n = 0
    if acc is None:
        ctx.undecided('C04-D8', f'{base.key}::accumulator dimensions', 'accumulation function not found', base.mod.relpath)
        return 0
    # every kernel the accumulation can dispatch to (direct calls and dispatch candidates)
    knames = []
    for var_, names_, node_, calls_ in _k.dispatch_sites(prog, acc):
        knames.extend(names_)
    for c in ast.walk(acc.node):
        if isinstance(c, ast.Call) and isinstance(c.func, ast.Attribute) and norm(c.func.value) == 'self' and c.func.attr.startswith('_accumulate_core'):
            knames.append(c.func.attr)
    want_acc = {'counters': dims.U(n=1), 'sum': dims.U(u=1, n=1), 'sum_square': dims.U(u=2, n=1)}
    for kn in sorted(set(knames)):
        k1 = prog.resolve_method(base, kn)
        if k1 is None:
            continue
        key = f'{k1.key}::accumulator dimensions'
        tp = k1.params[0]
        seeds = {tp: dims.U(u=1), k1.params[1]: units.CONST}
        seeds.update({p_: units.CONST for p_ in k1.params if 'prec' in p_})
        contrib, xk = dims.contributions(prog, k1, seeds, {tp, k1.params[1]})
        dims.report_mismatches(ctx, 'C04-D8', k1, xk)
        # parameter -> accumulator attribute, from a direct call or from the (common) dispatched call
        calls = [c for c in ast.walk(acc.node) if isinstance(c, ast.Call) and ((isinstance(c.func, ast.Attribute) and c.func.attr == k1.name) or
                                                                               any(isinstance(c.func, ast.Name) and c.func.id == v_ for v_, nm_, nd_, cs_ in _k.dispatch_sites(prog, acc)))]
        amap = _k.call_arg_map(k1, calls[0]) if calls else {}
        got = {}
        for p_, dm in contrib.items():
            a = amap.get(p_)
            if a is not None and self_attr(a):
                got[self_attr(a)] = dm
        for a, w in want_acc.items():
            n += 1
            if a not in got or got[a] is units.TOP:
                ctx.undecided('C04-D8', f'{key} self.{a}', f'dimension of self.{a} not derivable from {k1.qualname}', k1.where())
            else:
                ctx.check(got[a] == w, 'C04-D8', f'{key} self.{a}', f'{k1.qualname} accumulates {units.show(got[a])} into self.{a}; the class {"count" if a == "counters" else "sum"} has dimension {units.show(w)}',
                          f'self.{a}: {units.show(w)}', k1.where())
    expect = {'ANOVADistinguisherMixin': (dims.U(n=1), 'the F statistic (scale free, grows like the number of traces)'),
              'NICVDistinguisherMixin': ({}, 'a ratio of variances (dimensionless, independent of the number of traces)'),
              'SNRDistinguisherMixin': ({}, 'a ratio of variances (dimensionless, independent of the number of traces)')}
    for ci in prog.subclasses_of(base, strict=True):
        f = ci.methods.get('_compute_metric')
        if f is None or ci.name not in expect:
            continue
        ps = [p_ for p_ in f.params if p_ != 'self']
        if len(ps) != 5:
            ctx.undecided('C04-D8', f'{f.key}::dimension', 'metric signature changed', f.where())
            continue
        seeds = {ps[0]: units.CONST, ps[1]: dims.U(n=1), ps[2]: dims.U(u=1, n=1), ps[3]: dims.U(u=2, n=1), ps[4]: dims.U(n=1)}
        x = units.Units(f, seeds=seeds, prog=prog).run()
        nm = dims.report_mismatches(ctx, 'C04-D8', f, x)
        n += 1
        rets = [d for d, _ in x.returns]
        wantd, what = expect[ci.name]
        if not rets or any(d is units.TOP for d in rets):
            if not nm:
                ctx.undecided('C04-D8', f'{f.key}::dimension', 'dimension of the metric not derivable', f.where())
            continue
        bad = [d for d in rets if d != wantd and d != units.CONST]
        ctx.check(not bad, 'C04-D8', f'{f.key}::dimension', f'the metric has dimension {units.show(bad[0]) if bad else ""}; {what} has {units.show(wantd)}', f'metric dimension {units.show(wantd)}', f.where())
    return n


def d10(ctx, prog):
    """the three metrics as rational functions of the per-class counts / sums / sums of squares (sa.ratfun, three symbolic non-empty
    classes): each `_compute_metric` must return *the same function* as its definition -
      ANOVA  F = [sum_k c_k (m_k - m)^2 / (K - 1)] / [sum_k (q_k - s_k^2 / c_k) / (N - K)]
      NICV     = [sum_k (c_k / N) (m_k - m)^2] / [sum_k q_k / N - m^2]
      SNR      = [sum_k (m_k - m)^2 / P] / [sum_k (q_k / c_k - m_k^2) / P]            m_k = s_k / c_k, m = sum_k s_k / N, N = sum_k c_k
    compared by cross-multiplication of polynomial normal forms (no numeric evaluation).  Decides the formula for every input."""
    from .. import ratfun
    from ..ratfun import Poly, RF
    K = 3
    c = [Poly.sym(f'c{k}') for k in range(K)]
    s_ = [Poly.sym(f's{k}') for k in range(K)]
    q = [Poly.sym(f'q{k}') for k in range(K)]
    one = Poly.const(1)
    N = c[0] + c[1] + c[2]
    S = s_[0] + s_[1] + s_[2]

    def rf(num, den=one):
        return RF(num, den, {})

    def add_all(xs):
        out = xs[0]
        for x in xs[1:]:
            out = out.add(x)
        return out
    mk = [rf(s_[k], c[k]) for k in range(K)]
    m = rf(S, N)
    dev2 = [mk[k].add(m, -1).mul(mk[k].add(m, -1)) for k in range(K)]
    between = add_all([rf(c[k]).mul(dev2[k]) for k in range(K)])
    within = add_all([rf(q[k]).add(rf(s_[k] * s_[k], c[k]), -1) for k in range(K)])
    anova = between.mul(rf(Poly.const(K - 1)), -1).mul(within.mul(rf(N - Poly.const(K)), -1), -1)
    nicv = add_all([rf(c[k], N).mul(dev2[k]) for k in range(K)]).mul(add_all([rf(q[k], N) for k in range(K)]).add(m.mul(m), -1), -1)
    P = rf(Poly.sym('P'))
    snr = add_all(dev2).mul(P, -1).mul(add_all([rf(q[k], c[k]).add(mk[k].mul(mk[k]), -1) for k in range(K)]).mul(P, -1), -1)
    refs = {'ANOVADistinguisherMixin': (anova, 'the one-way F statistic (between-class mean square with K-1 over within-class mean square with N-K degrees of freedom)'),
            'NICVDistinguisherMixin': (nicv, 'variance of the class means weighted by class size over the total variance'),
            'SNRDistinguisherMixin': (snr, 'mean squared deviation of the class means from the overall mean over the mean within-class variance (classes weighted equally)')}
    base = prog.need_class(PART, 'PartitionedDistinguisherMixin')
    n = 0
    for ci in prog.subclasses_of(base, strict=True):
        f = ci.methods.get('_compute_metric')
        if f is None or ci.name not in refs:
            continue
        ps = [p_ for p_ in f.params if p_ != 'self']
        key = f'{f.key}::formula'
        if len(ps) != 5:
            ctx.undecided('C04-D10', key, 'metric signature changed', f.where())
            continue
        n += 1
        ref, what = refs[ci.name]
        ev = ratfun.VecEval({ps[4]: rf(N), '$masks': {ps[0]}, f'{ps[0]}.shape[0]': 'P', f'{ps[0]}.size': 'P'},
                            {ps[1]: [f'c{k}' for k in range(K)], ps[2]: [f's{k}' for k in range(K)], ps[3]: [f'q{k}' for k in range(K)]}, K)
        try:
            from .. import inline as _inl
            outs = ratfun.run_vector_function(_inl.inlined(prog, f).node, ev)
            if not outs:
                raise ratfun.Unknown('no returned expression')
            bad = None
            for v, st in outs:
                if isinstance(v, list):
                    raise ratfun.Unknown('the class axis is not reduced in the returned value')
                if v.roots:
                    raise ratfun.Unknown('square roots in the metric')
                if not (v.num * ref.den == ref.num * v.den):
                    bad = st
            if bad is not None:
                ctx.fail('C04-D10', key, f'what {f.qualname} returns is not {what}: with three non-empty classes it is another rational function of the class counts, sums and sums of squares', f.where(bad))
            else:
                ctx.ok('C04-D10', key, f'the returned value is {what}, as a rational function of (c_k, s_k, q_k) for three symbolic classes (normal forms cross-multiplied)', f.where())
        except ratfun.Unknown as e:
            ctx.undecided('C04-D10', key, f'formula not derivable: {e}', f.where())
    return n


def run(ctx, prog):
    from .. import universe as _uni0
    _uni0.inline_base_entry_points(ctx, prog)
    ctx.rule('C04-D1', 'one "count is positive" mask selects the class axis of counters, sum and sum_square; only masked values reach the metric')
    ctx.rule('C04-D2', 'metrics read only their parameters, store nothing, use no constant class position')
    ctx.rule('C04-D3', 'partitioned _compute maps inf -> NaN before storing each row')
    ctx.rule('C04-D4', 'axis-label typing of the partitioned kernels, _compute and metrics (accumulate, broadcast, contraction, mask, product axis, return layout)')
    ctx.assume('the F / NICV / SNR formulas (degrees of freedom, weights) are numeric and not decided')
    d1(ctx, prog)
    n2 = d2(ctx, prog)
    # D7: every class-wise accumulator (counts, sums, sums of squares) receives exactly one additive contribution per accepted
    # update path, whichever kernel the timings select: the C01 accumulation rules instantiated for the partitioned classes
    ctx.rule('C04-D7', 'class counts / sums / sums of squares are accumulated exactly once per batch on every path and by every selectable kernel (C01 accumulation rules on the partitioned classes)')
    from . import c01
    sub = type(ctx)(ctx.prop, ctx.tier, ctx.seed)
    us, _ = c01.units(prog)
    n7 = 0
    for u in us:
        m_ = prog.resolve_method(u.cls, '_compute_metric')
        if m_ is None or m_.mod.name != PART or u.cls.mod.name != PART:
            continue
        u.guard = c01.find_guard(prog, u)
        u.acc = universe.accumulators(prog, u.cls, u.init)
        entry = prog.resolve_method(u.cls, u.update)
        later, fl = c01.d3_d4(sub, prog, u, entry)
        closure = c01.closure_funcs(prog, fl, entry)
        c01.d1(sub, prog, u, later, fl, closure, universe.init_closure(prog, u.cls, u.init))
        n7 += 1
    for o in sub.obs:
        if o.rule in ('C01-D1',):
            o.rule = 'C04-D7'
            ctx._add(o)
    ctx.floor('partitioned classes under the accumulation rules', n7, 3)
    ctx.rule('C04-D8', 'dimensional analysis: counters n, sums u n, sums of squares u^2 n (from the kernel); every +/- homogeneous; NICV and SNR u^0 n^0, ANOVA F u^0 n^1')
    ctx.floor('dimension obligations (partitioned metrics)', d8(ctx, prog), 6)
    ctx.rule('C04-D9', 'the sums and sums of squares are taken of the traces converted to the working precision: no product / power / reduction of raw (narrow integer) inputs in the accumulation kernels')
    from .. import kernels as _kern, kernelrules as _kr
    from .c11 import emit as _emit
    n9 = 0
    for f_, kind_, call_ in _kern.numba_funcs(prog):
        if f_.mod.name != PART or kind_ != 'njit':
            continue
        res_, prec_ = _kr.precision_taint(prog, f_)
        if prec_:
            n9 += 1
            if not res_:
                ctx.ok('C04-D9', f'{f_.key}::precision `{prec_}`', 'no arithmetic on raw inputs')
            _emit(ctx, 'C04-D9', res_)
    ctx.floor('partitioned accumulation kernels under precision discipline', n9, 2)
    ctx.rule('C04-D11', 'class counters receive one increment per (trace, word) - literal 1 under a `sample == 0` pin, or an equality-mask sum - and class membership is decided by equality of the lookup output with the class position')
    from .. import lut as _lut
    _lk = _lut.Lookup(prog)
    n11 = 0
    for f_, kind_, call_ in _kern.numba_funcs(prog):
        if f_.mod.name != PART or kind_ != 'njit' or not f_.name.startswith('_accumulate_core'):
            continue
        cps = [p_ for p_ in f_.params if 'counter' in p_]
        res_ = _kr.count_discipline(prog, f_, cps) + _kr.membership_comparisons(prog, f_, _lk.maybe_params(f_)) + _kr.sentinel_discipline(prog, f_, _lk.maybe_params(f_))[0]
        n11 += len(res_)
        _emit(ctx, 'C04-D11', res_)
    ctx.floor('counter increments / membership comparisons judged', n11, 3)
    ctx.rule('C04-D10', 'rational-function normal form: each metric is its definition (F statistic / weighted variance of class means over total variance / equal-weight signal over mean noise) as a function of the class counts, sums and sums of squares')
    ctx.floor('metrics compared with their definition', d10(ctx, prog), 3)
    n3 = infnan_rule(ctx, prog, 'C04-D3', {PART})
    ctx.rule('C04-D5', 'extent homogeneity: the size of the declared class set (which counts empty classes) enters each metric with total exponent 0')
    ctx.floor('partitioned classes whose compute closure is checked for purity', d2_purity(ctx, prog), 6)
    ctx.floor('metrics checked for class-set size homogeneity', d5(ctx, prog), 3)
    typed = []
    n4 = axes.check_family(ctx, prog, 'C04-D4', [PART], collect=typed)
    # D2 (order symmetry / no second selection): inside a metric the class axis is consumed whole
    seen = set()
    for ci, ty in typed:
        for fn, node, ax in ty.class_axis_selections:
            if fn.name == '_compute_metric':
                k = f'{fn.key}::{norm(node)[:80]}'
                if k not in seen:
                    seen.add(k)
                    ctx.fail('C04-D2', k, f'the metric selects along the class axis (`{norm(node)[:60]}`): classes must enter the statistic only through reductions over '
                                          f'all non-empty classes (a second selection or a fixed position changes which classes count, or makes the result depend on their order)', fn.where(node))
    if not seen:
        ctx.ok('C04-D2', f'{PART}::_compute_metric class axis', 'no metric selects along the class axis: it is consumed whole by reductions / aligned elementwise operations')
    # constant class positions (order dependence)
    ctx.floor('metric overrides', n2, 3)
    ctx.floor('_compute functions with divisions (partitioned)', n3, 1)
    ctx.floor('axis obligations (partitioned)', n4, 50)
    from .. import kernelvalues as _kv
    ctx.floor('kernel value cases interpreted', _kv.clause(ctx, prog, 'C04-D12', ('partitioned',)), 20)
