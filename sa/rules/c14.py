"""C14 - templates: build before match, profile hand-over, row selection by class position, layouts.

D1 typestate        matching refuses to initialise before build: the first statement of the matcher's _initialize tests
                    is_build and raises; build() sets is_build = True as its last store, after copying the profile;
                    construction sets it False.
D2 hand-over        the profile attributes the matcher reads are exactly those build() copies from the build analysis,
                    name for name (templates <- results), and the build side produces each of them.
D3 row selection    template rows are selected by class position (the C12 index-kind rule).
D4 axis typing      labels in template build kernels/_compute and matching _update/_compute.
"""
import ast

from .. import axes, astutil, kernels, lut, universe
from ..model import norm, AnalysisError, self_attr
from . import c12

TPL = 'scared.distinguishers.template'
ATPL = 'scared.analysis.template'
PROFILE = ('templates', 'pooled_covariance', 'pooled_covariance_inv', 'partitions')


def d1(ctx, prog):
    m = prog.need_class(TPL, '_BaseTemplateAttackDistinguisherMixin')
    init = m.methods.get('_initialize')
    if init is None:
        raise AnalysisError('matcher _initialize not found')
    body = [s for s in init.node.body if not (isinstance(s, ast.Expr) and isinstance(s.value, ast.Constant))]
    first = body[0] if body else None
    from .c15 import ceval, Undecidable
    key_ = f'{init.key}::refuse before build'
    if isinstance(first, ast.If) and any(isinstance(b, ast.Raise) for b in first.body) and astutil.self_attrs_read(first.test) == {'is_build'}:
        try:
            t_false, t_true = bool(ceval(first.test, {'self.is_build': False})), bool(ceval(first.test, {'self.is_build': True}))
            ctx.check(t_false and not t_true, 'C14-D1', key_, f'`{norm(first.test)}` does not refuse exactly when is_build is false', 'first statement refuses matching before build', init.where())
        except Undecidable as e_:
            ctx.undecided('C14-D1', key_, f'refusal test not evaluable: {e_}', init.where())
    else:
        raises_on_flag = [n_ for n_ in ast.walk(init.node) if isinstance(n_, ast.If) and any(isinstance(b, ast.Raise) for b in n_.body) and 'is_build' in astutil.self_attrs_read(n_.test)]
        if raises_on_flag:
            ctx.fail('C14-D1', key_, 'the matcher\'s _initialize tests is_build only after other statements: the profile is read (or state is set up) before the refusal', init.where())
        else:
            ctx.fail('C14-D1', key_, 'the matcher\'s _initialize never refuses (raise) when is_build is false: matching could run on missing/None templates', init.where())
    a = prog.need_class(ATPL, 'BaseTemplateAttack')
    build = a.methods.get('build')
    if build is None:
        raise AnalysisError('BaseTemplateAttack.build not found')
    from .. import normalize
    build = normalize.normal(prog, build)
    sts = [s for s in build.node.body if isinstance(s, ast.Assign) and self_attr(s.targets[0])]
    last = build.node.body[-1]
    is_last = isinstance(last, ast.Assign) and self_attr(last.targets[0]) == 'is_build' and isinstance(last.value, ast.Constant) and last.value.value is True
    copied = [self_attr(s.targets[0]) for s in sts if self_attr(s.targets[0]) != 'is_build']
    n_flag = sum(1 for s in ast.walk(build.node) if isinstance(s, ast.Assign) and self_attr(s.targets[0]) == 'is_build')
    is_last = is_last and n_flag == 1
    ctx.check(is_last and set(PROFILE) <= set(copied), 'C14-D1', f'{build.key}::is_build last',
              f'build() does not set is_build = True as its last statement after copying {PROFILE} (copied: {copied})',
              'is_build = True is the last store of build(), after the profile copies', build.where(last))
    runs = [i for i, s in enumerate(build.node.body) if any(isinstance(c, ast.Call) and norm(c.func) == 'self._build_analysis.run' for c in ast.walk(s))]
    first_copy = min((i for i, s in enumerate(build.node.body) if isinstance(s, ast.Assign) and self_attr(s.targets[0]) in PROFILE), default=None)
    ctx.check(bool(runs) and first_copy is not None and runs[0] < first_copy, 'C14-D1', f'{build.key}::run before copy',
              'the profile is copied before (or without) running the build analysis', 'build analysis runs before the profile is copied', build.where())
    inits = [s for f in a.methods.values() for s in ast.walk(f.node) if isinstance(s, ast.Assign) and self_attr(s.targets[0]) == 'is_build'
             and f.name != 'build']
    ctx.check(bool(inits) and all(isinstance(s.value, ast.Constant) and s.value.value is False for s in inits), 'C14-D1',
              f'{a.key}::is_build initial', 'is_build is not initialised to False at construction', 'is_build starts False', a.mod.relpath)
    return build


def d2(ctx, prog, build):
    copies = {}
    for s in build.node.body:
        if isinstance(s, ast.Assign) and self_attr(s.targets[0]) in PROFILE:
            v = s.value
            src = v.attr if isinstance(v, ast.Attribute) and norm(v.value) == 'self._build_analysis' else None
            copies[self_attr(s.targets[0])] = (src, s)
    # attributes produced by the build analysis
    ba = prog.need_class(ATPL, '_TemplateBuildAnalysis')
    produced = {'results', 'partitions'}
    for c in prog.mro(ba):
        for f in c.methods.values():
            for t, st, how in kernels.stores(f.node):
                if isinstance(t, ast.Attribute) and norm(t.value) == 'self':
                    produced.add(t.attr)
    for x in PROFILE:
        key = f'{build.key}::self.{x}'
        if x not in copies:
            ctx.fail('C14-D2', key, f'build() does not hand over `{x}` to the matcher', build.where())
            continue
        src, st = copies[x]
        want = 'results' if x == 'templates' else x
        ctx.check(src == want, 'C14-D2', key, f'`{x}` is copied from `{norm(st.value)}`, expected self._build_analysis.{want} (wrong profile quantity handed to the matcher)',
                  f'`{x}` <- _build_analysis.{want}', build.where(st))
        ctx.check(src in produced, 'C14-D2', key + ' produced', f'the build analysis never produces `{src}`', f'`{src}` is produced by the build side', build.where(st))
    # the build _compute: returns the templates, stores both covariance attributes
    bc = prog.resolve_method(ba, '_compute')
    st_attrs = {self_attr(t) for t, st, how in kernels.stores(bc.node) if self_attr(t)}
    ctx.check({'pooled_covariance', 'pooled_covariance_inv'} <= st_attrs, 'C14-D2', f'{bc.key}::covariances', 'the build _compute does not store both pooled covariance attributes',
              'build _compute stores pooled_covariance and its pseudo-inverse', bc.where())
    inv = [s for s in ast.walk(bc.node) if isinstance(s, ast.Assign) and self_attr(s.targets[0]) == 'pooled_covariance_inv' and isinstance(s.value, ast.Call)
           and norm(s.value.func).split('.')[-1] in ('pinv', 'inv', 'solve', 'lstsq')]
    plain = [s for s in inv if norm(s.value.func).split('.')[-1] != 'pinv']
    if plain:
        ctx.fail('C14-D2', f'{bc.key}::inverse of', f'`{norm(plain[0])[:70]}`: the matcher needs the pseudo-inverse of the pooled covariance; a plain inverse of a rank-deficient covariance '
                 f'(constant or dependent samples, fewer traces than samples) is a huge meaningless matrix and does not raise', bc.where(plain[0]))
    else:
        ctx.check(bool(inv) and all(norm(s.value.args[0]) == 'self.pooled_covariance' for s in inv), 'C14-D2', f'{bc.key}::inverse of',
                  'pooled_covariance_inv is not the pseudo-inverse of self.pooled_covariance', 'pooled_covariance_inv = pinv(pooled_covariance)', bc.where())
    # what the matcher reads
    m = prog.need_class(TPL, '_BaseTemplateAttackDistinguisherMixin')
    reads = set()
    for c in prog.subclasses_of(m):
        for f in c.methods.values():
            if f.mod.name == TPL:
                reads |= astutil.self_attrs_read(f.node) & {'templates', 'pooled_covariance', 'pooled_covariance_inv', 'partitions', 'results'}
    ctx.check(reads <= set(copies), 'C14-D2', f'{m.key}::profile reads', f'the matcher reads {sorted(reads - set(copies))}, which build() never hands over',
              f'matcher reads {sorted(reads)}: all handed over by build()', m.mod.relpath)


def d5(ctx, prog):
    """the matching score is a sum over the matched traces, normalised once by their number: every contribution to the
    score accumulator scales linearly with the batch (trace-count exponent 1, no trace axis left, reads no running state), and
    the value returned by _compute combines the accumulator with processed_traces to exponent 0 (a mean over the traces)."""
    from .. import nexp
    m = prog.need_class(TPL, '_BaseTemplateAttackDistinguisherMixin')
    upd, comp, init = m.methods.get('_update'), m.methods.get('_compute'), m.methods.get('_initialize')
    if upd is None or comp is None or init is None:
        raise AnalysisError('matcher _update/_compute/_initialize not found')
    accs = [self_attr(s.targets[0]) for s in ast.walk(init.node) if isinstance(s, ast.Assign) and self_attr(s.targets[0]) and isinstance(s.value, ast.Call)
            and norm(s.value.func).split('.')[-1] == 'zeros']
    if not accs:
        raise AnalysisError('matcher score accumulator not found')
    from .. import normalize
    upd = normalize.normal(prog, upd, skip={'get_template_index', '_get_dimension'})
    x = nexp.NExp(upd, {upd.params[1]: (True, 0), upd.params[2]: (True, 0)}).run()
    n = 0
    written = {a for a, v, st, how in x.contrib}
    for a, v, st, how in x.contrib:
        if a not in accs:
            continue
        n += 1
        key = f'{upd.key}::{norm(st)[:80]}'
        reads = astutil.self_attrs_read(st.value) & (set(accs) | {'processed_traces'} | (written - set(accs)))
        if how != 'Add':
            ctx.fail('C14-D5', key, f'the score accumulator is written with `{how}`, not accumulated with +=', upd.where(st))
        elif reads:
            ctx.fail('C14-D5', key, f'the contribution reads running state {sorted(reads)}: the score is not a plain sum over the matched traces (it depends on how they were batched)', upd.where(st))
        elif v is nexp.TOP:
            ctx.undecided('C14-D5', key, 'how the contribution scales with the number of traces of the batch could not be derived', upd.where(st))
        elif v[0] is True:
            ctx.fail('C14-D5', key, 'the contribution still has one entry per trace: it is not reduced over the traces of the batch', upd.where(st))
        else:
            ctx.check(v[1] == 1, 'C14-D5', key, f'the contribution scales with (number of traces in the batch)^{v[1]}: with exponent 0 every batch weighs the same whatever its size '
                      f'(mean of batch means), the score is not the mean over all matched traces', 'contribution = sum over the traces of the batch (exponent 1)', upd.where(st), exponent=v[1])
    y = nexp.NExp(comp, {}, attrs={a: (False, 1) for a in accs} | {'processed_traces': (False, 1)}).run()
    for v, st in y.returns:
        n += 1
        key = f'{comp.key}::{norm(st)[:80]}'
        used = astutil.self_attrs_read(st.value)
        if not (set(accs) & used):
            ctx.fail('C14-D5', key, 'the returned score does not use the score accumulator', comp.where(st))
        elif v is nexp.TOP:
            # `10 - acc / n`: a constant minus an exponent-0 value; evaluate the non-constant part
            inner = st.value
            while isinstance(inner, ast.BinOp) and isinstance(inner.op, (ast.Add, ast.Sub)) and (isinstance(inner.left, ast.Constant) or isinstance(inner.right, ast.Constant)):
                inner = inner.right if isinstance(inner.left, ast.Constant) else inner.left
            v2 = y.ev(inner)
            if v2 is nexp.TOP:
                ctx.undecided('C14-D5', key, 'normalisation of the returned score not derivable', comp.where(st))
            else:
                ctx.check(v2[1] == 0, 'C14-D5', key, f'the returned score scales with (number of matched traces)^{v2[1]}: it is not the mean over the matched traces',
                          'score accumulator / processed_traces: the mean over the matched traces', comp.where(st))
        else:
            ctx.check(v[1] == 0, 'C14-D5', key, f'the returned score scales with (number of matched traces)^{v[1]}: it is not the mean over the matched traces',
                      'score accumulator / processed_traces: the mean over the matched traces', comp.where(st))
    return n


def run(ctx, prog):
    from .. import universe as _uni0
    _uni0.inline_base_entry_points(ctx, prog)
    ctx.rule('C14-D1', 'matcher refuses before build (first statement); build() sets is_build last, after running the build analysis and copying the profile; starts False')
    ctx.rule('C14-D2', 'profile hand-over: matcher reads exactly what build() copies, name for name (templates <- results); build side produces each')
    ctx.rule('C14-D3', 'template rows selected by class position (index-kind rule shared with C12-D2)')
    ctx.rule('C14-D4', 'axis-label typing of template build kernels/_compute and matching _update')
    ctx.assume('mean / covariance / Mahalanobis values (n vs n-1, pooling weights, the constant 10) are numeric and not decided')
    build = d1(ctx, prog)
    d2(ctx, prog, build)
    lk = lut.Lookup(prog)
    sub = type(ctx)(ctx.prop, ctx.tier, ctx.seed)
    n3 = c12.d2_templates(sub, prog, lk)
    for o in sub.obs:
        o.rule = 'C14-D3'
        ctx._add(o)
    n4 = axes.check_family(ctx, prog, 'C14-D4', [TPL])
    ctx.rule('C14-D5', 'trace-count homogeneity of matching: contributions to the score accumulator are sums over the traces of the batch (exponent 1, no running state read), _compute returns accumulator / processed_traces (exponent 0)')
    ctx.floor('matching score obligations', d5(ctx, prog), 2)
    # computing the profile (or the scores) must not alter the accumulated state: the ownership analysis of C01-D5
    # instantiated for the template classes (a second build / a build after more traces must see unclamped counters)
    from . import c01
    us, _ = c01.units(prog)
    npure = 0
    for u in us:
        cf_ = prog.resolve_method(u.cls, '_compute')
        if cf_ is None or cf_.mod.name != TPL:
            continue
        u.guard = c01.find_guard(prog, u)
        u.acc = universe.accumulators(prog, u.cls, u.init)
        c01.d5(ctx, prog, u.cls, u.compute, u.acc, u.count, u.guard or '', rule='C14-D6')
        npure += 1
    ign = universe.ignored_init_params(prog, ('scared.analysis.template', 'scared.distinguishers.template'))
    for f_, p_ in ign:
        ctx.fail('C14-D7', f'{f_.key}::{p_}', f'the constructor accepts `{p_}` and never uses it: the value the caller (or the owning attack) passes is silently replaced by the default '
                 f'(e.g. a template built in float32 for a float64 attack)', f_.where())
    if not ign:
        ctx.ok('C14-D7', f'{ATPL}::constructor arguments', 'every constructor argument of the template classes is used / forwarded')
    ctx.rule('C14-D7', 'no constructor of the template classes accepts an argument it never reads (configuration such as precision must reach the build analysis)')
    ctx.rule('C14-D6', 'the compute closure of every template class (build and matching) has no persistent effect on accumulated state (ownership analysis): profiles can be rebuilt / scores re-read')
    ctx.floor('template classes checked for compute purity', npure, 3)
    # C14-D8: the matched-trace mean only counts accepted batches - the C16 analysis instantiated for the template classes
    ctx.rule('C14-D8', 'a matching / building batch that is refused (explicit raise reachable from update) leaves no partial contribution in the scores or the class sums (C16 analysis over the template classes)')
    from . import c16
    _allc, _concrete = universe.distinguisher_classes(prog)
    tcls = [c_ for c_ in _concrete if any(k_.mod.name == 'scared.distinguishers.template' for k_ in prog.mro(c_))]
    ctx.floor('template classes checked for refusal without residue', len(tcls), 2)
    ctx.floor('raise sites reachable from the template updates', c16.rejection_clause(ctx, prog, tcls, 'C14-D8'), 4)
    ctx.floor('template row selections', n3, 2)
    ctx.floor('axis obligations (template)', n4, 20)
