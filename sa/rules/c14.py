"""C14 - templates: build before match, profile hand-over, row selection by class position, layouts.

D1 typestate        matching refuses to initialise before build: the first statement of the matcher's _initialize tests
                    is_build and raises; build() sets is_build = True as its last store, after copying the profile;
                    construction sets it False.
D2 hand-over        the profile attributes the matcher reads are exactly those build() copies from the build analysis,
                    name for name (templates <- results), and the build side produces each of them.
D3 row selection    template rows are selected by class position (the C12 index-kind rule).
D4 axis typing      labels in template build kernels/_compute and matching _update/_compute.
"""
import ast

from .. import axes, astutil, kernels, lut, universe
from ..model import norm, AnalysisError, self_attr
from . import c12

TPL = 'scared.distinguishers.template'
ATPL = 'scared.analysis.template'
PROFILE = ('templates', 'pooled_covariance', 'pooled_covariance_inv', 'partitions')


def d1(ctx, prog):
    m = prog.need_class(TPL, '_BaseTemplateAttackDistinguisherMixin')
    init = m.methods.get('_initialize')
    if init is None:
        raise AnalysisError('matcher _initialize not found')
    body = [s for s in init.node.body if not (isinstance(s, ast.Expr) and isinstance(s.value, ast.Constant))]
    first = body[0] if body else None
    from .c15 import ceval, Undecidable
    key_ = f'{init.key}::refuse before build'
    if isinstance(first, ast.If) and any(isinstance(b, ast.Raise) for b in first.body) and astutil.self_attrs_read(first.test) == {'is_build'}:
        try:
            t_false, t_true = bool(ceval(first.test, {'self.is_build': False})), bool(ceval(first.test, {'self.is_build': True}))
            ctx.check(t_false and not t_true, 'C14-D1', key_, f'`{norm(first.test)}` does not refuse exactly when is_build is false', 'first statement refuses matching before build', init.where())
        except Undecidable as e_:
            ctx.undecided('C14-D1', key_, f'refusal test not evaluable: {e_}', init.where())
    else:
        raises_on_flag = [n_ for n_ in ast.walk(init.node) if isinstance(n_, ast.If) and any(isinstance(b, ast.Raise) for b in n_.body) and 'is_build' in astutil.self_attrs_read(n_.test)]
        if raises_on_flag:
            ctx.fail('C14-D1', key_, 'the matcher\'s _initialize tests is_build only after other statements: the profile is read (or state is set up) before the refusal', init.where())
        else:
            ctx.fail('C14-D1', key_, 'the matcher\'s _initialize never refuses (raise) when is_build is false: matching could run on missing/None templates', init.where())
    a = prog.need_class(ATPL, 'BaseTemplateAttack')
    build = a.methods.get('build')
    if build is None:
        raise AnalysisError('BaseTemplateAttack.build not found')
    from .. import normalize
    build = normalize.normal(prog, build)
    sts = [s for s in build.node.body if isinstance(s, ast.Assign) and self_attr(s.targets[0])]
    last = build.node.body[-1]
    is_last = isinstance(last, ast.Assign) and self_attr(last.targets[0]) == 'is_build' and isinstance(last.value, ast.Constant) and last.value.value is True
    copied = [self_attr(s.targets[0]) for s in sts if self_attr(s.targets[0]) != 'is_build']
    n_flag = sum(1 for s in ast.walk(build.node) if isinstance(s, ast.Assign) and self_attr(s.targets[0]) == 'is_build')
    is_last = is_last and n_flag == 1
    ctx.check(is_last and set(PROFILE) <= set(copied), 'C14-D1', f'{build.key}::is_build last',
              f'build() does not set is_build = True as its last statement after copying {PROFILE} (copied: {copied})',
              'is_build = True is the last store of build(), after the profile copies', build.where(last))
    runs = [i for i, s in enumerate(build.node.body) if any(isinstance(c, ast.Call) and norm(c.func) == 'self._build_analysis.run' for c in ast.walk(s))]
    first_copy = min((i for i, s in enumerate(build.node.body) if isinstance(s, ast.Assign) and self_attr(s.targets[0]) in PROFILE), default=None)
    ctx.check(bool(runs) and first_copy is not None and runs[0] < first_copy, 'C14-D1', f'{build.key}::run before copy',
              'the profile is copied before (or without) running the build analysis', 'build analysis runs before the profile is copied', build.where())
    inits = [s for f in a.methods.values() for s in ast.walk(f.node) if isinstance(s, ast.Assign) and self_attr(s.targets[0]) == 'is_build'
             and f.name != 'build']
    ctx.check(bool(inits) and all(isinstance(s.value, ast.Constant) and s.value.value is False for s in inits), 'C14-D1',
              f'{a.key}::is_build initial', 'is_build is not initialised to False at construction', 'is_build starts False', a.mod.relpath)
    return build


def d2(ctx, prog, build):
    copies = {}
    for s in build.node.body:
        if isinstance(s, ast.Assign) and self_attr(s.targets[0]) in PROFILE:
            v = s.value
            src = v.attr if isinstance(v, ast.Attribute) and norm(v.value) == 'self._build_analysis' else None
            copies[self_attr(s.targets[0])] = (src, s)
    # attributes produced by the build analysis
    ba = prog.need_class(ATPL, '_TemplateBuildAnalysis')
    produced = {'results', 'partitions'}
    for c in prog.mro(ba):
        for f in c.methods.values():
            for t, st, how in kernels.stores(f.node):
                if isinstance(t, ast.Attribute) and norm(t.value) == 'self':
                    produced.add(t.attr)
    for x in PROFILE:
        key = f'{build.key}::self.{x}'
        if x not in copies:
            ctx.fail('C14-D2', key, f'build() does not hand over `{x}` to the matcher', build.where())
            continue
        src, st = copies[x]
        want = 'results' if x == 'templates' else x
        ctx.check(src == want, 'C14-D2', key, f'`{x}` is copied from `{norm(st.value)}`, expected self._build_analysis.{want} (wrong profile quantity handed to the matcher)',
                  f'`{x}` <- _build_analysis.{want}', build.where(st))
        ctx.check(src in produced, 'C14-D2', key + ' produced', f'the build analysis never produces `{src}`', f'`{src}` is produced by the build side', build.where(st))
    # the build _compute: returns the templates, stores both covariance attributes
    bc = prog.resolve_method(ba, '_compute')
    st_attrs = {self_attr(t) for t, st, how in kernels.stores(bc.node) if self_attr(t)}
    ctx.check({'pooled_covariance', 'pooled_covariance_inv'} <= st_attrs, 'C14-D2', f'{bc.key}::covariances', 'the build _compute does not store both pooled covariance attributes',
              'build _compute stores pooled_covariance and its pseudo-inverse', bc.where())
    inv = [s for s in ast.walk(bc.node) if isinstance(s, ast.Assign) and self_attr(s.targets[0]) == 'pooled_covariance_inv' and isinstance(s.value, ast.Call)
           and norm(s.value.func).split('.')[-1] in ('pinv', 'inv', 'solve', 'lstsq')]
    plain = [s for s in inv if norm(s.value.func).split('.')[-1] != 'pinv']
    if plain:
        ctx.fail('C14-D2', f'{bc.key}::inverse of', f'`{norm(plain[0])[:70]}`: the matcher needs the pseudo-inverse of the pooled covariance; a plain inverse of a rank-deficient covariance '
                 f'(constant or dependent samples, fewer traces than samples) is a huge meaningless matrix and does not raise', bc.where(plain[0]))
    else:
        def is_cov(a):
            # the attribute, or a local whose only plain binding is the attribute (augmented assignments act in place on the shared array)
            if norm(a) == 'self.pooled_covariance':
                return True
            if isinstance(a, ast.Name):
                binds = [x for x in ast.walk(bc.node) if isinstance(x, ast.Assign) and any(isinstance(t, ast.Name) and t.id == a.id for t in x.targets)]
                return len(binds) == 1 and norm(binds[0].value) == 'self.pooled_covariance'
            return False
        ctx.check(bool(inv) and all(s.value.args and is_cov(s.value.args[0]) for s in inv), 'C14-D2', f'{bc.key}::inverse of',
                  'pooled_covariance_inv is not the pseudo-inverse of self.pooled_covariance', 'pooled_covariance_inv = pinv(pooled_covariance)', bc.where())
    # what the matcher reads
    m = prog.need_class(TPL, '_BaseTemplateAttackDistinguisherMixin')
    reads = set()
    for c in prog.subclasses_of(m):
        for f in c.methods.values():
            if f.mod.name == TPL:
                reads |= astutil.self_attrs_read(f.node) & {'templates', 'pooled_covariance', 'pooled_covariance_inv', 'partitions', 'results'}
    ctx.check(reads <= set(copies), 'C14-D2', f'{m.key}::profile reads', f'the matcher reads {sorted(reads - set(copies))}, which build() never hands over',
              f'matcher reads {sorted(reads)}: all handed over by build()', m.mod.relpath)


def d5(ctx, prog):
    """the matching score is a sum over the matched traces, normalised once by their number: every contribution to the
    score accumulator scales linearly with the batch (trace-count exponent 1, no trace axis left, reads no running state), and
    the value returned by _compute combines the accumulator with processed_traces to exponent 0 (a mean over the traces)."""
    from .. import nexp
    m = prog.need_class(TPL, '_BaseTemplateAttackDistinguisherMixin')
    upd, comp, init = m.methods.get('_update'), m.methods.get('_compute'), m.methods.get('_initialize')
    if upd is None or comp is None or init is None:
        raise AnalysisError('matcher _update/_compute/_initialize not found')
    accs = [self_attr(s.targets[0]) for s in ast.walk(init.node) if isinstance(s, ast.Assign) and self_attr(s.targets[0]) and isinstance(s.value, ast.Call)
            and norm(s.value.func).split('.')[-1] == 'zeros']
    if not accs:
        raise AnalysisError('matcher score accumulator not found')
    from .. import normalize
    upd = normalize.normal(prog, upd, skip={'get_template_index', '_get_dimension'})
    x = nexp.NExp(upd, {upd.params[1]: (True, 0), upd.params[2]: (True, 0)}).run()
    n = 0
    written = {a for a, v, st, how in x.contrib}
    for a, v, st, how in x.contrib:
        if a not in accs:
            continue
        n += 1
        key = f'{upd.key}::{norm(st)[:80]}'
        reads = astutil.self_attrs_read(st.value) & (set(accs) | {'processed_traces'} | (written - set(accs)))
        if how != 'Add':
            ctx.fail('C14-D5', key, f'the score accumulator is written with `{how}`, not accumulated with +=', upd.where(st))
        elif reads:
            ctx.fail('C14-D5', key, f'the contribution reads running state {sorted(reads)}: the score is not a plain sum over the matched traces (it depends on how they were batched)', upd.where(st))
        elif v is nexp.TOP:
            ctx.undecided('C14-D5', key, 'how the contribution scales with the number of traces of the batch could not be derived', upd.where(st))
        elif v[0] is True:
            ctx.fail('C14-D5', key, 'the contribution still has one entry per trace: it is not reduced over the traces of the batch', upd.where(st))
        else:
            ctx.check(v[1] == 1, 'C14-D5', key, f'the contribution scales with (number of traces in the batch)^{v[1]}: with exponent 0 every batch weighs the same whatever its size '
                      f'(mean of batch means), the score is not the mean over all matched traces', 'contribution = sum over the traces of the batch (exponent 1)', upd.where(st), exponent=v[1])
    y = nexp.NExp(comp, {}, attrs={a: (False, 1) for a in accs} | {'processed_traces': (False, 1)}).run()
    for v, st in y.returns:
        n += 1
        key = f'{comp.key}::{norm(st)[:80]}'
        used = astutil.self_attrs_read(st.value)
        if not (set(accs) & used):
            ctx.fail('C14-D5', key, 'the returned score does not use the score accumulator', comp.where(st))
        elif v is nexp.TOP:
            # `10 - acc / n`: a constant minus an exponent-0 value; evaluate the non-constant part
            inner = st.value
            while isinstance(inner, ast.BinOp) and isinstance(inner.op, (ast.Add, ast.Sub)) and (isinstance(inner.left, ast.Constant) or isinstance(inner.right, ast.Constant)):
                inner = inner.right if isinstance(inner.left, ast.Constant) else inner.left
            v2 = y.ev(inner)
            if v2 is nexp.TOP:
                ctx.undecided('C14-D5', key, 'normalisation of the returned score not derivable', comp.where(st))
            else:
                ctx.check(v2[1] == 0, 'C14-D5', key, f'the returned score scales with (number of matched traces)^{v2[1]}: it is not the mean over the matched traces',
                          'score accumulator / processed_traces: the mean over the matched traces', comp.where(st))
        else:
            ctx.check(v[1] == 0, 'C14-D5', key, f'the returned score scales with (number of matched traces)^{v[1]}: it is not the mean over the matched traces',
                      'score accumulator / processed_traces: the mean over the matched traces', comp.where(st))
    return n


class _TplEval:
    """scalar-sample abstraction of the template code (sa.ratfun): with one sample per trace every matrix is a scalar, `outer` /
    `dot` / `@` are products and the pseudo-inverse is the reciprocal; per-class arrays are lists of K rational functions, the
    traces of a batch a list of symbolic traces.  Loops over the classes / hypotheses are unrolled."""

    def __init__(self, ratfun, K, seeds, vectors, iter_counts):
        self.rf, self.K = ratfun, K
        self.ev_ = ratfun.VecEval(seeds, vectors, K)
        self.attrs = {}
        self.iter_counts = iter_counts      # normalised iterable text -> number of iterations

    def value(self, e):
        rf = self.rf
        if isinstance(e, ast.Attribute) and norm(e) in self.attrs:
            return self.attrs[norm(e)]
        if norm(e) in self.ev_.seeds and not norm(e).startswith('$'):
            v = self.ev_.seeds[norm(e)]
            return v if isinstance(v, (rf.RF, list)) else rf.RF(rf.Poly.sym(v))
        if isinstance(e, ast.Name) and e.id in self.ev_.env:
            return self.ev_.env[e.id]
        if isinstance(e, ast.List) and not e.elts:
            return []
        if isinstance(e, ast.Constant) and e.value is None:
            return None
        if isinstance(e, ast.Compare):
            return 'MASK'          # a mask of degenerate classes: only used to repair them / to warn
        if isinstance(e, ast.Subscript):
            base = self.value(e.value)
            idx = e.slice
            if isinstance(base, list) and isinstance(idx, ast.Name) and isinstance(self.ev_.env.get(idx.id), int):
                return base[self.ev_.env[idx.id]]
            if isinstance(base, list) and isinstance(idx, ast.Constant) and isinstance(idx.value, int):
                return base[idx.value]
            return base
        if isinstance(e, ast.Call):
            name = norm(e.func).split('.')[-1]
            if name in ('zeros', 'empty', 'zeros_like', 'empty_like'):
                return rf.RF(rf.Poly.const(0))
            if name in ('outer', 'dot', 'matmul', 'multiply') and len(e.args) == 2:
                return self.ev_.lift(lambda x, y: x.mul(y), self.value(e.args[0]), self.value(e.args[1]))
            if name == 'where' and len(e.args) == 3 and self.value(e.args[0]) == 'MASK':
                return self.value(e.args[2])          # repair of the degenerate classes: the generic classes keep their value
            if name in ('pinv', 'inv') and len(e.args) == 1:
                v = self.value(e.args[0])
                return rf.RF(rf.Poly.const(1)).mul(v, -1)
            if name in ('copy', 'asarray', 'array', 'ascontiguousarray') and e.args:
                v = self.value(e.args[0])
                return v[0] if isinstance(v, list) and len(v) == 1 and name == 'array' and isinstance(e.args[0], ast.Name) and e.args[0].id in self.pylists else v
            if isinstance(e.func, ast.Attribute) and name in ('astype', 'copy', 'swapaxes', 'transpose', 'reshape') :
                return self.value(e.func.value)
            if name == 'sum' and isinstance(e.func, ast.Attribute) and norm(e.func.value) not in ('_np', 'np', 'numpy'):
                v = self.value(e.func.value)
                if isinstance(v, list):
                    out = v[0]
                    for x in v[1:]:
                        out = out.add(x)
                    return out
                return v
            if name == 'len' and e.args and norm(e.args[0]) in self.iter_counts:
                return rf.RF(rf.Poly.const(self.iter_counts[norm(e.args[0])]))
            if name == 'len' and len(e.args) == 1:
                try:
                    v = self.value(e.args[0])
                except rf.Unknown:
                    v = None
                if isinstance(v, list):
                    return rf.RF(rf.Poly.const(len(v)))
            if name == 'count_nonzero' and len(e.args) == 1 and not e.keywords:
                # a number read off the accumulated state (how many classes / entries are populated): it is not a constant of the
                # configuration, so it is a symbol of its own - a formula that divides by it is not the definition's
                return rf.RF(rf.Poly.sym('nonzero_' + ''.join(ch if ch.isalnum() else '_' for ch in norm(e.args[0]))[:40]))
            if name in ('max', 'min', 'maximum', 'minimum') and len(e.args) == 2 and isinstance(e.func, (ast.Name, ast.Attribute)):
                vs = [self.value(a) for a in e.args]
                if all(isinstance(v, rf.RF) for v in vs):
                    if vs[0].num * vs[1].den == vs[1].num * vs[0].den:
                        return vs[0]
                    return rf.RF(rf.Poly.sym(name + '_' + ''.join(ch if ch.isalnum() else '_' for ch in norm(e))[:50]))
        if isinstance(e, ast.BinOp):
            l, r = self.value(e.left), self.value(e.right)
            if isinstance(e.op, ast.Pow):
                from ..model import const_value
                k = const_value(e.right)
                if isinstance(k, int) and 0 <= k <= 4:
                    def pw(x):
                        out = rf.RF(rf.Poly.const(1))
                        for _ in range(k):
                            out = out.mul(x)
                        return out
                    return [pw(x) for x in l] if isinstance(l, list) else pw(l)
                raise rf.Unknown('power')
            ops = {ast.Mult: lambda x, y: x.mul(y), ast.MatMult: lambda x, y: x.mul(y), ast.Div: lambda x, y: x.mul(y, -1), ast.Add: lambda x, y: x.add(y), ast.Sub: lambda x, y: x.add(y, -1)}
            if type(e.op) in ops:
                return self.ev_.lift(ops[type(e.op)], l, r)
        # fall back on the generic vector evaluator (seeds, constants, unary minus ...) with our attribute / local values visible
        saved = dict(self.ev_.seeds)
        try:
            for k_, v_ in self.attrs.items():
                self.ev_.seeds[k_] = v_
            return self.ev_.ev(e)
        finally:
            self.ev_.seeds = saved

    pylists = ()

    def run(self, fnode):
        rf = self.rf
        outs = []
        self.pylists = set()
        alias, arrays = {}, set()

        def block(stmts):
            for st in stmts:
                if isinstance(st, ast.Expr):
                    c = st.value
                    if isinstance(c, ast.Call) and isinstance(c.func, ast.Attribute) and c.func.attr == 'append' and isinstance(c.func.value, ast.Name) and c.func.value.id in self.pylists:
                        self.ev_.env[c.func.value.id] = self.ev_.env[c.func.value.id] + [self.value(c.args[0])]
                    continue
                if isinstance(st, ast.Assign) and len(st.targets) == 1:
                    t = st.targets[0]
                    if isinstance(t, ast.Subscript):
                        continue              # masked repair of degenerate classes: no effect on classes with at least two traces
                    v = self.value(st.value)
                    if isinstance(t, ast.Name):
                        self.ev_.env[t.id] = v
                        alias.pop(t.id, None)
                        if isinstance(st.value, ast.Attribute) and norm(st.value) in arrays:
                            alias[t.id] = norm(st.value)        # a second name for the same array: `name op= v` changes the attribute too
                        if isinstance(st.value, ast.List) and not st.value.elts:
                            self.pylists.add(t.id)
                    elif isinstance(t, ast.Attribute):
                        self.attrs[norm(t)] = v
                        for a_ in [a_ for a_, tgt_ in alias.items() if tgt_ == norm(t)]:
                            del alias[a_]
                        if isinstance(st.value, ast.Call) and norm(st.value.func).split('.')[-1] in ('zeros', 'empty', 'zeros_like', 'empty_like', 'ones'):
                            arrays.add(norm(t))
                        else:
                            arrays.discard(norm(t))
                    continue
                if isinstance(st, ast.AugAssign):
                    t = st.target
                    cur = self.value(t)
                    v = self.value(st.value)
                    ops = {ast.Mult: lambda x, y: x.mul(y), ast.Div: lambda x, y: x.mul(y, -1), ast.Add: lambda x, y: x.add(y), ast.Sub: lambda x, y: x.add(y, -1)}
                    if type(st.op) not in ops:
                        raise rf.Unknown('augmented operator')
                    new = self.ev_.lift(ops[type(st.op)], cur, v)
                    if isinstance(t, ast.Name):
                        self.ev_.env[t.id] = new
                        if t.id in alias:
                            self.attrs[alias[t.id]] = new          # in place on the shared array
                    elif isinstance(t, ast.Attribute):
                        self.attrs[norm(t)] = new
                        for a_, tgt_ in alias.items():
                            if tgt_ == norm(t):
                                self.ev_.env[a_] = new
                    else:
                        raise rf.Unknown('augmented store into an element')
                    continue
                if isinstance(st, ast.For):
                    it, tg = st.iter, st.target
                    src = it
                    idx_t = None
                    if isinstance(it, ast.Call) and norm(it.func) == 'enumerate' and it.args and isinstance(tg, ast.Tuple) and len(tg.elts) == 2:
                        src, idx_t = it.args[0], tg.elts[0]
                    elif isinstance(it, ast.Call) and norm(it.func) == 'range' and len(it.args) == 1 and isinstance(tg, ast.Name):
                        a = it.args[0]
                        src = a.args[0] if isinstance(a, ast.Call) and norm(a.func) == 'len' and a.args else a
                        idx_t = tg
                    cnt = self.iter_counts.get(norm(src))
                    if cnt is None:
                        v = None
                        try:
                            v = self.value(src)
                        except rf.Unknown:
                            pass
                        cnt = len(v) if isinstance(v, list) else None
                        if cnt is None and isinstance(v, rf.RF):       # a local holding len(<classes>)
                            for c_ in range(0, 9):
                                if v.num == rf.Poly.const(c_) * v.den:
                                    cnt = c_
                    if cnt is None or idx_t is None or not isinstance(idx_t, ast.Name):
                        raise rf.Unknown(f'loop over `{norm(it)[:40]}`')
                    for k in range(cnt):
                        self.ev_.env[idx_t.id] = k
                        block(st.body)
                    continue
                if isinstance(st, ast.If):
                    continue          # warnings about degenerate classes
                if isinstance(st, ast.Return) and st.value is not None:
                    outs.append(self.value(st.value))
                    continue
                raise rf.Unknown(f'statement `{norm(st)[:40]}`')
        block(fnode.body)
        return outs


def d9(ctx, prog):
    """templates, pooled covariance and matching score as rational functions (one sample per trace, three symbolic classes with at
    least two traces each, two symbolic matching traces):
       template_k = e_k / c_k          pooled = (1/K) sum_k (xx_k - c_k template_k^2) / (c_k - 1)          inverse = pinv(pooled)
       batch contribution of a hypothesis = sum_j (x_j - t) cinv (x_j - t) / S          score = 10 - accumulated / n
    each compared with what the code computes by cross-multiplication of polynomial normal forms."""
    from .. import ratfun as rf
    Poly, RF = rf.Poly, rf.RF
    K = 3
    n = 0
    one = Poly.const(1)
    build = prog.need_class(TPL, '_TemplateBuildDistinguisherMixin')
    f = build.methods.get('_compute')
    key = f'{f.key}::formulas'

    def same(a, b):
        return a.num * b.den == b.num * a.den
    try:
        ev = _TplEval(rf, K, {'self._trace_length': RF(one)}, {'self._counters': [f'c{k}' for k in range(K)], 'self._exi': [f'e{k}' for k in range(K)], 'self._exxi': [f'x{k}' for k in range(K)]},
                      {'self.partitions': K})
        outs = ev.run(f.node)
        c, e, x = ([Poly.sym(f'{s_}{k}') for k in range(K)] for s_ in 'cex')
        want_t = [RF(e[k], c[k]) for k in range(K)]
        covs = [RF(x[k]).add(RF(c[k]).mul(want_t[k]).mul(want_t[k]), -1).mul(RF(c[k] - one), -1) for k in range(K)]
        want_p = covs[0].add(covs[1]).add(covs[2]).mul(RF(Poly.const(K)), -1)
        n += 1
        got_t = outs[0] if outs else None
        ok_t = isinstance(got_t, list) and len(got_t) == K and all(same(got_t[k], want_t[k]) for k in range(K))
        ctx.check(ok_t, 'C14-D9', f'{key} templates', 'what the build returns as templates is not the class sum divided by the class count (the mean of the building traces of each class)',
                  'template_k = sum of the traces of class k / number of traces of class k', f.where())
        n += 1
        got_p = ev.attrs.get('self.pooled_covariance')
        ctx.check(isinstance(got_p, RF) and same(got_p, want_p), 'C14-D9', f'{key} pooled covariance',
                  'self.pooled_covariance is not the average over the declared classes of the unbiased within-class covariances (xx_k - c_k m_k m_k^T) / (c_k - 1)',
                  'pooled covariance = (1/K) sum_k (xx_k - c_k m_k m_k^T) / (c_k - 1)', f.where())
        n += 1
        got_i = ev.attrs.get('self.pooled_covariance_inv')
        ctx.check(isinstance(got_i, RF) and same(got_i, RF(one).mul(want_p, -1)), 'C14-D9', f'{key} inverse', 'self.pooled_covariance_inv is not the (pseudo-)inverse of the final pooled covariance',
                  'inverse taken of the final pooled covariance', f.where())
    except rf.Unknown as ex:
        ctx.undecided('C14-D9', key, f'formulas not derivable: {ex}', f.where())
    match = prog.need_class(TPL, '_BaseTemplateAttackDistinguisherMixin')
    upd, comp = match.methods.get('_update'), match.methods.get('_compute')
    key = f'{upd.key}::score contribution'
    try:
        from .. import normalize
        updn = normalize.normal(prog, upd, skip={'get_template_index', '_get_dimension'})
        tp = [p_ for p_ in upd.params if p_ != 'self'][0]
        ev = _TplEval(rf, 2, {'self.pooled_covariance_inv': 'cinv', f'{tp}.shape[1]': 'S', f'{tp}.shape[0]': 'NT', f'len({tp})': 'NT', 'self.templates': 't', 'self._scores': 'acc'}, {tp: ['x0', 'x1']}, {})
        # one hypothesis: the loop over the candidates runs once
        for lp in ast.walk(updn.node):
            if isinstance(lp, ast.For) and isinstance(lp.iter, ast.Call) and norm(lp.iter.func) == 'range' and lp.iter.args:
                a = lp.iter.args[0]
                ev.iter_counts[norm(a.args[0]) if isinstance(a, ast.Call) and norm(a.func) == 'len' and a.args else norm(a)] = 1
        ev.run(updn.node)
        got = ev.attrs.get('self._scores')
        t, cinv, S = Poly.sym('t'), Poly.sym('cinv'), Poly.sym('S')
        d0, d1 = Poly.sym('x0') - t, Poly.sym('x1') - t
        want = RF((d0 * d0 + d1 * d1) * cinv, S)
        n += 1
        base0 = RF(Poly.sym('self._scores')) if False else None
        # the accumulator itself is a symbol: got = self._scores + contribution
        ok = isinstance(got, RF) and same(got.add(RF(Poly.sym('acc')), -1), want)
        ctx.check(ok, 'C14-D9', key, 'the contribution of a batch to a candidate\'s score is not sum_j (x_j - t) C^-1 (x_j - t)^T divided by the number of samples',
                  'contribution = sum over the traces of the squared Mahalanobis distance to the candidate template / number of samples', upd.where())
    except rf.Unknown as ex:
        ctx.undecided('C14-D9', key, f'formula not derivable: {ex}', upd.where())
    key = f'{comp.key}::score'
    try:
        outs = rf.run_function(comp.node, {'self._scores': 'acc', 'self.processed_traces': 'n'})
        want = RF(Poly.const(10) * Poly.sym('n') - Poly.sym('acc'), Poly.sym('n'))
        n += 1
        ctx.check(bool(outs) and all(same(v, want) for v, st_ in outs), 'C14-D9', key, 'the score returned is not 10 minus the accumulated distance divided by the number of matched traces',
                  'score = 10 - accumulated / n', comp.where())
    except rf.Unknown as ex:
        ctx.undecided('C14-D9', key, f'formula not derivable: {ex}', comp.where())
    return n


def run(ctx, prog):
    from .. import universe as _uni0
    _uni0.inline_base_entry_points(ctx, prog)
    ctx.rule('C14-D1', 'matcher refuses before build (first statement); build() sets is_build last, after running the build analysis and copying the profile; starts False')
    ctx.rule('C14-D2', 'profile hand-over: matcher reads exactly what build() copies, name for name (templates <- results); build side produces each')
    ctx.rule('C14-D3', 'template rows selected by class position (index-kind rule shared with C12-D2)')
    ctx.rule('C14-D4', 'axis-label typing of template build kernels/_compute and matching _update')
    ctx.assume('mean / covariance / Mahalanobis values (n vs n-1, pooling weights, the constant 10) are numeric and not decided')
    build = d1(ctx, prog)
    d2(ctx, prog, build)
    lk = lut.Lookup(prog)
    sub = type(ctx)(ctx.prop, ctx.tier, ctx.seed)
    n3 = c12.d2_templates(sub, prog, lk)
    for o in sub.obs:
        o.rule = 'C14-D3'
        ctx._add(o)
    n4 = axes.check_family(ctx, prog, 'C14-D4', [TPL])
    ctx.rule('C14-D5', 'trace-count homogeneity of matching: contributions to the score accumulator are sums over the traces of the batch (exponent 1, no running state read), _compute returns accumulator / processed_traces (exponent 0)')
    ctx.floor('matching score obligations', d5(ctx, prog), 2)
    # computing the profile (or the scores) must not alter the accumulated state: the ownership analysis of C01-D5
    # instantiated for the template classes (a second build / a build after more traces must see unclamped counters)
    from . import c01
    us, _ = c01.units(prog)
    npure = 0
    for u in us:
        cf_ = prog.resolve_method(u.cls, '_compute')
        if cf_ is None or cf_.mod.name != TPL:
            continue
        u.guard = c01.find_guard(prog, u)
        u.acc = universe.accumulators(prog, u.cls, u.init)
        c01.d5(ctx, prog, u.cls, u.compute, u.acc, u.count, u.guard or '', rule='C14-D6')
        npure += 1
    ign = universe.ignored_init_params(prog, ('scared.analysis.template', 'scared.distinguishers.template'))
    for f_, p_ in ign:
        ctx.fail('C14-D7', f'{f_.key}::{p_}', f'the constructor accepts `{p_}` and never uses it: the value the caller (or the owning attack) passes is silently replaced by the default '
                 f'(e.g. a template built in float32 for a float64 attack)', f_.where())
    if not ign:
        ctx.ok('C14-D7', f'{ATPL}::constructor arguments', 'every constructor argument of the template classes is used / forwarded')
    ctx.rule('C14-D7', 'no constructor of the template classes accepts an argument it never reads (configuration such as precision must reach the build analysis)')
    ctx.rule('C14-D6', 'the compute closure of every template class (build and matching) has no persistent effect on accumulated state (ownership analysis): profiles can be rebuilt / scores re-read')
    ctx.floor('template classes checked for compute purity', npure, 3)
    ctx.rule('C14-D10', 'template build kernels: class counters receive one increment per trace (literal 1 under a `sample == 0` pin, or an equality-mask sum), class membership by equality with the class position, sentinel guarded')
    from .. import kernelrules as _kr
    from .c11 import emit as _emit
    _lk = lut.Lookup(prog)
    n10 = 0
    for f_, kind_, call_ in kernels.numba_funcs(prog):
        if f_.mod.name != TPL or kind_ != 'njit' or not f_.name.startswith('_accumulate_core'):
            continue
        cps = [p_ for p_ in f_.params if 'counter' in p_]
        res_ = _kr.count_discipline(prog, f_, cps) + _kr.membership_comparisons(prog, f_, _lk.maybe_params(f_)) + _kr.sentinel_discipline(prog, f_, _lk.maybe_params(f_))[0]
        n10 += len(res_)
        _emit(ctx, 'C14-D10', res_)
    ctx.floor('template kernel counter / membership obligations', n10, 3)
    ctx.rule('C14-D9', 'rational-function normal forms under the one-sample abstraction: class means, pooled unbiased covariance averaged over the declared classes, its inverse, the Mahalanobis contribution per batch and the score 10 - accumulated / n')
    ctx.floor('template formulas compared with their definitions', d9(ctx, prog), 5)
    ctx.rule('C14-D11', 'the class sums and the sums of outer products are taken of the samples converted to the working precision: no product / power / reduction of raw (narrow integer) samples in the template build kernels (a product evaluated in the trace dtype wraps around, the pooled covariance is then not a covariance)')
    from .. import kernelrules as _kr14
    from .c11 import emit as _emit14
    n11 = 0
    for f_, kind_, call_ in kernels.numba_funcs(prog):
        if f_.mod.name != TPL or kind_ != 'njit' or not f_.name.startswith('_accumulate_core'):
            continue
        res_, prec_ = _kr14.precision_taint(prog, f_)
        if prec_:
            n11 += 1
            if not res_:
                ctx.ok('C14-D11', f'{f_.key}::precision `{prec_}`', 'no arithmetic on raw samples')
            _emit14(ctx, 'C14-D11', res_)
    ctx.floor('template build kernels under precision discipline', n11, 2)
    # C14-D8: the matched-trace mean only counts accepted batches - the C16 analysis instantiated for the template classes
    ctx.rule('C14-D8', 'a matching / building batch that is refused (explicit raise reachable from update) leaves no partial contribution in the scores or the class sums (C16 analysis over the template classes)')
    from . import c16
    _allc, _concrete = universe.distinguisher_classes(prog)
    tcls = [c_ for c_ in _concrete if any(k_.mod.name == 'scared.distinguishers.template' for k_ in prog.mro(c_))]
    ctx.floor('template classes checked for refusal without residue', len(tcls), 2)
    ctx.floor('raise sites reachable from the template updates', c16.rejection_clause(ctx, prog, tcls, 'C14-D8'), 4)
    ctx.floor('template row selections', n3, 2)
    ctx.floor('axis obligations (template)', n4, 20)
    from .. import kernelvalues as _kv
    ctx.floor('kernel value cases interpreted', _kv.clause(ctx, prog, 'C14-D12', ('template',)), 20)
