"""C10 - key schedules: DES = PC-1 / shifts / PC-2 for every round; AES expansion rule table, forward and backward.

D1 DES schedule   bit provenance of every bit of every round key of des.key_schedule equals the key bit selected by
                  PC-2 o rot o PC-1 (=> all keys, all 16 rounds); the literal tables ROUND_KEY_BITS_INDEXES, PC1, PC2 equal the
                  standard; the loop stops after `interrupt_after_round` and the output has 8*(r+1) words.
D2 DES inversion  nb_shift is the cumulative shift schedule; the unknown (255) positions of ci_di are exactly the complement of
                  PC-2's image; PC-2 / rotation / PC-1 are undone with the right index maps.
D3 AES expansion  from _expand_forward the xor-term of each branch equals FIPS-197 5.2 (c mod Nk = 0; Nk = 8 and c mod 4 = 0; else);
                  _expand_backward is the forward rule solved for w[c] under c -> c + Nk (same conditions, Rcon index c/Nk);
                  both base cases copy window column (c - col_in) of the given key.
"""
import ast

from .. import bitprov, tables, astutil
from ..model import norm, AnalysisError, const_value
from spec import fips

D = 'scared.des.base'
A = 'scared.aes.base'


def expected_round_keys():
    out = []
    c, d = list(range(28)), list(range(28, 56))
    for s in fips.SHIFTS:
        c, d = c[s:] + c[:s], d[s:] + d[:s]
        cd = c + d
        out.append([fips.PC1[cd[t - 1]] for t in fips.PC2])      # 1-based key bit for each of the 48 round-key bits
    return out


def bv_schedule(prog, f, target):
    """key_schedule interpreted on one key of 8 provenance bytes: -> {output column: word with .get(bit)} or None when not evaluable"""
    from .. import symtensor, ratfun, bitvec
    np = symtensor.np
    if np is None:
        return None
    key = np.array([bitvec.BV.source('key', i) for i in range(8)], dtype=object)
    te = symtensor.TensorEval(prog, None, {})
    try:
        out = te.run(f, {f.params[0]: key, f.params[1]: target})
    except bitvec.Mix as e:
        raise bitprov.Abort(f'the schedule is not a selection of key bits: {e}')
    except (ratfun.Unknown, symtensor.Raised, IndexError, ValueError, TypeError):
        return None
    if not isinstance(out, np.ndarray) or out.ndim != 2 or out.shape[1] != 8:
        raise bitprov.Abort(f'for one key the schedule returns shape {getattr(out, "shape", None)}, documented (rounds, 8)')
    arr = {}
    for r in range(out.shape[0]):
        for w in range(8):
            try:
                arr[r * 8 + w] = bitvec.BV.lift(out[r, w])
            except bitvec.Mix:
                return None
    return arr


def d1(ctx, prog):
    want = expected_round_keys()
    got, node = tables.literal(prog, D, 'ROUND_KEY_BITS_INDEXES')
    w_idx = [[[p - 1 for p in rk[i * 6:(i + 1) * 6]] for i in range(8)] for rk in want]
    diff = tables.first_diff(got, w_idx)
    ctx.check(diff is None, 'C10-D1', f'{D}::ROUND_KEY_BITS_INDEXES', f'ROUND_KEY_BITS_INDEXES{list(diff[0]) if diff else ""} = {diff[1] if diff else ""}; PC-2 o rot o PC-1 gives {diff[2] if diff else ""} '
              f'(round {diff[0][0] + 1 if diff and diff[0] else "?"})', 'all 16 x 48 indexes equal PC-2 o rot o PC-1', tables.where(prog, D, node), entries=768)
    for name, w in (('PC1', fips.PC1), ('PC2', fips.PC2)):
        g, node = tables.literal(prog, D, name)
        diff = tables.first_diff(list(g), w)
        ctx.check(diff is None, 'C10-D1', f'{D}::{name}', f'{name}{list(diff[0]) if diff else ""} = {diff[1] if diff else ""}; FIPS 46-3 gives {diff[2] if diff else ""}', f'{name} equals FIPS 46-3', tables.where(prog, D, node))
    f = prog.need_func(D, 'key_schedule')

    def skip(st):
        if isinstance(st, ast.Expr):
            return True
        if isinstance(st, ast.If) and (any(isinstance(b, ast.Raise) for b in st.body) or norm(st.test) == 'dimensions'):
            return True
        if isinstance(st, ast.Assign) and isinstance(st.targets[0], ast.Name) and st.targets[0].id in ('dimensions', 'final_shape'):
            return True
        return False
    key = f'{f.key}::bit provenance'
    key_ = f'{f.key}::interrupt'
    try:
        bad = []
        n = 0
        stops = []
        for target in range(15, -1, -1):
            try:
                it = bitprov.Interp(f, consts={'ROUND_KEY_BITS_INDEXES': got}, skip=skip, env={'interrupt_after_round': target}, input_cols=8)
                it.params = {'key'}
                it.run()
                arr = it.arrays.get('output_key')
                if arr is None:
                    raise bitprov.Abort('output array not found')
            except bitprov.Abort as first:
                # vectorised forms (table gathers, broadcast weights, axis sums into views): the function is interpreted on an array
                # of bit-vector provenance cells instead, numpy doing the indexing (sa.bitvec on sa.symtensor)
                arr = bv_schedule(prog, f, target)
                if arr is None:
                    raise first
            written = sorted(arr)
            if written != list(range(8 * (target + 1))):
                stops.append((target, len(written) // 8 if written == list(range(len(written))) else written[:3]))
            for r in range(target + 1):
                for w in range(8):
                    col = r * 8 + w
                    if col not in arr:
                        continue          # reported as an interruption mismatch (the set of written words)
                    word = arr[col]
                    for j in range(6):
                        n += target == 15
                        src = word.get(5 - j)
                        exp = want[r][w * 6 + j]
                        gotpos = bitprov.fips_pos(src[2], src[3], 8) if isinstance(src, tuple) else src
                        if gotpos != exp:
                            bad.append((r, w, j, gotpos, exp, target))
                    if word.get(6) != 0 or word.get(7) != 0:
                        bad.append((r, w, 'high bits', 'set', 0, target))
        if bad:
            r, w, j, g, e, target = bad[0]
            ctx.fail('C10-D1', key, f'round {r + 1}, word {w}, bit {j}' + (f' (interrupt_after_round={target})' if target != 15 else '') +
                     f': comes from key bit {g}; PC-2 o rot o PC-1 selects key bit {e} ({len(bad)} bits differ)', f.where())
        else:
            ctx.ok('C10-D1', key, f'all {n} round-key bits (16 rounds x 48) come from the key bit PC-2 o rot o PC-1 selects - for every key, and for every interruption point the rounds kept', f.where(), bits=n)
        ctx.check(not stops, 'C10-D1', key_, f'with interrupt_after_round = {stops[0][0] if stops else ""} the schedule writes {stops[0][1] if stops else ""} rounds, not rounds 0..{stops[0][0] if stops else ""} '
                  f'({len(stops)} of 16 interruption points differ)', 'for every interrupt_after_round t in 0..15 exactly the round keys 0..t are written', f.where())
    except bitprov.Abort as e:
        ctx.undecided('C10-D1', key, f'provenance analysis aborted: {e}', f.where())
    allocs = [s for s in ast.walk(f.node) if isinstance(s, ast.Assign) and norm(s.targets[0]) == 'output_key']
    ldefs_ = astutil.local_defs(f.node)
    ok = len(allocs) == 1 and isinstance(allocs[0].value, ast.Call) and allocs[0].value.args and isinstance(allocs[0].value.args[0], ast.Tuple) and \
        astutil.affine(astutil.expand_locals(allocs[0].value.args[0].elts[1], ldefs_)) == {'interrupt_after_round': 8, '': 8}
    if ok:
        ctx.ok('C10-D1', f'{f.key}::width', 'output width 8 * (interrupt_after_round + 1)', f.where())
    else:
        # another shape of the allocation (helpers, a local count): the width is read off the interpreted function
        wrong, und_ = [], False
        for target in range(16):
            try:
                a_ = bv_schedule(prog, f, target)
            except bitprov.Abort as e_:
                wrong.append(f'interrupt_after_round={target}: {e_}')
                continue
            if a_ is None:
                und_ = True
                break
            if sorted(a_) != list(range(8 * (target + 1))):
                wrong.append(f'interrupt_after_round={target}: {len(a_)} words returned, not {8 * (target + 1)}')
        if wrong:
            ctx.fail('C10-D1', f'{f.key}::width', f'the output does not have 8 * (interrupt_after_round + 1) words ({wrong[0]})', f.where())
        elif und_:
            ctx.undecided('C10-D1', f'{f.key}::width', 'the allocation of the output is not `(n, 8 * (interrupt_after_round + 1))` and the function is not evaluable on provenance cells', f.where())
        else:
            ctx.ok('C10-D1', f'{f.key}::width', 'for every interrupt_after_round t in 0..15 the interpreted schedule returns 8 * (t + 1) words', f.where())


def d2(ctx, prog):
    """DES key-schedule inversion: _find_possible_keys is partially evaluated (sa.confinterp extended with bit cells: the
    round-key bits are symbols, everything else - tables, shifts, reshapes, rotations, index maps - is constant) for each of the
    16 round indexes; every one of the 64 master-key positions must hold exactly the round-key bit that PC-2 o rot o PC-1 puts
    there, 'unknown' where PC-2 drops the bit, 0 on the parity positions."""
    from .. import confinterp as cf
    f = prog.need_func(D, '_find_possible_keys')
    conv = prog.func(D, '_convert_hypothesis_bits_into_keys')

    class Stop(Exception):
        pass

    class KeyInv(cf.Interp):
        def __init__(self, prog):
            super().__init__(prog)
            self.captured = None
            self.conflicts = []

        def binop(self, op, a, b):
            if isinstance(op, ast.BitAnd) and isinstance(a, cf.Sym) and a.term and a.term[0] == 'index' and isinstance(b, int):
                return ('masked', a.term[2], b)
            return super().binop(op, a, b)

        def compare(self, op, a, b):
            if isinstance(a, tuple) and a and a[0] == 'masked':
                word, mask = a[1], a[2]
                if isinstance(op, ast.NotEq) and b == 0 and mask > 0 and mask & (mask - 1) == 0 and isinstance(word, int):
                    return ('bit', word, mask.bit_length() - 1)
                raise cf.Unknown('comparison of a masked round-key word')
            return super().compare(op, a, b)

        def ev(self, e, env, mod, func, depth):
            if isinstance(e, ast.Compare) and len(e.ops) == 1:
                left = self.ev(e.left, env, mod, func, depth)
                if isinstance(left, tuple) and left and left[0] == 'masked':
                    return self.compare(e.ops[0], left, self.ev(e.comparators[0], env, mod, func, depth))
            return super().ev(e, env, mod, func, depth)

        def stmt(self, st, env, func, depth):
            if isinstance(st, ast.If):
                c = self.ev(st.test, env, func.mod, func, depth)
                if isinstance(c, tuple) and c and c[0] == 'bit':
                    if st.orelse or len(st.body) != 1 or not (isinstance(st.body[0], ast.Assign) and isinstance(st.body[0].targets[0], ast.Subscript)):
                        raise cf.Unknown('data dependent branch is not `if <bit>: cells[i] = 1`')
                    a = st.body[0]
                    v = self.ev(a.value, env, func.mod, func, depth)
                    arr = self.ev(a.targets[0].value, env, func.mod, func, depth)
                    i_ = self.ev(a.targets[0].slice, env, func.mod, func, depth)
                    if v != 1 or not isinstance(arr, list) or not isinstance(i_, int):
                        raise cf.Unknown('data dependent store is not the constant 1 into a cell')
                    if not -len(arr) <= i_ < len(arr):
                        raise cf.Raised('IndexError', st)
                    if arr[i_] != 0:
                        self.conflicts.append((i_, arr[i_], c))
                    arr[i_] = c          # cell = that round-key bit (0 when clear, 1 when set)
                    return
                self.block(st.body if self.truth(c) else st.orelse, env, func, depth)
                return
            return super().stmt(st, env, func, depth)

        def callexpr(self, e, env, mod, func, depth):
            fn = e.func
            d = self.prog.dotted(mod, fn) if isinstance(fn, (ast.Name, ast.Attribute)) else None
            name = (d or '').split('.')[-1]
            if d and d.startswith('numpy') and name in ('array', 'asarray', 'roll', 'zeros', 'copy'):
                args = [self.ev(a, env, mod, func, depth) for a in e.args]
                kws = {k.arg: self.ev(k.value, env, mod, func, depth) for k in e.keywords if k.arg != 'dtype'}
                if name in ('array', 'asarray', 'copy') and isinstance(args[0], list):
                    return cf.TList(args[0])
                if name == 'zeros' and isinstance(args[0], int):
                    return cf.TList([0] * args[0])
                if name == 'roll':
                    a = args[0]
                    sh = kws.get('shift', args[1] if len(args) > 1 else None)
                    ax = kws.get('axis', args[2] if len(args) > 2 else None)
                    if not isinstance(sh, int):
                        raise cf.Unknown('roll shift')
                    if isinstance(a, list) and a and isinstance(a[0], list):
                        if ax not in (1, -1):
                            raise cf.Unknown(f'roll of the two halves along axis {ax}')
                        return cf.TList([cf.TList([row[(i_ - sh) % len(row)] for i_ in range(len(row))]) for row in a])
                    if isinstance(a, list):
                        if ax not in (None, 0, -1):
                            raise cf.Unknown('roll axis')
                        return cf.TList([a[(i_ - sh) % len(a)] for i_ in range(len(a))])
                raise cf.Unknown(f'numpy.{name}')
            if isinstance(fn, ast.Attribute) and fn.attr == 'reshape':
                o = self.ev(fn.value, env, mod, func, depth)
                if isinstance(o, list):
                    dims = [self.ev(a, env, mod, func, depth) for a in e.args]
                    if len(dims) == 1 and isinstance(dims[0], tuple):
                        dims = list(dims[0])
                    flat = []
                    for x in o:
                        flat.extend(x if isinstance(x, list) else [x])
                    if len(dims) == 1 and dims[0] in (len(flat), -1):
                        return cf.TList(flat)
                    if len(dims) == 2 and all(isinstance(x, int) for x in dims) and dims[0] * dims[1] == len(flat):
                        return cf.TList([cf.TList(flat[r * dims[1]:(r + 1) * dims[1]]) for r in range(dims[0])])
                    raise cf.Unknown(f'reshape to {dims}')
            if conv is not None and isinstance(fn, ast.Name) and fn.id == conv.name:
                self.captured = self.ev(e.args[0], env, mod, func, depth)
                raise Stop()
            return super().callexpr(e, env, mod, func, depth)

    cum = []
    t = 0
    for sft in fips.SHIFTS:
        t += sft
        cum.append(t)
    bad = []
    und = None
    for r in range(16):
        it = KeyInv(prog)
        try:
            it.call(f, kwargs={f.params[0]: cf.Sym('round_key'), f.params[1]: r})
            und = 'the candidate bits are never handed to the enumeration of unknown bits'
            break
        except Stop:
            pass
        except cf.Unknown as e:
            und = str(e)
            break
        except cf.Raised as e:
            bad.append(f'round index {r}: refused ({e.kind})')
            continue
        mk = it.captured
        if not isinstance(mk, list) or len(mk) != 64:
            bad.append(f'round index {r}: {len(mk) if isinstance(mk, list) else "no"} key bits handed on, expected 64')
            continue
        want = [0] * 64
        hit = {}
        for j_ in range(48):
            p_ = fips.PC2[j_] - 1
            h, o = divmod(p_, 28)
            i_ = h * 28 + (o + cum[r]) % 28
            hit[i_] = ('bit', j_ // 6, 5 - j_ % 6)
        for i_ in range(56):
            want[fips.PC1[i_] - 1] = hit.get(i_, 255)
        if it.conflicts:
            bad.append(f'round index {r}: round-key bit written over a position marked unknown (C/D position {it.conflicts[0][0]})')
        diff = [k for k in range(64) if mk[k] != want[k]]
        if diff:
            k = diff[0]

            def sh(c):
                return f'round-key word {c[1]} bit {c[2]}' if isinstance(c, tuple) else ('unknown' if c == 255 else str(c))
            bad.append(f'round index {r}: key bit {k + 1} is taken from {sh(mk[k])}; PC-2 o rot o PC-1 puts {sh(want[k])} there ({len(diff)} of 64 positions differ)')
    # the enumeration of the unknown bits: the captured candidate vector of every round index, its known cells set to all-0 / all-1 /
    # alternating values, is handed to the (recursive) enumeration helper under the same interpreter; it must return exactly the
    # 2^u integers that agree with the known cells (cell i = bit 63 - i) - every position is exercised with both values and
    # with 'unknown' wherever PC-2 drops it
    if conv is not None and not und and not bad:
        ekey = f'{conv.key}::enumeration of unknown bits'
        patterns = [lambda i: 0, lambda i: 1, lambda i: i & 1, lambda i: (i >> 1) & 1]
        ebad = []
        eund = None
        ncases = 0
        for r in range(16):
            itr = KeyInv(prog)
            try:
                itr.call(f, kwargs={f.params[0]: cf.Sym('round_key'), f.params[1]: r})
            except Stop:
                pass
            cells = itr.captured
            for pi, pat in enumerate(patterns):
                vec = cf.TList([(c if c in (0, 255) else (pat(i) if isinstance(c, tuple) else c)) for i, c in enumerate(cells)])
                unknown = [i for i, c in enumerate(vec) if c == 255]
                base = sum(1 << (63 - i) for i, c in enumerate(vec) if c == 1)
                want = set()
                for m_ in range(1 << len(unknown)):
                    want.add(base + sum(1 << (63 - unknown[j]) for j in range(len(unknown)) if (m_ >> j) & 1))
                ev_ = cf.Interp(prog, max_depth=80, max_steps=5000000)
                try:
                    got = ev_.call(conv, (vec,), {})
                except cf.Unknown as e:
                    eund = str(e)
                    break
                except cf.Raised as e:
                    ebad.append(f'round index {r}: the enumeration raises {e.kind}')
                    continue
                ncases += 1
                if not isinstance(got, list) or not all(isinstance(x, int) for x in got):
                    eund = 'the enumeration does not return a list of integers'
                    break
                # the candidates are handed back as 8 key bytes each, most significant byte first
                if r == 0 and pi == 0:
                    rets = [n_ for n_ in ast.walk(f.node) if isinstance(n_, ast.Return) and n_.value is not None]
                    calls_ = [n_ for n_ in ast.walk(f.node) if isinstance(n_, ast.Assign) and isinstance(n_.value, ast.Call) and isinstance(n_.value.func, ast.Name) and n_.value.func.id == conv.name
                              and isinstance(n_.targets[0], ast.Name)]
                    if len(rets) == 1 and len(calls_) == 1:
                        rv = rets[0].value
                        inner = rv.args[0] if isinstance(rv, ast.Call) and norm(rv.func).split('.')[-1] in ('array', 'asarray') and rv.args else rv
                        try:
                            rows = cf.Interp(prog, max_steps=2000000).ev(inner, {calls_[0].targets[0].id: cf.TList(got)}, f.mod, f, 0)
                            wantb = [[(g_ >> (8 * (7 - i_))) & 0xFF for i_ in range(8)] for g_ in got]
                            rows = [list(x) for x in rows] if isinstance(rows, list) else None
                            if rows != wantb:
                                first = next((i_ for i_ in range(min(len(rows or []), len(wantb))) if rows[i_] != wantb[i_]), 0)
                                ebad.append(f'the candidate {got[first]:#018x} is handed back as bytes {rows[first] if rows and first < len(rows) else None}, not {wantb[first]} (8 bytes, most significant first)')
                        except cf.Unknown as e:
                            eund = f'byte conversion of the candidates: {e}'
                            break
                        except cf.Raised as e:
                            ebad.append(f'byte conversion of the candidates raises {e.kind}')
                if set(got) != want or len(got) != len(want):
                    miss = sorted(want - set(got))
                    ebad.append(f'round index {r} (known bits pattern {pi}): {len(set(got))} distinct candidates returned for {len(unknown)} unknown bits, expected {len(want)}'
                                + (f'; e.g. {miss[0]:#018x} is missing' if miss else ''))
            if eund:
                break
        if eund:
            ctx.undecided('C10-D2', ekey, f'enumeration not evaluable: {eund}', conv.where())
        elif ebad:
            ctx.fail('C10-D2', ekey, f'{ebad[0]}: the true master key is then not among the candidates for some keys ({len(ebad)} of {ncases} cases differ)', conv.where())
        else:
            ctx.ok('C10-D2', ekey, f'{ncases} candidate vectors (16 round indexes x known-bit patterns): exactly the 2^u completions of the known bits are returned', conv.where(), cases=ncases)
    key = f'{f.key}::inverse schedule'
    if und:
        ctx.undecided('C10-D2', key, f'key inversion not evaluable: {und}', f.where())
    elif bad:
        ctx.fail('C10-D2', key, f'{bad[0]} ({len(bad)} of 16 round indexes wrong)', f.where(), wrong_rounds=len(bad))
    else:
        ctx.ok('C10-D2', key, '16 round indexes x 64 key positions: each holds the round-key bit PC-2 o rot o PC-1 put there, unknown where PC-2 drops it, 0 on parity bits', f.where(), positions=1024)
    # get_master_key hands the round key and its index over unchanged and tries every candidate
    g = prog.need_func(D, 'get_master_key')
    calls = [c for c in ast.walk(g.node) if isinstance(c, ast.Call) and norm(c.func) == f.name]
    ok = len(calls) == 1 and [norm(a) for a in calls[0].args] + [norm(k.value) for k in calls[0].keywords] == g.params[:2]
    ctx.check(ok, 'C10-D2', f'{g.key}::hand-over', 'get_master_key does not pass (round_key, nb_round) to the inversion unchanged', 'round key and round index handed over unchanged', g.where())


class Terms:
    def __init__(self, f, colvar, ek='expanded_key', prog=None):
        self.f, self.col, self.ek, self.prog = f, colvar, ek, prog
        self.binds = []

    def ev(self, e):
        if isinstance(e, ast.Name):
            for b in reversed(self.binds):
                if e.id in b:
                    return b[e.id]
        if isinstance(e, ast.Call) and isinstance(e.func, ast.Name) and self.prog is not None and len(self.binds) < 4:
            r = self.prog.resolve(self.f.mod, e.func)
            if r and r[0] == 'func' and r[1].mod is self.f.mod:
                callee = r[1]
                body = [s for s in callee.node.body if not (isinstance(s, ast.Expr) and isinstance(s.value, ast.Constant))]
                if len(body) == 1 and isinstance(body[0], ast.Return) and len(e.args) + len(e.keywords) == len(callee.params):
                    bind = {}
                    for p_, a in zip(callee.params, e.args):
                        bind[p_] = self.ev(a)
                    for k in e.keywords:
                        bind[k.arg] = self.ev(k.value)
                    self.binds.append(bind)
                    try:
                        return self.ev(body[0].value)
                    finally:
                        self.binds.pop()
        if isinstance(e, ast.Subscript):
            base = norm(e.value)
            if base == self.ek:
                idx = e.slice.elts[1] if isinstance(e.slice, ast.Tuple) else e.slice
                a = astutil.affine(idx)
                if a is None:
                    raise AnalysisError(f'column index `{norm(idx)}` not affine')
                return frozenset([('w', tuple(sorted((k, v) for k, v in a.items() if v)))])
            if base == 'key':
                idx = e.slice.elts[1] if isinstance(e.slice, ast.Tuple) else e.slice
                return frozenset([('key', norm(idx).replace(' ', ''))])
            if base == 'SBOX':
                inner = self.ev(e.slice)
                if len(inner) != 1:
                    raise AnalysisError('S-box of a xor')
                return frozenset([('S', next(iter(inner)))])
            if base == 'RCON':
                # the index in one canonical spelling: a // b and int(a / b) agree for the non-negative column numbers used here
                class _Div(ast.NodeTransformer):
                    def visit_BinOp(self, n):
                        self.generic_visit(n)
                        if isinstance(n.op, ast.FloorDiv):
                            return ast.copy_location(ast.Call(func=ast.Name(id='int', ctx=ast.Load()), args=[ast.BinOp(left=n.left, op=ast.Div(), right=n.right)], keywords=[]), n)
                        return n
                import copy as _copy
                idx_ = _Div().visit(_copy.deepcopy(e.slice))
                ast.fix_missing_locations(idx_)
                return frozenset([('RCON', norm(idx_).replace(' ', ''))])
        if isinstance(e, ast.BinOp) and isinstance(e.op, ast.BitXor):
            return self.ev(e.left) ^ self.ev(e.right)
        if isinstance(e, ast.Call):
            last = norm(e.func).split('.')[-1]
            if last == 'bitwise_xor':
                return self.ev(e.args[0]) ^ self.ev(e.args[1])
            if last == 'roll':
                kws = {k.arg: k.value for k in e.keywords}
                inner = self.ev(e.args[0])
                shn = kws.get('shift', e.args[1] if len(e.args) > 1 else None)
                axn = kws.get('axis', e.args[2] if len(e.args) > 2 else None)
                sh, ax = const_value(shn) if shn is not None else None, const_value(axn) if axn is not None else None
                if len(inner) != 1:
                    raise AnalysisError('rotation of a xor')
                # the rolled value is a (keys, 4) block: RotWord is a left rotation by one along the last axis (axis -1 or 1);
                # without an axis numpy rolls the flattened block, i.e. across keys
                return frozenset([('rot' if (sh, ax) in ((-1, -1), (-1, 1), (3, -1), (3, 1)) else f'roll(shift={sh},axis={ax})', next(iter(inner)))])
        raise AnalysisError(f'term `{norm(e)[:50]}` not modelled')

    def branch(self, stmts):
        cur = None
        for st in stmts:
            if not (isinstance(st, ast.Assign) and isinstance(st.targets[0], ast.Subscript) and norm(st.targets[0]).replace(' ', '') == f'{self.ek}[:,{self.col}]'):
                raise AnalysisError(f'statement `{norm(st)[:50]}` is not an assignment of column {self.col}')
            self_ref = frozenset([('w', ((self.col, 1),))])
            v = self.ev(st.value)
            if self_ref <= v:
                if cur is None:
                    raise AnalysisError('column read before it is written')
                v = (v - self_ref) ^ cur
            cur = v
        return cur


def w(col, off, name=None):
    d = {col: 1}
    for k, v in off.items():
        d[k] = d.get(k, 0) + v
    return ('w', tuple(sorted((k, v) for k, v in d.items() if v)))


def expansion(ctx, prog, fname, forward):
    f = prog.need_func(A, fname)
    loops = [l for l in f.node.body if isinstance(l, ast.For)]
    key = f'{f.key}::rule table'
    if len(loops) != 1 or not (isinstance(loops[0].iter, ast.Call) and norm(loops[0].iter.func) == 'enumerate' and isinstance(loops[0].target, ast.Tuple)):
        ctx.undecided('C10-D3', key, 'column loop not recognised', f.where())
        return 0
    loop = loops[0]
    idx, col = loop.target.elts[0].id, loop.target.elts[1].id
    # if-chain
    chain = []
    st = loop.body[0] if len(loop.body) == 1 and isinstance(loop.body[0], ast.If) else None
    while st is not None:
        chain.append((norm(st.test).replace(' ', ''), st.body))
        if len(st.orelse) == 1 and isinstance(st.orelse[0], ast.If):
            st = st.orelse[0]
        else:
            chain.append(('else', st.orelse))
            st = None
    if len(chain) != 4:
        ctx.undecided('C10-D3', key, f'{len(chain)} branches in the expansion rule, expected base / c mod Nk = 0 / Nk = 8 and c mod 4 = 0 / else', f.where())
        return 0
    T = Terms(f, col, prog=prog)
    conds = [c for c, b in chain]
    want_conds = [f'{idx}<cols_in', f'{col}%cols_in==0', f'bytes_key_length==32and{col}%4==0', 'else']
    ctx.check(conds == want_conds, 'C10-D3', key + ' conditions', f'branch conditions {conds}; FIPS-197 5.2 (Nk = cols_in): {want_conds}', 'conditions: window copy / c mod Nk = 0 / Nk = 8 and c mod 4 = 0 / else', f.where())
    if conds != want_conds:
        return 0
    n = 0
    try:
        terms = [T.branch(b) for c, b in chain]
    except AnalysisError as e:
        ctx.undecided('C10-D3', key, str(e), f.where())
        return 0
    if forward:
        prev, back = w(col, {'': -1}), w(col, {'cols_in': -1})
        exp = [None,
               frozenset([('S', ('rot', prev)), ('RCON', f'int({col}/cols_in)-1'), back]),
               frozenset([('S', prev), back]),
               frozenset([prev, back])]
        names = ['', 'S(rot(w[c-1])) ^ Rcon[c/Nk] ^ w[c-Nk]', 'S(w[c-1]) ^ w[c-Nk]', 'w[c-1] ^ w[c-Nk]']
    else:
        nxt, prevn = w(col, {'cols_in': 1}), w(col, {'cols_in': 1, '': -1})
        exp = [None,
               frozenset([nxt, ('S', ('rot', prevn)), ('RCON', f'int({col}/cols_in)')]),
               frozenset([nxt, ('S', prevn)]),
               frozenset([nxt, prevn])]
        names = ['', 'w[c+Nk] ^ S(rot(w[c+Nk-1])) ^ Rcon[(c+Nk)/Nk]', 'w[c+Nk] ^ S(w[c+Nk-1])', 'w[c+Nk] ^ w[c+Nk-1]']
    for i in (1, 2, 3):
        n += 1
        bkey = f'{f.key}::branch {conds[i]}'
        ctx.check(terms[i] == exp[i], 'C10-D3', bkey, f'w[c] = {show(terms[i])}; FIPS-197 requires {names[i]}', f'w[c] = {names[i]}', f.where(chain[i][1][0]))
    # base case: window column (c - col_in) of the key
    rng = next((s.value for s in f.node.body if isinstance(s, ast.Assign) and norm(s.targets[0]) == norm(loop.iter.args[0])), None)
    base = terms[0]
    ok = False
    if rng is not None and isinstance(rng, ast.Call) and norm(rng.func) == 'range' and len(base) == 1:
        start = astutil.affine(rng.args[0])
        step = const_value(rng.args[2]) if len(rng.args) > 2 else 1
        kidx = next(iter(base))
        if kidx[0] == 'key' and start is not None and step in (1, -1):
            ka = astutil.affine(ast.parse(kidx[1], mode='eval').body)
            if ka is not None:
                # col = start + step * index  ;  key index = ka(index)  ;  require col - keyidx == col_in
                colx = dict(start)
                colx[idx] = colx.get(idx, 0) + step
                diff = {k: colx.get(k, 0) - ka.get(k, 0) for k in set(colx) | set(ka)}
                ok = {k: v for k, v in diff.items() if v} == {'col_in': 1}
    n += 1
    ctx.check(ok, 'C10-D3', f'{f.key}::window copy', 'the given window is not copied column for column (schedule column c <- key column c - col_in)', 'base case: w[c] = key column (c - col_in)', f.where())
    return n


def show(t):
    if isinstance(t, frozenset):
        return ' ^ '.join(sorted(show(x) for x in t))
    if isinstance(t, tuple):
        if t[0] == 'w':
            return 'w[' + '+'.join(f'{v}*{k}' if k else str(v) for k, v in t[1]) + ']'
        return f'{t[0]}({", ".join(show(x) for x in t[1:])})'
    return str(t)


def d4(ctx, prog):
    """any window reproduces the schedule: key_expansion is partially evaluated for every key size and window position, forwards
    and backwards (sa.aeskeys); the columns returned, as xor-terms over the opaque window, must equal the FIPS-197 schedule
    columns computed from the same window."""
    from .. import aeskeys, confinterp as cf
    ke = prog.need_func(A, 'key_expansion')
    chk = prog.func('scared._utils', '_is_bytes_of_len') or prog.func(A, '_is_bytes_of_len')
    maxc = {4: 44, 6: 52, 8: 60}
    n_cfg = 0
    bad = []
    und = None
    thorough = ctx.tier == 'thorough'
    for nk in (4, 6, 8):
        mx = maxc[nk]
        for col_in in range(0, mx):
            outs = set()
            if col_in + nk <= mx:
                # forwards: the window is columns col_in .. col_in+nk-1
                cands = range(col_in + 1, mx + 1) if thorough else {col_in + 1, min(col_in + nk, mx), min(col_in + nk + 1, mx), min(col_in + 2 * nk + 3, mx), mx}
                outs |= {('f', c) for c in cands if c > col_in}
                cands = range(0, col_in + 1) if thorough else {0, max(col_in - 1, 0), max(col_in - nk - 1, 0), col_in // 2, col_in}
                outs |= {('b', c) for c in cands if c <= col_in}
            for direction, col_out in sorted(outs):
                it = aeskeys.Cols(prog, nk)
                if chk is not None:
                    it.opaque_funcs = {chk.key}
                key = cf.Sym('key_cols', attrs={'shape': (cf.Sym('n'), 4 * nk), 'ndim': 2})
                n_cfg += 1
                try:
                    r = it.call(ke, kwargs={'key_cols': key, 'col_in': col_in, 'col_out': col_out})
                except cf.Unknown as e:
                    und = f'Nk={nk}, col_in={col_in}, col_out={col_out}: {e}'
                    break
                except cf.Raised as e:
                    bad.append(f'Nk={nk}, col_in={col_in}, col_out={col_out} ({"forwards" if direction == "f" else "backwards"}): refused / fails ({e.kind})')
                    continue
                if not (isinstance(r, tuple) and r and r[0] == 'cols'):
                    und = f'Nk={nk}, col_in={col_in}, col_out={col_out}: the value returned is not a slice of the schedule buffer'
                    break
                got = r[1]
                if direction == 'f':
                    ref = aeskeys.reference(nk, col_in, 0, max(col_out - col_in - nk, 0))
                    want = [ref[c] for c in range(col_in, col_out)]
                    first = col_in
                else:
                    ref = aeskeys.reference(nk, col_in, col_in - col_out, 0)
                    want = [ref[c] for c in range(col_out, col_in + nk)]
                    first = col_out
                if len(got) != len(want):
                    bad.append(f'Nk={nk}, col_in={col_in}, col_out={col_out}: {len(got)} columns returned, the schedule has {len(want)} between these positions')
                    continue
                diff = [i for i, (g, w_) in enumerate(zip(got, want)) if g != w_]
                if diff:
                    bad.append(f'Nk={nk}, window at column {col_in}, expanded {"forwards to" if direction == "f" else "backwards to"} {col_out}: schedule column {first + diff[0]} is not the FIPS-197 '
                               f'column computed from the same window ({len(diff)} of {len(want)} columns differ)')
            if und:
                break
        if und:
            break
    key_ = f'{ke.key}::any window'
    if und:
        ctx.undecided('C10-D4', key_, f'key expansion not evaluable: {und}', ke.where())
    elif bad:
        ctx.fail('C10-D4', key_, f'{bad[0]} ({len(bad)} of {n_cfg} window configurations wrong)', ke.where(), wrong=len(bad))
    else:
        ctx.ok('C10-D4', key_, f'{n_cfg} window configurations (3 key sizes x every window position x forwards/backwards targets): every column returned equals the FIPS-197 schedule column '
               f'as a term over the window', ke.where(), configurations=n_cfg)
    return n_cfg


def d5_views(ctx, prog):
    """no reinterpreting view of a caller's array in the cipher modules: `x.view(dtype)` re-reads the memory of x under another
    item size - for a key (or state) given with a wider integer dtype, all accepted as long as the values are bytes, the bytes
    seen are not the values (identity for uint8 only).  Accepted: the view of an array made in the function with a pinned dtype
    (`astype` / `np.array(..., dtype=)` / `np.asarray(..., dtype=)` / `np.ascontiguousarray(..., dtype=)`)."""
    n = 0
    for modname in (D, A):
        for f in prog.funcs_in(modname):
            ldefs = astutil.local_defs(f.node)
            for c in ast.walk(f.node):
                if not (isinstance(c, ast.Call) and isinstance(c.func, ast.Attribute) and c.func.attr == 'view' and (c.args or any(k.arg == 'dtype' for k in c.keywords))):
                    continue
                n += 1
                key = f'{f.key}::{norm(c)[:60]}'
                r = astutil.expand_locals(c.func.value, ldefs)
                pinned = False
                cur = r
                while True:
                    if isinstance(cur, ast.Call) and isinstance(cur.func, ast.Attribute) and cur.func.attr == 'astype':
                        pinned = True
                        break
                    if isinstance(cur, ast.Call) and norm(cur.func).split('.')[-1] in ('array', 'asarray', 'ascontiguousarray', 'zeros', 'empty', 'ones', 'frombuffer') \
                            and (any(k.arg == 'dtype' for k in cur.keywords) or len(cur.args) > 1):
                        pinned = True
                        break
                    if isinstance(cur, ast.Call) and isinstance(cur.func, ast.Attribute) and cur.func.attr in ('reshape', 'ravel', 'flatten', 'copy', 'swapaxes', 'transpose', 'squeeze'):
                        cur = cur.func.value
                    elif isinstance(cur, ast.Subscript):
                        cur = cur.value
                    elif isinstance(cur, ast.Attribute) and cur.attr == 'T':
                        cur = cur.value
                    else:
                        break
                if pinned:
                    ctx.ok('C10-D5', key, 'view of an array created with a pinned dtype in this function', f.where(c))
                elif isinstance(cur, ast.Name) and cur.id in f.params:
                    ctx.fail('C10-D5', key, f'`{norm(c)[:60]}` re-interprets the memory of the argument `{cur.id}` instead of converting its values: with a key / state given in a wider integer dtype '
                             '(accepted as long as the values are bytes) the bytes read are the little-endian bytes of the first elements, not the values - identity for uint8 only', f.where(c))
                else:
                    ctx.undecided('C10-D5', key, f'cannot tell whether `{norm(r)[:50]}` has a pinned dtype', f.where(c))
    return n


def run(ctx, prog):
    ctx.rule('C10-D5', 'no reinterpreting `.view(dtype)` of an argument in the cipher modules (a view re-reads memory, it does not convert values); expected count on the unchanged tree is zero, a positive example is kept in the battery')
    ctx.count('reinterpreting_views_seen', d5_views(ctx, prog))
    ctx.rule('C10-D1', 'DES schedule: bit provenance of all 16 x 48 round-key bits = PC-2 o rot o PC-1; literal tables; interruption and width')
    ctx.rule('C10-D2', 'DES inversion constants and index maps')
    ctx.rule('C10-D3', 'AES expansion: term of every branch equals FIPS-197 5.2 forward, and its solved form backward; window copy')
    ctx.assume('get_master_key\'s trial-encryption search succeeding, and the col_in/col_out window bookkeeping (slicing arithmetic), are run-time and not decided')
    d1(ctx, prog)
    d2(ctx, prog)
    # D4 decides the expansion for the whole window domain; the per-branch rule table of D3 (a reading of the loop's shape) is kept
    # as a diagnosable cross-check: when D4 reached a verdict, shapes D3 cannot read are notes, not analysis errors
    ctx.rule('C10-D4', 'any window reproduces the schedule: key_expansion partially evaluated for every key size x window position x direction; returned columns equal the FIPS-197 schedule as xor-terms over the opaque window')
    n_cfg = d4(ctx, prog)
    d4_decided = any(o.rule == 'C10-D4' and o.status in ('holds', 'violated') for o in ctx.obs)
    sub = type(ctx)(ctx.prop, ctx.tier, ctx.seed)
    n = expansion(sub, prog, '_expand_forward', True) + expansion(sub, prog, '_expand_backward', False)
    f = prog.need_func(A, 'key_expansion')
    txt = norm(f.node).replace(' ', '')
    sub.pattern('ifcol_in<col_out:' in txt and 'return_expand_forward(' in txt and 'return_expand_backward(' in txt, 'C10-D3', f'{f.key}::dispatch',
                'forward/backward dispatch on col_in < col_out changed shape', 'forward when col_in < col_out, else backward', f.where())
    for o in sub.obs:
        if o.status == 'undecided' and d4_decided:
            ctx.note(f'C10-D3 could not read {o.construct}: {o.detail} (decided by C10-D4 instead)')
        else:
            ctx._add(o)
    ks = prog.need_func(A, 'key_schedule')
    from .. import confinterp as cf
    ke = prog.need_func(A, 'key_expansion')
    bad, und = [], None
    for nbytes in (176, 208, 240):
        for kdim in (1, 2):
            it = cf.Interp(prog)
            it.opaque_funcs = {ke.key}
            it.opaque_attrs = {ke.key: lambda a, k, nbytes=nbytes: {'shape': (cf.Sym('n'), nbytes), 'ndim': 2}}
            klen = {176: 16, 208: 24, 240: 32}[nbytes]
            keysym = cf.Sym('key', attrs={'shape': (cf.Sym('n'), klen) if kdim == 2 else (klen,), 'ndim': kdim})
            try:
                r = it.call(ks, kwargs={ks.params[0]: keysym})
            except cf.Unknown as e:
                und = str(e)
                break
            except cf.Raised as e:
                bad.append(f'{klen}-byte key refused ({e.kind})')
                continue
            want_shape = (cf.Sym('n'), nbytes // 16, 16) if kdim == 2 else (nbytes // 16, 16)
            ok = isinstance(r, cf.Sym) and r.term and r.term[0] == 'call' and r.term[1].endswith('.reshape')
            if ok:
                a = r.term[2]
                shp = a[0] if len(a) == 1 and isinstance(a[0], tuple) else tuple(a)
                ok = tuple(shp) == want_shape and r.term[1].startswith('key_expansion(') and 'col_in=0' in r.term[1] and 'col_out' not in r.term[1]
            if not ok:
                bad.append(f'{klen}-byte key ({kdim}-D): key_schedule returns {getattr(r, "name", r)}, expected the forward expansion from column 0 reshaped to {cf.fmt(want_shape)}')
        if und:
            break
    if und:
        ctx.undecided('C10-D3', f'{ks.key}::reshape', f'key_schedule not evaluable: {und}', ks.where())
    else:
        ctx.check(not bad, 'C10-D3', f'{ks.key}::reshape', bad[0] if bad else '', 'key_schedule = full forward expansion from column 0, reshaped to ([keys,] rounds, 16) for the three key sizes', ks.where())
    # inv_key_schedule(round key, round_in): backward expansion from the window of round `round_in` down to column 0, its first 16
    # bytes (the AES-128 master key), then the full schedule
    iks = prog.func(A, 'inv_key_schedule')
    if iks is not None:
        bad, und = [], None
        for r_in in [None] + list(range(0, 11)):
            it = cf.Interp(prog)
            it.opaque_funcs = {ke.key, ks.key}
            keysym = cf.Sym('roundkey', attrs={'shape': (cf.Sym('n'), 16), 'ndim': 2})
            kw_ = {iks.params[0]: keysym}
            if r_in is not None:
                kw_[iks.params[1]] = r_in
            try:
                r = it.call(iks, kwargs=kw_)
            except cf.Unknown as e:
                und = str(e)
                break
            except cf.Raised as e:
                bad.append(f'round_in={r_in} refused ({e.kind})')
                continue
            eff = 10 if r_in is None else r_in
            ok = isinstance(r, cf.Sym) and r.term and r.term[0] == 'call' and r.term[1] == ks.name and len(r.term[2]) + len(r.term[3]) == 1
            why = 'the result is not key_schedule(<master key>)'
            if ok:
                arg = r.term[2][0] if r.term[2] else r.term[3][0][1]
                # peel  E.swapaxes(0, -1)[:16].swapaxes(0, -1)   or   E[..., :16]
                core = None
                if getattr(arg, 'method', None) == 'swapaxes' and isinstance(arg.recv, cf.Sym) and arg.recv.term and arg.recv.term[0] == 'index':
                    inner, idx = arg.recv.term[1], arg.recv.term[2]
                    if idx == slice(None, 16, None) and getattr(inner, 'method', None) == 'swapaxes':
                        sw1, sw2 = tuple(arg.term[2]), tuple(inner.term[2])
                        if sorted(sw1) == [-1, 0] and sorted(sw2) == [-1, 0]:
                            core = inner.recv
                elif isinstance(arg, cf.Sym) and arg.term and arg.term[0] == 'index' and arg.term[2] in ((Ellipsis, slice(None, 16, None)), (slice(None, None, None), slice(None, 16, None))):
                    # the expansion is always (keys, bytes): `[:, :16]` and `[..., :16]` both cut the last axis
                    core = arg.term[1]
                ok = core is not None
                why = 'the master key is not the first 16 bytes (last axis) of the backward expansion'
                if ok:
                    t = core.term
                    kwd = dict(t[3]) if t and t[0] == 'call' else {}
                    pos = list(t[2]) if t and t[0] == 'call' else []
                    ok = bool(t) and t[0] == 'call' and t[1] == ke.name and (pos[:1] == [keysym] or kwd.get(ke.params[0]) == keysym) \
                        and kwd.get('col_in', pos[1] if len(pos) > 1 else None) == 4 * eff and kwd.get('col_out', pos[2] if len(pos) > 2 else None) == 0
                    why = f'the expansion is asked from column {kwd.get("col_in")} to column {kwd.get("col_out")}, not from column {4 * eff} (round {eff}) back to column 0'
            if not ok:
                bad.append(f'round_in={r_in}: {why}')
        kk = f'{iks.key}::backward to the master key'
        if und:
            ctx.undecided('C10-D3', kk, f'inv_key_schedule not evaluable: {und}', iks.where())
        else:
            ctx.check(not bad, 'C10-D3', kk, f'{bad[0] if bad else ""} ({len(bad)} of 12 round positions)',
                      'inv_key_schedule = key_schedule(first 16 bytes of key_expansion(round key, col_in=4*round_in, col_out=0)) for round_in 0..10 and the default', iks.where())
    ctx.floor('AES window configurations evaluated', n_cfg, 500)
    if not d4_decided:
        ctx.floor('AES expansion rule obligations', n, 8)
