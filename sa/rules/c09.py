"""C09 - t-test independent of batching and of thread timing; thread failures surface.

D1 no shared writable state   the two accumulators are two distinct objects; their methods store only into self attributes
                              and locals (no globals, no class attributes); per-instance accumulator arrays; the numba
                              kernel is a staticmethod writing only the arrays bound to the instance at its single call
                              site; the code the threads share (container module) writes no global/class state and never
                              mutates the shared preprocess list.  No shared writable state => same result for every
                              interleaving.
D2 kernel                     prange stores disjoint; casts to the precision before any reduction/product.
D3 accumulation               additive accumulators, first-call init, count bookkeeping (the C01 rules instantiated).
D4 errors surface             the thread stores any Exception; join() re-raises it on every path; TTestAnalysis.run joins and
                              computes inside a try without except, and the final _compute is unreachable when a join raised.
"""
import ast

from .. import flow, kernels, kernelrules, astutil, universe
from ..model import norm, AnalysisError, self_attr, root_name
from .c11 import emit
from . import c01
from .c16 import MUTATORS

TT = 'scared.ttest'


def d1(ctx, prog):
    acc = prog.need_class(TT, 'TTestThreadAccumulator')
    ana = prog.need_class(TT, 'TTestAnalysis')
    from .. import inline
    run = inline.inlined(prog, prog.resolve_method(ana, 'run'), skip={'_compute'})
    # two distinct objects
    builds = [n for n in ast.walk(run.node) if isinstance(n, ast.Assign) and self_attr(n.targets[0]) == 'accumulators']
    if not builds:
        raise AnalysisError('TTestAnalysis.run does not build self.accumulators')
    for b in builds:
        v = b.value
        good = isinstance(v, (ast.List, ast.Tuple)) and len(v.elts) == 2 and all(
            isinstance(e, ast.Call) and prog.dotted(run.mod, e.func) == f'{TT}.TTestThreadAccumulator' for e in v.elts)
        # a comprehension constructs a new object per iteration (`[X()] * 2` would not)
        good = good or (isinstance(v, ast.ListComp) and isinstance(v.elt, ast.Call) and prog.dotted(run.mod, v.elt.func) == f'{TT}.TTestThreadAccumulator'
                        and len(v.generators) == 1 and not v.generators[0].ifs and norm(v.generators[0].iter).replace(' ', '') == 'range(2)')
        ctx.check(good, 'C09-D1', f'{run.key}::{norm(b)[:100]}',
                  'the two trace sets do not get two separately constructed accumulators (a shared object would be written by both threads)',
                  'two separately constructed accumulator objects', run.where(b))
    # stores in the accumulator's methods
    n_st = 0
    tt_mod = prog.need_mod(TT)
    for f in prog.funcs_in(TT):
        for n in ast.walk(f.node):
            if isinstance(n, (ast.Global, ast.Nonlocal)):
                ctx.fail('C09-D1', f'{f.key}::{norm(n)}', 'global/nonlocal state written in the t-test module', f.where(n))
        for t, st, how in kernels.stores(f.node):
            n_st += 1
            node = t
            while isinstance(node, ast.Subscript):
                node = node.value
            key = f'{f.key}::{norm(st)[:100]}'
            if isinstance(node, ast.Name):
                if node.id in tt_mod.assigns or node.id in tt_mod.classes:
                    ctx.fail('C09-D1', key, f'store into module-level object `{node.id}` (shared by both threads)', f.where(st))
                continue
            if isinstance(node, ast.Attribute):
                base = norm(node.value)
                if base == 'self':
                    continue
                if base in ('cls', 'type(self)', 'self.__class__') or base in tt_mod.classes:
                    ctx.fail('C09-D1', key, f'store into class attribute `{norm(node)}` (shared by both threads)', f.where(st))
                    continue
                if isinstance(node.value, ast.Name):
                    continue    # attribute of a local object (accu.x in the analysis): per-object
                ctx.fail('C09-D1', key, f'store through `{norm(node)[:50]}`: not a self attribute or a local', f.where(st))
    ctx.ok('C09-D1', f'{TT}::stores', f'all {n_st} stores in the t-test module target self attributes, locals or parameters')
    for name, v in acc.class_assigns.items():
        if isinstance(v, (ast.List, ast.Dict, ast.Set, ast.Call)):
            ctx.fail('C09-D1', f'{acc.key}::{name}', f'class-level mutable attribute `{name}` is shared by both accumulator threads', acc.mod.relpath)
    # kernel: staticmethod, writes only params, bound to self arrays at a single call site
    upd = prog.resolve_method(acc, 'update')
    kcalls = c01.kernel_calls(prog, acc, upd)
    if len(kcalls) != 1:
        raise AnalysisError(f'{len(kcalls)} kernel calls in TTestThreadAccumulator.update')
    call, ks = kcalls[0]
    k = ks[0]
    static = any(norm(d) == 'staticmethod' for d in k.node.decorator_list)
    ctx.check(static and 'self' not in k.params, 'C09-D1', f'{k.key}::staticmethod', 'the kernel is not a staticmethod (it could reach shared state through self)',
              'kernel is a staticmethod over its parameters only', k.where())
    written = kernels.written_params(k)
    amap = kernels.call_arg_map(k, call)
    for p in written:
        a = amap.get(p)
        ctx.check(a is not None and self_attr(a) is not None and isinstance(a, ast.Attribute), 'C09-D1', f'{upd.key}::kernel argument {p}',
                  f'the kernel writes parameter `{p}`, bound to `{norm(a) if a is not None else None}`: not an array owned by this accumulator',
                  f'written parameter `{p}` is bound to the instance\'s own `{norm(a) if a is not None else ""}`', upd.where(call))
    free = {n.id for n in ast.walk(k.node) if isinstance(n, ast.Name) and isinstance(n.ctx, ast.Store)} & set(tt_mod.assigns)
    ctx.check(not free, 'C09-D1', f'{k.key}::globals', f'kernel assigns module names {sorted(free)}', 'kernel assigns no module-level name', k.where())
    # per-instance allocation
    accs = universe.accumulators(prog, acc, '_initialize')
    ctx.check(set(written and [self_attr(amap[p]) for p in written]) <= set(accs), 'C09-D1', f'{acc.key}::per-instance arrays',
              'an array written by the kernel is not allocated per instance in _initialize', f'kernel targets {sorted(accs)} are allocated per instance', acc.mod.relpath)
    # shared code: container module
    cmod = prog.need_mod('scared.container')
    n_c = 0
    for f in prog.funcs_in('scared.container'):
        if f.qualname == 'set_batch_size':
            continue     # configuration entry point, not called from the accumulation threads
        for n in ast.walk(f.node):
            if isinstance(n, (ast.Global, ast.Nonlocal)):
                ctx.fail('C09-D1', f'{f.key}::{norm(n)}', 'global state written in code shared by the two threads', f.where(n))
        for t, st, how in kernels.stores(f.node):
            n_c += 1
            node = t
            while isinstance(node, ast.Subscript):
                node = node.value
            key = f'{f.key}::{norm(st)[:100]}'
            if isinstance(node, ast.Attribute):
                base = norm(node.value)
                if base in cmod.classes or base in ('cls', 'type(self)', 'self.__class__'):
                    ctx.fail('C09-D1', key, f'store into class attribute `{norm(node)}` in code run by both threads', f.where(st))
                if node.attr == 'preprocesses' and isinstance(t, ast.Subscript):
                    ctx.fail('C09-D1', key, 'element store into the preprocess list shared by the two containers', f.where(st))
            elif isinstance(node, ast.Name) and node.id in cmod.assigns:
                ctx.fail('C09-D1', key, f'store into module-level object `{node.id}` in code run by both threads', f.where(st))
        for n in ast.walk(f.node):
            if isinstance(n, ast.Call) and isinstance(n.func, ast.Attribute) and n.func.attr in MUTATORS:
                tgt = norm(n.func.value)
                if tgt.endswith('preprocesses') or tgt in cmod.assigns:
                    ctx.fail('C09-D1', f'{f.key}::{norm(n)[:100]}', f'`{tgt}` (shared by both containers/threads) is mutated in place', f.where(n))
    ctx.ok('C09-D1', 'scared.container::shared code', f'{n_c} stores in the container module: none into module/class state or the shared preprocess list')
    return k


def d4(ctx, prog):
    acc = prog.need_class(TT, 'TTestThreadAccumulator')
    ana = prog.need_class(TT, 'TTestAnalysis')
    run = prog.resolve_method(acc, 'run')
    # (a) the thread body stores any Exception
    ok = False
    risky = None
    for t in ast.walk(run.node):
        if isinstance(t, ast.Try):
            for h in t.handlers:
                names = {norm(x) for x in (h.type.elts if isinstance(h.type, ast.Tuple) else [h.type])} if h.type is not None else {'BaseException'}
                if names & {'Exception', 'BaseException'} and h.name:
                    stores = [i for i, s in enumerate(h.body) if isinstance(s, ast.Assign) and self_attr(s.targets[0]) == '_exception' and norm(s.value) == h.name]
                    if stores:
                        # the try must cover the batch loop
                        if any(isinstance(x, ast.For) for x in t.body):
                            ok = True
                        # nothing that can itself raise may precede the store: formatting / calling with instance state evaluates
                        # arbitrary __str__ / property code, and an exception there escapes with the original one lost
                        for s in h.body[:stores[0]]:
                            for n in ast.walk(s):
                                if isinstance(n, ast.FormattedValue) and not (isinstance(n.value, ast.Name) and n.value.id == h.name):
                                    risky = (s, norm(n.value))
                                elif isinstance(n, ast.Call) and any(not isinstance(a, (ast.Constant, ast.JoinedStr)) and not (isinstance(a, ast.Name) and a.id == h.name)
                                                                     for a in n.args):
                                    risky = (s, norm(n)[:40])
    ctx.check(risky is None, 'C09-D4', f'{run.key}::store first', f'before the exception is stored the handler evaluates `{risky[1] if risky else ""}` '
              f'(`{norm(risky[0])[:70] if risky else ""}`): if that raises too (a broken trace set printing itself), the original failure is lost and join() reports success',
              'nothing that can raise precedes the store of the caught exception', run.where(risky[0]) if risky else run.where())
    ctx.check(ok, 'C09-D4', f'{run.key}::store exception', 'the thread body does not store a caught Exception covering the batch loop in self._exception: a failure would be lost',
              'any Exception raised while accumulating is stored in self._exception', run.where())
    # (b) join re-raises
    join = prog.resolve_method(acc, 'join')
    fl = flow.Flow(prog, acc, keep=lambda e, f: e[0] in ('raise', 'call'), inline=lambda c, call, caller: False)
    paths = fl.run(join, facts=[('N:self._exception', 'NotNone')])
    bad = [p for p in paths if p.outcome[0] != 'raise']
    waits = all(any(e[0] == 'call' and e[1] == 'super().join' or (e[0] == 'call' and 'join' in e[1]) for e in p.events) for p in paths)
    ctx.check(not bad and paths, 'C09-D4', f'{join.key}::re-raise', 'join() can return normally although the thread stored an exception: the caller would compute a result',
              f'with a stored exception every one of {len(paths)} paths through join() raises', join.where())
    ctx.check(waits, 'C09-D4', f'{join.key}::wait', 'join() does not wait for the thread (no super().join()) before looking at the stored exception',
              'join() waits for the thread first', join.where())
    # (c) analysis run: a raising join/compute inside the try body propagates and _compute is not reached
    from .. import inline
    from .. import normalize as _nz
    arun = _nz.normal(prog, prog.resolve_method(ana, 'run'), skip={'_compute'})      # helpers inlined, attribute aliases propagated
    def calls_in_body(t, name):
        return any(isinstance(c, ast.Call) and isinstance(c.func, ast.Attribute) and c.func.attr == name for b in t.body for c in ast.walk(b))
    trys = [t for t in ast.walk(arun.node) if isinstance(t, ast.Try) and calls_in_body(t, 'join') and calls_in_body(t, 'compute')]
    if len(trys) != 1:
        raise AnalysisError(f'{len(trys)} try statements joining the accumulators in TTestAnalysis.run')
    t = trys[0]
    body_calls = {id(c) for b in t.body for c in ast.walk(b) if isinstance(c, ast.Call)}

    def may_raise(func, node, path, fl_):
        if isinstance(node, ast.Call) and isinstance(node.func, ast.Attribute) and node.func.attr in ('join', 'compute'):
            return ('Exception',)
        return ()
    fl2 = flow.Flow(prog, ana, keep=lambda e, f: e[0] in ('raise', 'call'), inline=lambda c, call, caller: False, may_raise=may_raise)
    paths = fl2.run(arun)
    problems = []
    n_fault = 0
    for p in paths:
        first_fault = None
        for i, e in enumerate(p.events):
            if e[0] == 'raise' and e[2] == 'implicit' and id(fl2.node_of(e)) in body_calls:
                first_fault = i
                break
        if first_fault is None:
            continue
        n_fault += 1
        if p.outcome[0] != 'raise':
            problems.append('a failing join()/compute() of an accumulator is swallowed by TTestAnalysis.run')
        if any(e[0] == 'call' and e[1] == 'self._compute' for e in p.events[first_fault:]):
            problems.append('self._compute() is still reached after a join()/compute() raised')
    # success paths: the result is formed (self._compute()) after the last accumulator was joined and computed
    stale = None
    n_ok = 0
    for p in paths:
        if any(e[0] == 'raise' and e[2] == 'implicit' and id(fl2.node_of(e)) in body_calls for e in p.events) or p.outcome[0] == 'raise':
            continue
        n_ok += 1
        names = [e[1] for e in p.events if e[0] == 'call']
        last_join = max([i for i, x in enumerate(names) if x.endswith('.join') or x.endswith('.compute')] + [-1])
        if 'self._compute' not in names[last_join + 1:]:
            stale = stale or ('the run returns without forming the result after the accumulators were joined: `result` keeps the value of the previous run (or does not exist)'
                              if 'self._compute' not in names else 'self._compute() is called before the last accumulator is joined and computed: the statistic is formed from unfinished sums')
    ctx.check(stale is None and n_ok > 0, 'C09-D4', f'{arun.key}::result formed last', stale or 'no successful path through run() found',
              f'on each of {n_ok} successful paths self._compute() follows the last join()/compute()', arun.where())
    key = f'{arun.key}::join/compute in try'
    if n_fault == 0:
        raise AnalysisError('no faulting path found in TTestAnalysis.run')
    if problems:
        ctx.fail('C09-D4', key, '; '.join(sorted(set(problems))), arun.where(t))
    else:
        ctx.ok('C09-D4', key, f'on each of {n_fault} paths where a join()/compute() raises the exception propagates and _compute() is not reached', arun.where(t))
    # the stored exception can be of any type: no handler of this try may swallow (each must end in a raise)
    swallowing = [h for h in t.handlers if not (h.body and isinstance(h.body[-1], ast.Raise))]
    ctx.check(not swallowing, 'C09-D4', f'{arun.key}::handlers of the join/compute try',
              f'`except {norm(swallowing[0].type) if swallowing and swallowing[0].type is not None else ""}` around join()/compute() does not re-raise: '
              f'a thread failure of that type yields a result instead of an error',
              'no swallowing handler around join()/compute()', arun.where(t))
    # both accumulators are joined and computed in the try body
    loops = [n for b in t.body for n in ast.walk(b) if isinstance(n, ast.For)]
    _ld = astutil.local_defs(arun.node)
    good = any(norm(astutil.expand_locals(l.iter, _ld)) == 'self.accumulators' and
               [c.func.attr for s in l.body for c in ast.walk(s) if isinstance(c, ast.Call) and isinstance(c.func, ast.Attribute)
                and norm(c.func.value) == l.target.id][:2] == ['join', 'compute'] for l in loops if isinstance(l.target, ast.Name))
    ctx.check(good, 'C09-D4', f'{arun.key}::join then compute', 'not every accumulator is joined and then computed before the result is formed',
              'every accumulator is joined, then computed', arun.where(t))
    ctx.count('fault_paths', n_fault)


def d5(ctx, prog):
    """stop-request typestate: every run() clears the flag before the batch loop; nothing sets it again before the loop"""
    acc = prog.need_class(TT, 'TTestThreadAccumulator')
    run = prog.resolve_method(acc, 'run')
    stop = prog.resolve_method(acc, 'stop')
    flags = {self_attr(t) for t, s, how in kernels.stores(stop.node) if self_attr(t)} if stop else set()
    if len(flags) != 1:
        ctx.undecided('C09-D5', f'{acc.key}::stop flag', 'stop() does not set exactly one flag attribute', acc.mod.relpath)
        return
    flag = flags.pop()

    def keep(ev, fl):
        return (ev[0] == 'store' and ev[1] == flag) or (ev[0] == 'call' and ev[1].endswith('.batches')) or ev[0] == 'raise'
    fl = flow.Flow(prog, acc, keep=keep, inline=lambda c, call, caller: False)
    paths = fl.run(run)
    bad = 0
    n = 0
    for p in paths:
        evs = p.events
        idx = next((i for i, e in enumerate(evs) if e[0] == 'call'), None)
        if idx is None:
            continue
        n += 1
        clears = [e for e in evs[:idx] if e[0] == 'store']
        node = fl.node_of(clears[-1]) if clears else None
        if not (node is not None and isinstance(node, ast.Assign) and isinstance(node.value, ast.Constant) and node.value.value is False):
            bad += 1
    key = f'{run.key}::stop flag cleared'
    if n == 0:
        ctx.undecided('C09-D5', key, 'no path reaching the batch loop found', run.where())
    elif bad:
        ctx.fail('C09-D5', key, f'on {bad} of {n} paths the batch loop is entered without `{flag}` having been cleared in this run: a stop request left by an earlier '
                                f'run (TTestAnalysis.run calls stop() in its finally block) silently truncates the next accumulation', run.where())
    else:
        ctx.ok('C09-D5', key, f'`{flag}` is cleared before the batch loop on each of {n} paths', run.where())
    # the stored-failure typestate: the attribute join() re-raises must be cleared by every run() before anything can fail, else a
    # failure of an earlier run is re-raised by the join() of a later, sound run (the analysis could never be used again)
    join = prog.resolve_method(acc, 'join')
    exc_attrs = set()
    if join is not None:
        for r_ in ast.walk(join.node):
            if isinstance(r_, ast.Raise) and r_.exc is not None and self_attr(r_.exc):
                exc_attrs.add(self_attr(r_.exc))
    if len(exc_attrs) != 1:
        ctx.undecided('C09-D5', f'{acc.key}::stored failure', 'the attribute re-raised by join() was not identified', acc.mod.relpath)
    else:
        ea = exc_attrs.pop()

        def keep2(ev, fl):
            return (ev[0] == 'store' and ev[1] == ea) or ev[0] == 'call' or ev[0] == 'raise'
        fl2 = flow.Flow(prog, acc, keep=keep2, inline=lambda c, call, caller: False)
        paths2 = fl2.run(run)
        bad2 = n2 = 0
        for p in paths2:
            first = next((e for e in p.events if e[0] in ('store', 'call')), None)
            if first is None:
                continue
            n2 += 1
            node = fl2.node_of(first) if first[0] == 'store' else None
            if not (first[0] == 'store' and isinstance(node, ast.Assign) and isinstance(node.value, ast.Constant) and node.value.value is None):
                bad2 += 1
        key2 = f'{run.key}::stored failure cleared'
        if n2 == 0:
            ctx.undecided('C09-D5', key2, 'no path through run() found', run.where())
        else:
            ctx.check(bad2 == 0, 'C09-D5', key2, f'on {bad2} of {n2} paths run() does something before clearing `{ea}`: a failure stored by an earlier run is re-raised by join() after a later, '
                      f'sound run', f'`{ea}` is reset to None before anything else on each of {n2} paths through run()', run.where())
    # the analysis does call stop() after every run: the clearing above is what makes repeated runs accumulate everything
    arun = prog.resolve_method(prog.need_class(TT, 'TTestAnalysis'), 'run')
    calls_stop = any(isinstance(c, ast.Call) and isinstance(c.func, ast.Attribute) and c.func.attr == 'stop' for c in ast.walk(arun.node))
    ctx.note(f'TTestAnalysis.run calls stop() on its accumulators: {calls_stop}')


def d6(ctx, prog, kernel):
    """dimensional analysis of Welch's t: the kernel gives sum: u n and sum_squared: u^2 n (bound at its call site), the count n;
    compute() must produce mean: u and var: u^2 from homogeneous expressions; the analysis must return a value of dimension
    u^0 n^(1/2) (scale free; grows like sqrt(n) when every trace is duplicated) and divide each variance by the count of the
    *same* accumulator."""
    from . import dims
    from .. import units, kernels
    acc = prog.need_class(TT, 'TTestThreadAccumulator')
    ana = prog.need_class(TT, 'TTestAnalysis')
    upd = prog.resolve_method(acc, 'update')
    comp = prog.resolve_method(acc, 'compute')
    acomp = prog.resolve_method(ana, '_compute')
    tp = kernel.params[0]
    contrib, xk = dims.contributions(prog, kernel, {tp: dims.U(u=1), **{p_: units.CONST for p_ in kernel.params[1:] if 'prec' in p_}}, {tp})
    dims.report_mismatches(ctx, 'C09-D6', kernel, xk)
    calls = [c for c in ast.walk(upd.node) if isinstance(c, ast.Call) and isinstance(c.func, ast.Attribute) and c.func.attr == kernel.name]
    key = f'{acc.key}::dimensions'
    if len(calls) != 1:
        ctx.undecided('C09-D6', key, 'call site of the accumulation kernel not found', upd.where())
        return 0
    amap = kernels.call_arg_map(kernel, calls[0])
    attrs = {}
    for p_, dm in contrib.items():
        a = amap.get(p_)
        if a is not None and self_attr(a):
            attrs[self_attr(a)] = dm
    xu = units.Units(upd, seeds={upd.params[1]: dims.U(u=1)}, carries={upd.params[1]}, prog=prog).run()
    for name, dm, node, how in xu.contrib:
        if how == 'add' and name not in attrs:
            attrs[name] = dm
    if len(attrs) < 3 or any(v is units.TOP for v in attrs.values()):
        ctx.undecided('C09-D6', key, f'accumulator dimensions not derivable ({ {k: units.show(v) for k, v in attrs.items()} })', upd.where())
        return 0
    xc = units.Units(comp, attrs=dict(attrs), prog=prog).run()
    nm = dims.report_mismatches(ctx, 'C09-D6', comp, xc)
    derived = {name: dm for name, dm, node, how in xc.contrib if how == 'assign'}
    want = {'mean': dims.U(u=1), 'var': dims.U(u=2)}
    n = 0
    for a, w in want.items():
        n += 1
        if a not in derived or derived[a] is units.TOP:
            if not nm:
                ctx.undecided('C09-D6', f'{comp.key}::self.{a}', f'dimension of self.{a} not derivable', comp.where())
            continue
        ctx.check(derived[a] == w, 'C09-D6', f'{comp.key}::self.{a}', f'self.{a} has dimension {units.show(derived[a])}, a {a} has {units.show(w)} (sum: {units.show(attrs.get("sum"))}, '
                  f'sum_squared: {units.show(attrs.get("sum_squared"))}, count: {units.show(attrs.get("processed_traces"))})', f'self.{a}: {units.show(w)}', comp.where())
    oattrs = {'*.' + a: d for a, d in {**attrs, **{k: v for k, v in derived.items() if v is not units.TOP}}.items()}
    xa = units.Units(acomp, attrs=oattrs, prog=prog).run()
    nm2 = dims.report_mismatches(ctx, 'C09-D6', acomp, xa)
    res = [dm for name, dm, node, how in xa.contrib if name == 'result' and how == 'assign'] + [d for d, _ in xa.returns]
    n += 1
    wantr = dims.U(n='1/2')
    if not res or any(r is units.TOP for r in res):
        if not nm2:
            ctx.undecided('C09-D6', f'{acomp.key}::result', 'dimension of the t statistic not derivable', acomp.where())
    else:
        ctx.check(all(r == wantr for r in res), 'C09-D6', f'{acomp.key}::result', f'the statistic has dimension {units.show(res[0])}; Welch\'s t is scale free and grows like sqrt(n): {units.show(wantr)}',
                  f'result dimension {units.show(wantr)}', acomp.where())
    # pairing: each variance is divided by the count of the same accumulator
    for dv in ast.walk(acomp.node):
        if isinstance(dv, ast.BinOp) and isinstance(dv.op, ast.Div) and isinstance(dv.left, ast.Attribute) and isinstance(dv.right, ast.Attribute) \
                and dv.right.attr == 'processed_traces' and dv.left.attr in ('var', 'mean', 'sum', 'sum_squared'):
            n += 1
            ctx.check(norm(dv.left.value) == norm(dv.right.value), 'C09-D6', f'{acomp.key}::{norm(dv)[:70]}', f'`{norm(dv)}` divides the {dv.left.attr} of one trace set by the number of traces of the other',
                      f'{dv.left.attr} and count of the same accumulator', acomp.where(dv))
    return n


def d9(ctx, prog):
    """the statistic as a rational function of the two accumulators (sa.ratfun): accumulator.compute() gives mean = S/n and
    var = Q/n - mean^2; TTestAnalysis._compute combines them; the result must be the same function as Welch's
    t = (S1/n1 - S2/n2) / sqrt(var1/n1 + var2/n2) with the population variances - equal squares by cross-multiplication, equal sign."""
    from .. import ratfun
    from ..ratfun import Poly, RF
    acc = prog.need_class(TT, 'TTestThreadAccumulator')
    ana = prog.need_class(TT, 'TTestAnalysis')
    comp, fin = prog.resolve_method(acc, 'compute'), prog.resolve_method(ana, '_compute')       # along the MRO (statistics may sit in a base class)
    key = f'{fin.key if fin else ana.key}::formula'
    if comp is None or fin is None:
        ctx.undecided('C09-D9', key, 'compute / _compute not found', ana.mod.relpath)
        return 0
    try:
        per = {}
        for i in (1, 2):
            ratfun.run_function(comp.node, {'self.sum': f'S{i}', 'self.sum_squared': f'Q{i}', 'self.processed_traces': f'n{i}'})
            at = ratfun.run_function.last_attrs
            if 'self.mean' not in at or 'self.var' not in at:
                raise ratfun.Unknown('compute() does not store mean and var')
            per[i] = at
        # names of the two accumulators in _compute: `a, b = self.accumulators`
        names = None
        for st in ast.walk(fin.node):
            if isinstance(st, ast.Assign) and len(st.targets) == 1 and isinstance(st.targets[0], ast.Tuple) and len(st.targets[0].elts) == 2 and norm(st.value) == 'self.accumulators':
                names = [x.id for x in st.targets[0].elts]
        if names is None:
            names = ['self.accumulators[0]', 'self.accumulators[1]']
        seeds = {}
        for i, nm in zip((1, 2), names):
            seeds[f'{nm}.mean'] = per[i]['self.mean']
            seeds[f'{nm}.var'] = per[i]['self.var']
            seeds[f'{nm}.processed_traces'] = f'n{i}'
            seeds[f'{nm}.sum'] = f'S{i}'
            seeds[f'{nm}.sum_squared'] = f'Q{i}'
        outs = ratfun.run_function(fin.node, seeds)
        got = ratfun.run_function.last_attrs.get('self.result') or (outs[0][0] if outs else None)
        if got is None:
            raise ratfun.Unknown('the result of _compute was not found')
        S = Poly.sym
        one = Poly.const(1)
        m1, m2 = RF(S('S1'), S('n1')), RF(S('S2'), S('n2'))
        v1 = RF(S('Q1'), S('n1')).add(m1.mul(m1), -1)
        v2 = RF(S('Q2'), S('n2')).add(m2.mul(m2), -1)
        den = v1.mul(RF(S('n1')), -1).add(v2.mul(RF(S('n2')), -1))
        ref = m1.add(m2, -1).mul(ratfun.Eval({}).sqrt(den), -1)
        pts = [{'S1': 16, 'Q1': 102, 'n1': 4, 'S2': 11, 'Q2': 39, 'n2': 4}, {'S1': 9, 'Q1': 31, 'n1': 5, 'S2': 20, 'Q2': 120, 'n2': 5}]
        ok, why = ratfun.same_function(got, ref, pts)
        ctx.check(ok, 'C09-D9', key, f'what the analysis computes is not (mean1 - mean2) / sqrt(var1/n1 + var2/n2) with population variances: {why}',
                  'the result is Welch\'s t as a rational function of (S1, Q1, n1, S2, Q2, n2) (normal forms cross-multiplied)', fin.where())
    except ratfun.Masked as e:
        ctx.fail('C09-D9', key, f'{e}: where both variances are 0 the Welch statistic is +-inf (a sample that separates the two sets perfectly) or NaN, not the value `out` was filled with', fin.where())
    except ratfun.Unknown as e:
        ctx.undecided('C09-D9', key, f'formula not derivable: {e}', fin.where())
    return 1



def d11(ctx, prog):
    """the accumulator works on the container it is given: in start() and run() the value bound to self.container, evaluated with a
    new (non-None) argument and an old (non-None) attribute, is the argument - a remembered container never wins over the one
    passed in, so a second TTestAnalysis.run() accumulates the new sets"""
    acc = prog.need_class(TT, 'TTestThreadAccumulator')
    n = 0

    def val(e, cp):
        # -> 'NEW' | 'OLD' | None (not decided), with the parameter and the attribute both not None
        if isinstance(e, ast.Name) and e.id == cp:
            return 'NEW'
        if self_attr(e) == 'container':
            return 'OLD'
        if isinstance(e, ast.IfExp):
            t = e.test
            neg = False
            while isinstance(t, ast.UnaryOp) and isinstance(t.op, ast.Not):
                neg, t = not neg, t.operand
            truth = None
            if isinstance(t, ast.Compare) and len(t.ops) == 1 and isinstance(t.comparators[0], ast.Constant) and t.comparators[0].value is None and val(t.left, cp) in ('NEW', 'OLD'):
                truth = isinstance(t.ops[0], (ast.IsNot, ast.NotEq))          # both are not None
            elif val(t, cp) in ('NEW', 'OLD'):
                truth = True                                                    # truthiness of a container object
            if truth is None:
                return None
            return val(e.body if (truth != neg) else e.orelse, cp)
        if isinstance(e, ast.BoolOp) and isinstance(e.op, ast.Or):
            return val(e.values[0], cp) if val(e.values[0], cp) in ('NEW', 'OLD') else None
        return None
    for mname in ('start', 'run'):
        f = prog.resolve_method(acc, mname)
        if f is None or f.cls is not acc:
            continue
        cps = [p for p in f.params if p != 'self']
        if not cps:
            continue
        cp = cps[0]
        sts = [s_ for s_ in ast.walk(f.node) if isinstance(s_, ast.Assign) and any(self_attr(t) == 'container' for t in s_.targets)]
        key = f'{f.key}::container worked on'
        n += 1
        if len(sts) != 1:
            ctx.undecided('C09-D11', key, f'{len(sts)} bindings of self.container in {mname}()', f.where())
            continue
        v = val(sts[0].value, cp)
        if v is None:
            ctx.undecided('C09-D11', key, f'`{norm(sts[0])[:70]}` not understood', f.where(sts[0]))
        else:
            ctx.check(v == 'NEW', 'C09-D11', key, f'`{norm(sts[0])[:80]}`: when a container was already remembered it wins over the one passed to {mname}(): a second run() of the analysis re-accumulates the first '
                      'sets and never reads the new ones (the result is not the statistic of the concatenated sets)', f'{mname}() works on the container it is given', f.where(sts[0]))
    return n

def run(ctx, prog):
    from .. import universe as _uni0
    _uni0.inline_base_entry_points(ctx, prog)
    from .. import desugar as _ds
    ds_ = _ds.desugar_with(prog, ('scared.ttest',))
    if ds_:
        ctx.note(f'with-statements over repository context managers desugared to try/except/finally: {ds_}')
    ctx.rule('C09-D5', 'stop-request typestate: the accumulator clears its stop flag on every path before entering the batch loop')
    ctx.rule('C09-D1', 'the two accumulation threads share no writable object: distinct accumulators, stores only to self/locals, staticmethod kernel bound to instance arrays, shared container code writes no global/class state')
    ctx.rule('C09-D2', 'the kernel\'s prange stores are disjoint and it casts to the precision before reducing')
    ctx.rule('C09-D3', 'accumulators additive, first-call initialisation only, count += batch length once (C01 rules on the t-test accumulator)')
    ctx.rule('C09-D4', 'thread exceptions are stored, re-raised by join() on every path, and prevent the final _compute')
    ctx.assume('the value of the statistic (Welch t) is numeric and not decided; numpy/numba internals and the GIL-free kernel are trusted to touch only their arguments')
    k = d1(ctx, prog)
    res, n = kernelrules.prange_disjoint(prog, k)
    emit(ctx, 'C09-D2', res)
    res2, prec = kernelrules.precision_taint(prog, k)
    emit(ctx, 'C09-D2', res2)
    ctx.check(prec is not None, 'C09-D2', f'{k.key}::precision', 'the kernel takes no precision parameter', f'kernel casts with `{prec}`', k.where())
    # D3: C01 rules on the t-test unit, re-labelled
    sub = type(ctx)(ctx.prop, ctx.tier, ctx.seed)
    u = c01.Unit(prog.need_class(TT, 'TTestThreadAccumulator'))
    u.guard = c01.find_guard(prog, u)
    u.acc = universe.accumulators(prog, u.cls, u.init)
    entry = prog.resolve_method(u.cls, u.update)
    later, fl = c01.d3_d4(sub, prog, u, entry)
    closure = c01.closure_funcs(prog, fl, entry)
    c01.d1(sub, prog, u, later, fl, closure, universe.init_closure(prog, u.cls, u.init))
    for o in sub.obs:
        o.rule = 'C09-D3'
        ctx._add(o)
    # the count starts at 0 and compute() is refused exactly for the empty accumulator (C01-D4 on the t-test accumulator)
    consts_, other_ = universe.binding_constants(prog, u.count)
    tt_consts = set()
    for f_ in prog.funcs_in(TT):
        for t_, st_, how_ in kernels.stores(f_.node):
            if isinstance(t_, ast.Attribute) and t_.attr == u.count and how_ == 'bind' and not isinstance(st_, ast.AugAssign):
                tt_consts.add(st_.value.value if isinstance(st_.value, ast.Constant) else norm(st_.value))
    ctx.check(tt_consts == {0}, 'C09-D3', f'{u.cls.key}::{u.count} initial value', f'the accumulator\'s trace count is bound to {sorted(tt_consts, key=str)} before any batch: mean and variance are taken over a wrong count',
              'the trace count starts at 0', u.cls.mod.relpath)
    comp_ = prog.resolve_method(u.cls, 'compute')
    from .c15 import ceval as _ceval, Undecidable as _Und
    for n_ in ast.walk(comp_.node):
        if isinstance(n_, ast.Assert) and f'self.{u.count}' in norm(n_.test):
            try:
                acc_ = {k_: bool(_ceval(n_.test, {f'self.{u.count}': k_})) for k_ in (0, 1, 2, 5)}
                ctx.check(acc_ == {0: False, 1: True, 2: True, 5: True}, 'C09-D3', f'{comp_.key}::refusal without traces', f'`{norm(n_.test)}` accepts compute() for counts {sorted(k_ for k_, v_ in acc_.items() if v_)} '
                          f'out of 0, 1, 2, 5: it must refuse exactly the empty accumulator', 'compute() refused exactly when no trace was processed', comp_.where(n_))
            except _Und as e_:
                ctx.undecided('C09-D3', f'{comp_.key}::refusal without traces', f'guard not evaluable: {e_}', comp_.where(n_))
    # C09-D10: the accumulators have one entry per sample: allocated with the last (sample) extent of the batch
    ini_ = prog.resolve_method(u.cls, '_initialize')
    if ini_ is not None:
        bp_ = [p_ for p_ in ini_.params if p_ != 'self'][0]
        for st_ in ast.walk(ini_.node):
            if isinstance(st_, ast.Assign) and len(st_.targets) == 1 and self_attr(st_.targets[0]) in u.acc and isinstance(st_.value, ast.Call) and st_.value.args:
                shp_ = st_.value.args[0]
                shp_ = shp_.elts[0] if isinstance(shp_, (ast.Tuple, ast.List)) and len(shp_.elts) == 1 else shp_
                shp_ = astutil.expand_locals(shp_, astutil.local_defs(ini_.node))
                good_ = norm(shp_).replace(' ', '') in (f'{bp_}.shape[-1]', f'{bp_}.shape[1]')
                ctx.check(good_, 'C09-D10', f'{ini_.key}::self.{self_attr(st_.targets[0])} length', f'self.{self_attr(st_.targets[0])} is allocated with `{norm(st_.value.args[0])}`, not with the number of samples '
                          f'({bp_}.shape[-1]): the kernel indexes it by sample (out-of-bounds writes or a result of the wrong length when the batch is not square)', 'one accumulator entry per sample', ini_.where(st_))
    ctx.rule('C09-D10', 'the accumulators are allocated with the sample extent of the batch (the kernel indexes them by sample)')
    d4(ctx, prog)
    d5(ctx, prog)
    ctx.rule('C09-D7', 'the trace count of an accumulator is incremented after the kernel call: a batch the kernel refuses (implicit exception) is not counted')
    upd = prog.resolve_method(u.cls, u.update)
    for kind_, node_, text_ in kernelrules.count_after_last_call(upd, u.count):
        k7 = f'{upd.key}::count after the kernel'
        if kind_ == 'ok':
            ctx.ok('C09-D7', k7, text_, upd.where(node_))
        elif kind_ == 'bad':
            ctx.fail('C09-D7', k7, text_, upd.where(node_))
        else:
            ctx.undecided('C09-D7', k7, text_, upd.where())
    ctx.rule('C09-D8', 'every batch reaches the kernel as given or cast to the working precision: no conversion to a dtype remembered from an earlier batch / run')
    v8, t8, n8 = kernelrules.batch_passthrough(prog, upd, k, upd.params[1])
    k8 = f'{upd.key}::samples handed to the kernel'
    if v8 == 'ok':
        ctx.ok('C09-D8', k8, t8, upd.where(n8))
    elif v8 == 'bad':
        ctx.fail('C09-D8', k8, t8 + ': a later trace set with a wider dtype (int16 after uint8, float after integer) is wrapped / truncated, so repeated runs do not accumulate as if concatenated', upd.where(n8))
    else:
        ctx.undecided('C09-D8', k8, f'how the batch reaches the kernel is not understood: {t8}', upd.where(n8))
    ctx.rule('C09-D6', 'dimensional analysis: sum u n, sum_squared u^2 n, count n (from the kernel and update); mean u, var u^2 from homogeneous expressions; t statistic u^0 n^(1/2); each variance divided by the count of its own accumulator')
    ctx.floor('dimension obligations (t-test)', d6(ctx, prog, k), 4)
    ctx.rule('C09-D9', 'rational-function normal form: mean = S/n, var = Q/n - mean^2, t = (mean1 - mean2) / sqrt(var1/n1 + var2/n2) as a function of the accumulated sums and counts')
    ctx.floor('t statistic compared with its definition', d9(ctx, prog), 1)
    ctx.floor('prange loops in the t-test kernel', n, 1)
    ctx.floor('C01 obligations on the t-test accumulator', len(sub.obs), 6)
    ctx.rule('C09-D11', 'start() and run() of the accumulator work on the container they are given (a remembered container never wins over the argument)')
    ctx.floor('container bindings judged', d11(ctx, prog), 2)
