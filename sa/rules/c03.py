"""C03 - CPA / DPA: layout restored, undefined entries are NaN (never infinite).

D1 layout pair     update flattens data to (n, -1) remembering the original shape; compute restores
                   origin_shape[1:] + (-1,) (C order, trailing sample axis) for data with more than one word dimension.
D2 inf -> NaN      every _compute of the CPA/DPA family whose result depends on a division maps infinities to NaN before
                   returning (directly or piece by piece); siblings must agree.
D1' accumulator layout (exy (W,S) += dot(data.T (W,N), traces (N,S)) ...) is decided by the axis engine (c03 D3 below).
"""
import ast

from .. import infnan, universe, astutil, axes
from ..model import norm, AnalysisError, self_attr


def d2(ctx, prog, rule, modules):
    n = 0
    for f in prog.funcs:
        if f.name != '_compute' or f.cls is None or f.mod.name not in modules:
            continue
        from .. import inline
        res, has_div = infnan.judge_compute(inline.inlined(prog, f, skip={'_compute_metric'}), prog)
        if not has_div:
            continue
        n += 1
        for status, node, detail in res:
            key = f'{f.key}::{norm(node)[:100]}'
            (ctx.ok if status == 'ok' else ctx.fail)(rule, key, detail, f.where(node))
    return n


def d1(ctx, prog):
    dm = prog.need_class(*universe.DIST_BASE)
    upd = prog.resolve_method(dm, 'update')
    comp = prog.resolve_method(dm, 'compute')
    stmts = astutil.stmts_of(upd.node)
    # o = data.shape ; data = data.reshape((o[0], -1)) ; self.<marker> = o
    shape_var = None
    reshape = None
    stored = None
    dparam = 'data'
    for st in stmts:
        if isinstance(st, ast.Assign) and isinstance(st.targets[0], ast.Name) and norm(st.value) == f'{dparam}.shape' and reshape is None:
            shape_var = st.targets[0].id
        if isinstance(st, ast.Assign) and isinstance(st.targets[0], ast.Name) and st.targets[0].id == dparam and isinstance(st.value, ast.Call) \
                and norm(st.value.func) == f'{dparam}.reshape':
            reshape = st
        if isinstance(st, ast.Assign) and self_attr(st.targets[0]) and isinstance(st.value, ast.Name) and st.value.id == shape_var:
            stored = st
    key = f'{upd.key}::flatten'
    if reshape is None or shape_var is None or stored is None:
        ctx.undecided('C03-D1', key, 'flatten/remember-shape idiom of update() not recognised', upd.where())
        return
    arg = reshape.value.args[0] if len(reshape.value.args) == 1 else ast.Tuple(elts=reshape.value.args, ctx=ast.Load())
    # sizes read into locals before the reshape (`n, m = traces.shape[0], data.shape[0]`) stand for the expressions they were read from
    sizes = {}
    for st_ in stmts:
        if st_ is reshape:
            break
        if isinstance(st_, ast.Assign) and len(st_.targets) == 1:
            t_, v_ = st_.targets[0], st_.value
            pairs_ = [(t_, v_)] if isinstance(t_, ast.Name) else (list(zip(t_.elts, v_.elts)) if isinstance(t_, ast.Tuple) and isinstance(v_, ast.Tuple) and len(t_.elts) == len(v_.elts) else [])
            for x_, y_ in pairs_:
                if isinstance(x_, ast.Name) and isinstance(y_, ast.Subscript) and isinstance(y_.value, ast.Attribute) and y_.value.attr == 'shape':
                    sizes[x_.id] = y_
    arg = astutil.expand_locals(arg, sizes)
    txt = norm(arg).replace(' ', '')
    ctx.check(txt in (f'({shape_var}[0],-1)', f'({dparam}.shape[0],-1)'), 'C03-D1', key,
              f'data is flattened with reshape({norm(arg)}), not (n, -1): words are not kept one per column in C order',
              'data flattened to (n, -1), original shape remembered', upd.where(reshape))
    def c_order(call):
        return all(k.arg != 'order' or (isinstance(k.value, ast.Constant) and k.value.value == 'C') for k in call.keywords)
    ctx.check(c_order(reshape.value), 'C03-D1', key + ' order', f'`{norm(reshape.value)[:70]}` does not flatten in C order: with Fortran-ordered data the words are enumerated in '
              f'another order than compute() restores', 'flattened in C order', upd.where(reshape))
    marker = self_attr(stored.targets[0])
    # passes the flattened data on
    ctx.check(stmts.index(reshape) < min(i for i, s in enumerate(stmts) if any(isinstance(c, ast.Call) and norm(c.func) in ('self._initialize', 'self._update', 'self._check') for c in ast.walk(s))),
              'C03-D1', f'{upd.key}::flatten first', 'data is flattened after it was handed to _initialize/_check/_update', 'flattened before use', upd.where(reshape))
    # compute restores: every returned expression, with locals expanded, is either the bare _compute() result or that result
    # reshaped to the remembered word dimensions + (-1,), the latter exactly under "more than one word dimension"
    paths = astutil.return_paths(comp.node)
    key = f'{comp.key}::restore'
    if not paths:
        ctx.undecided('C03-D1', key, 'return paths of compute() not derivable', comp.where())
        return
    want = f'self.{marker}[1:]+(-1,)'
    n_restore = 0
    for guards, e in paths:
        if e is None:
            ctx.fail('C03-D1', key + ' value', 'compute() can return nothing', comp.where())
            continue
        g = [(norm(t).replace(' ', ''), pol) for t, pol in guards]
        several = any((t == f'len(self.{marker})>2' and pol) or (t in (f'len(self.{marker})<=2', f'len(self.{marker})<3') and not pol) or (t == f'len(self.{marker})>=3' and pol) for t, pol in g)
        single = any((t == f'len(self.{marker})>2' and not pol) or (t in (f'len(self.{marker})<=2', f'len(self.{marker})<3') and pol) or (t == f'len(self.{marker})>=3' and not pol) for t, pol in g)
        if isinstance(e, ast.Call) and isinstance(e.func, ast.Attribute) and e.func.attr == 'reshape':
            n_restore += 1
            a = e.args[0] if len(e.args) == 1 else None
            ctx.check(a is not None and norm(a).replace(' ', '') == want, 'C03-D1', key,
                      f'compute() reshapes the result to `{norm(a) if a is not None else "?"}`, not to {want}: the (...word dims..., sample) layout of the input is not restored',
                      f'result reshaped to {want}', comp.where())
            ctx.check(c_order(e), 'C03-D1', key + ' order', 'the restoring reshape is not in C order', 'restored in C order', comp.where())
            ctx.check(norm(e.func.value) == 'self._compute()', 'C03-D1', key + ' operand', f'the reshape is applied to `{norm(e.func.value)[:50]}`, not to the _compute() result', 'applied to self._compute()', comp.where())
            ctx.check(several and not single, 'C03-D1', key + ' condition', f'the restore is applied under {g}, not exactly when the data had more than one word dimension (len(origin shape) > 2)',
                      'restore applied when len(origin shape) > 2', comp.where())
        elif norm(e) == 'self._compute()':
            ctx.check(single or not several, 'C03-D1', key + ' plain', f'the bare _compute() result is returned under {g}: data with several word dimensions would not get its layout back',
                      'bare result returned when there is one word dimension', comp.where())
        else:
            ctx.undecided('C03-D1', key, f'compute() returns `{norm(e)[:70]}`: neither the _compute() result nor its restoring reshape', comp.where())
    ctx.check(n_restore >= 1, 'C03-D1', key + ' present', 'compute() never restores the word dimensions of the data', 'a restoring path exists', comp.where())


def d5(ctx, prog):
    """dimensional homogeneity: the accumulators get their dimensions from the update side (ex: u n, ex2: u^2 n, ey: v n, exy: u v n,
    count: n); every sum / difference in _compute combines equal dimensions; the correlation returned is dimensionless and does not
    scale with the number of traces (u^0 v^0 n^0); the DPA result is a difference of means (u^1 n^0, data being bits)."""
    from . import dims
    from .. import units
    ctx.rule('C03-D5', 'dimensional analysis of accumulate-then-compute: accumulator dimensions derived from _update (u = trace unit, v = data unit, n = trace count); every +/- in '
                       '_compute homogeneous; CPA result u^0 v^0 n^0 (scale free and invariant under duplication of the data set), DPA result u^1 n^0')
    n = 0
    cases = [('scared.distinguishers.cpa', 'CPADistinguisherMixin', {'u': 1, 'v': 1}, {}, 'a correlation'),
             ('scared.distinguishers.cpa', 'CPAAlternativeDistinguisherMixin', {'u': 1, 'v': 1}, {}, 'a correlation'),
             ('scared.distinguishers.dpa', 'DPADistinguisherMixin', {'u': 1, 'v': 0}, {'u': 1}, 'a difference of means')]
    for modname, cname, seed, want, what in cases:
        ci = prog.need_class(modname, cname)
        upd, comp = prog.resolve_method(ci, '_update'), prog.resolve_method(ci, '_compute')
        if upd is None or comp is None:
            raise AnalysisError(f'{cname}: _update/_compute not found')
        tp, dp = upd.params[1], upd.params[2]
        contrib, xu = dims.contributions(prog, upd, {tp: dims.U(u=seed['u']), dp: dims.U(v=seed['v'])}, {tp, dp})
        dims.report_mismatches(ctx, 'C03-D5', upd, xu)
        attrs = dict(contrib)
        attrs['processed_traces'] = dims.U(n=1)
        unknown = sorted(a for a, d in attrs.items() if d is units.TOP)
        key = f'{ci.key}::dimensions'
        if unknown or not contrib:
            ctx.undecided('C03-D5', key, f'dimensions of the accumulators {unknown or "(none found)"} not derivable from {upd.qualname}', upd.where())
            continue
        xc = units.Units(comp, attrs=attrs, prog=prog).run()
        n += 1 + len(contrib)
        nm = dims.report_mismatches(ctx, 'C03-D5', comp, xc)
        rets = [d for d, node in xc.returns]
        if not rets or any(d is units.TOP for d in rets):
            if not nm:
                ctx.undecided('C03-D5', key, f'dimension of the value returned by {comp.qualname} not derivable', comp.where())
            continue
        # dynamic range: the accumulators are of degree <= 2 in the data scale (u, v); an intermediate of higher degree (the product of
        # two variances before the square root, say) leaves the range of the working precision for data the accumulators still hold
        deg = lambda d_: sum(e_ for s_, e_ in d_.items() if s_ in ('u', 'v') and e_ > 0)    # noqa: E731
        top = max([deg(d_) for d_ in attrs.values() if isinstance(d_, dict)] + [2])
        over = [(node, d_) for node, d_ in getattr(xc, 'seen', []) if deg(d_) > top]
        ctx.check(not over, 'C03-D5', key + ' range', f'`{norm(over[0][0])[:70] if over else ""}` has dimension {units.show(over[0][1]) if over else ""}: degree {deg(over[0][1]) if over else 0} in the data scale, '
                  f'while the accumulators are of degree {top} at most - in float32 it overflows (inf, then a result of 0 or NaN) for data whose sums of squares are still representable',
                  f'no intermediate of {comp.qualname} exceeds degree {top} in the data scale', comp.where(over[0][0]) if over else comp.where())
        wantd = dims.U(**want)
        bad = [d for d in rets if d != wantd and d != units.CONST]
        ctx.check(not bad, 'C03-D5', key, f'{comp.qualname} returns a value of dimension {units.show(bad[0]) if bad else ""}; {what} has dimension {units.show(wantd)} '
                  f'(accumulators: {", ".join(f"{a}: {units.show(d)}" for a, d in sorted(attrs.items()))})',
                  f'result dimension {units.show(wantd)}; accumulators {", ".join(f"{a}: {units.show(d)}" for a, d in sorted(attrs.items()))}', comp.where())
    ctx.floor('dimension obligations (CPA/DPA)', n, 12)


def d6(ctx, prog):
    """degenerate entries: for a constant trace column (resp. constant data word) the variance term under each square root of the
    CPA computations cancels *exactly* (sa.exact), so the entry is 0/0 or x/0 -> NaN after the inf mapping, never a finite
    number produced by a rounding residue."""
    from .. import exact
    cpa = prog.need_mod('scared.distinguishers.cpa')
    n = 0
    for ci in cpa.classes and [prog.need_class('scared.distinguishers.cpa', c_) for c_ in cpa.classes]:
        f = ci.methods.get('_compute')
        if f is None or not ci.name.endswith('Mixin'):
            continue
        defs = astutil.local_defs(f.node)
        sq = [c for c in ast.walk(f.node) if isinstance(c, ast.Call) and norm(c.func).split('.')[-1] == 'sqrt' and len(c.args) == 1]
        for c in sq:
            arg = astutil.expand_locals(c.args[0], defs)
            reads = astutil.self_attrs_read(arg)
            for kind, s1, s2 in (('trace sample', 'ex', 'ex2'), ('data word', 'ey', 'ey2')):
                if not ({s1, s2} & reads):
                    continue
                n += 1
                key = f'{f.key}::constant {kind}: `{norm(c.args[0])[:60]}`'
                seeds = {'self.processed_traces': exact.V(1, 1, 0, exact.E), f'self.{s1}': exact.V(1, 1, 1, exact.E), f'self.{s2}': exact.V(1, 1, 2, exact.E)}
                try:
                    v = exact.evaluate(arg, seeds)
                except exact.Unknown as e:
                    ctx.undecided('C03-D6', key, f'cancellation for a constant column not derivable: {e}', f.where(c))
                    continue
                if v.st == exact.ZERO:
                    ctx.ok('C03-D6', key, f'for a constant {kind} the term is exactly 0 (both sides are the same real value, exact or rounded once): the entry is NaN', f.where(c))
                else:
                    ctx.fail('C03-D6', key, f'for a constant {kind} (value c, n traces) the two sides of `{norm(c.args[0])[:70]}` are the same real number n c^2 but one of them is computed from an '
                             f'already rounded intermediate (e.g. (n c)^2 before the division): the difference is a rounding residue, not 0, so the undefined entry comes out finite '
                             f'instead of NaN (float32, n c large)', f.where(c))
    return n


def bind_word_loop(st, evl):
    """`for d, (y, xy, c) in enumerate(zip(A, B, C))` / `for y, xy in zip(A, B)` / `for d in range(k)`: each target element stands for
    an element of the corresponding iterable (element-wise semantics)"""
    from .. import ratfun
    it, tg = st.iter, st.target
    if isinstance(it, ast.Call) and norm(it.func) == 'enumerate' and it.args and isinstance(tg, ast.Tuple) and len(tg.elts) == 2:
        it, tg = it.args[0], tg.elts[1]
    if isinstance(it, ast.Call) and norm(it.func) == 'zip' and isinstance(tg, ast.Tuple) and len(tg.elts) == len(it.args):
        for t_, a_ in zip(tg.elts, it.args):
            if isinstance(t_, ast.Tuple) and isinstance(a_, ast.Call) and norm(a_.func) == 'zip' and len(a_.args) == len(t_.elts):
                for t2_, a2_ in zip(t_.elts, a_.args):          # nested zip
                    if isinstance(t2_, ast.Name):
                        try:
                            evl.env[t2_.id] = evl.ev(a2_)
                        except ratfun.Unknown:
                            evl.env.pop(t2_.id, None)
                continue
            if isinstance(t_, ast.Name):
                try:
                    evl.env[t_.id] = evl.ev(a_)
                except ratfun.Unknown:
                    evl.env.pop(t_.id, None)
                    if isinstance(a_, ast.Name):
                        evl.alias[t_.id] = a_.id      # a row of a not yet filled output buffer: stores into the row fill the buffer
    elif isinstance(tg, ast.Name) and not (isinstance(it, ast.Call) and norm(it.func).split('.')[-1] in ('range', 'arange')):
        try:
            evl.env[tg.id] = evl.ev(it)
        except ratfun.Unknown:
            evl.env.pop(tg.id, None)


def d7(ctx, prog):
    """the statistic as a rational function of the accumulators (sa.ratfun): what each `_compute` returns, with locals substituted
    and element-wise semantics, must be *the same function* as Pearson's r = (n Sxy - Sx Sy) / (sqrt(n Sxx - Sx^2) sqrt(n Syy - Sy^2))
    (CPA, both formulations) and  S1/n1 - (S - S1)/(n - n1)  (DPA): equal squares by cross-multiplication of normal forms and equal
    sign of the covariance term.  Decides the formula itself - sign conventions, n versus n-1, swapped moments - for every input."""
    from .. import ratfun
    from ..ratfun import Poly, RF
    S = Poly.sym
    n_, ex, ex2, ey, ey2, exy = S('n'), S('ex'), S('ex2'), S('ey'), S('ey2'), S('exy')
    pearson = RF(n_ * exy - ex * ey, Poly.const(1), {})
    pa, pb = n_ * ex2 - ex * ex, n_ * ey2 - ey * ey
    pearson.roots = {pa.key(): (pa, -1), pb.key(): (pb, -1)}
    tot, ones, p1 = S('tot'), S('ones'), S('p1')
    dpa_ref = RF(ones * (n_ - p1) - (tot - ones) * p1, p1 * (n_ - p1), {})
    cases = [('scared.distinguishers.cpa', 'CPADistinguisherMixin', pearson, 'exy', {'self.processed_traces': 'n', 'self.ex': 'ex', 'self.ex2': 'ex2', 'self.ey': 'ey', 'self.ey2': 'ey2', 'self.exy': 'exy'},
              'Pearson r = (n Sxy - Sx Sy) / (sqrt(n Sxx - Sx^2) sqrt(n Syy - Sy^2))'),
             ('scared.distinguishers.cpa', 'CPAAlternativeDistinguisherMixin', pearson, 'exy', {'self.processed_traces': 'n', 'self.ex': 'ex', 'self.ex2': 'ex2', 'self.ey': 'ey', 'self.ey2': 'ey2', 'self.exy': 'exy'},
              'Pearson r'),
             ('scared.distinguishers.dpa', 'DPADistinguisherMixin', dpa_ref, 'ones', {'self.processed_traces': 'n', 'self.accumulator_traces': 'tot', 'self.accumulator_ones': 'ones', 'self.processed_ones': 'p1'},
              'mean of the traces whose bit is 1 minus mean of those whose bit is 0 = S1/n1 - (S - S1)/(n - n1)')]
    n = 0
    for modname, cname, ref, lead, seeds, what in cases:
        ci = prog.need_class(modname, cname)
        f = ci.methods.get('_compute')
        if f is None:
            ctx.undecided('C03-D7', f'{ci.key}::formula', '_compute not found', ci.mod.relpath)
            continue
        n += 1
        key = f'{f.key}::formula'
        try:
            from .. import inline as _inl
            def helper(call, f=f):
                r = prog.resolve(f.mod, call.func) if isinstance(call.func, (ast.Name, ast.Attribute)) else None
                if r and r[0] == 'func':
                    body = [s_ for s_ in r[1].node.body if not (isinstance(s_, ast.Expr) and isinstance(s_.value, ast.Constant))]
                    if len(body) == 1 and isinstance(body[0], ast.Return) and body[0].value is not None:
                        return [p_ for p_ in r[1].params if p_ != 'self'], body[0].value
                return None
            outs = ratfun.run_function(_inl.inlined(prog, f).node, seeds, bind_word_loop, helper)
            if not outs:
                raise ratfun.Unknown('no returned expression derivable')
            bad = None
            for v, st in outs:
                # generic accumulator values of real data sets (x = 1,2,4,9 ; y = 3,1,5,2 and a second set): variances positive
                pts = [{'n': 4, 'ex': 16, 'ex2': 102, 'ey': 11, 'ey2': 39, 'exy': 43, 'tot': 16, 'ones': 5, 'p1': 2},
                       {'n': 5, 'ex': 20, 'ex2': 120, 'ey': 9, 'ey2': 31, 'exy': 25, 'tot': 20, 'ones': 13, 'p1': 3}]
                ok, why = ratfun.same_function(v, ref, pts)
                if not ok:
                    bad = (st, why)
            if bad:
                ctx.fail('C03-D7', key, f'what {f.qualname} returns is not {what}: {bad[1]}', f.where(bad[0]))
            else:
                ctx.ok('C03-D7', key, f'the returned value is {what}, as a rational function of the accumulators (normal forms cross-multiplied)', f.where())
        except ratfun.Unknown as e:
            ctx.undecided('C03-D7', key, f'formula not derivable: {e}', f.where())
    return n


def run(ctx, prog):
    ctx.rule('C03-D1', 'update flattens data to (n,-1) and remembers the shape; compute restores origin_shape[1:] + (-1,) when there was more than one word dimension')
    ctx.rule('C03-D2', 'every CPA/DPA _compute depending on a division maps inf -> NaN before returning')
    ctx.rule('C03-D3', 'axis-label typing of CPA/DPA accumulation and compute: labels of +=, broadcasting, contraction and the returned (words, samples) layout are consistent')
    ctx.assume('the numeric value of the statistic (Pearson r, difference of means) is not decided; that an undefined entry is never *finite* is decided for the CPA variance terms under exactly representable accumulators (C03-D6: integer-valued inputs, sums below 2^24 in float32 / 2^53 in float64) and not beyond')
    from .. import universe as _uni
    _uni.inline_base_entry_points(ctx, prog)
    d1(ctx, prog)
    ctx.rule('C03-D7', 'rational-function normal form: each _compute returns Pearson r (CPA, alternative CPA) / the difference of class means (DPA) as a function of the accumulators: equal squares by cross-multiplication, equal sign of the covariance term')
    ctx.floor('statistics compared with their definition', d7(ctx, prog), 3)
    ctx.rule('C03-D6', 'for a constant column the variance term under each CPA square root cancels exactly (exact / rounded-once abstraction over n, c): undefined entries are NaN, not rounding residues')
    ctx.floor('CPA variance terms checked for exact cancellation', d6(ctx, prog), 4)
    n = d2(ctx, prog, 'C03-D2', {'scared.distinguishers.cpa', 'scared.distinguishers.dpa'})
    ctx.floor('_compute functions with divisions (CPA/DPA)', n, 3)
    # D4: all moments that enter the statistic are accumulated from the traces converted to the working precision
    from .. import kernelrules, kernels
    from ..model import self_attr
    ctx.rule('C03-D4', 'precision discipline: every reduction / product feeding a CPA or DPA accumulator runs on values cast to self.precision, so ex, ex2, exy (and the DPA '
                       'sums) come from the same converted copy: a moment summed in a narrow float dtype is inconsistent with the others (|r| > 1, NaN)')
    n4 = 0
    for f in prog.funcs:
        if f.mod.name in ('scared.distinguishers.cpa', 'scared.distinguishers.dpa') and f.name == '_update' and f.cls is not None:
            if not any(self_attr(t) for t, st, how in kernels.stores(f.node)):
                continue
            res, _ = kernelrules.precision_taint(prog, f, prec='self.precision')
            n4 += 1
            bad = [r for r in res if r[0] != 'ok']
            for status, construct, detail, where in res:
                (ctx.ok if status == 'ok' else ctx.fail)('C03-D4', construct, detail, where)
            if not res:
                ctx.ok('C03-D4', f'{f.key}::precision', 'no reduction or product runs on unconverted traces', f.where())
    ctx.floor('CPA/DPA accumulation functions under precision discipline', n4, 2)
    d5(ctx, prog)
    n3 = axes.check_family(ctx, prog, 'C03-D3', ['scared.distinguishers.cpa', 'scared.distinguishers.dpa'])
    ctx.floor('axis obligations (CPA/DPA)', n3, 20)
