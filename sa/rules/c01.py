"""C01 - incremental distinguishers are invariant to batch splitting; compute is read-only and idempotent.

D1 additive accumulation   every write to an accumulator on the update path is `+=`; its right side reads no
                           accumulator and no trace count; it is not conditioned on accumulators, the count, the batch
                           length or the trace loop index; each accumulator receives exactly one contribution on every
                           accepted path.
D3 first-call init only    accumulators are (re)bound only on the first-call branch; the first-call marker is stored on
                           every accepted first call.
D4 count bookkeeping       the trace count changes exactly once on every accepted path, by `+= <batch length>`.
D5 compute is read-only    in the compute closure nothing persistent is mutated: no accumulator/count/marker is rebound,
                           no in-place effect reaches an object that was not bound earlier in the same call (directly,
                           through an alias, a callee parameter or a kernel), layout toggles
                           `self.a = self.a.swapaxes(i, j)` cancel on every path.
D6 layering                nothing under scared/analysis stores an accumulator, the count or the marker.
D2 (contribution is a contraction over the trace axis) is decided by the axis typing engine, see c01 D2 below.
"""
import ast

from .. import flow, kernels, universe, alias, astutil, kernelrules
from ..model import norm, AnalysisError, self_attr, root_name
from .c16 import MUTATORS


_prec_done = set()


class Unit:
    def __init__(self, cls, update='update', init='_initialize', compute=('compute',), count='processed_traces'):
        self.cls, self.update, self.init, self.compute, self.count = cls, update, init, compute, count
        self.guard = None
        self.acc = {}


def units(prog):
    allc, concrete = universe.distinguisher_classes(prog)
    out = [Unit(c) for c in concrete]
    tt = prog.need_class('scared.ttest', 'TTestThreadAccumulator')
    out.append(Unit(tt))
    return out, concrete


def find_guard(prog, u):
    f = prog.resolve_method(u.cls, u.update)
    if f is None:
        raise AnalysisError(f'{u.cls.key} has no {u.update}')
    cands = []
    for n in ast.walk(f.node):
        if isinstance(n, ast.Try) and any(h.type is not None and 'AttributeError' in norm(h.type) for h in n.handlers):
            for st in n.body:
                if isinstance(st, ast.Expr) and isinstance(st.value, ast.Attribute) and norm(st.value.value) == 'self':
                    cands.append(st.value.attr)
        if isinstance(n, ast.Call) and norm(n.func) == 'hasattr' and len(n.args) == 2 and norm(n.args[0]) == 'self' \
                and isinstance(n.args[1], ast.Constant):
            cands.append(str(n.args[1].value))
    if not cands:
        return None
    if len(set(cands)) != 1:
        raise AnalysisError(f'first-call marker of {f.key} not recognised (candidates {cands})')
    return cands[0]


def keep_all(ev, fl):
    return ev[0] in ('store', 'call', 'raise', 'lstore')


def closure_funcs(prog, fl, entry):
    out = [entry]
    for k in sorted(fl.inlined):
        f = prog.by_key.get(k)
        if f is not None and f not in out:
            out.append(f)
    return out


def kernel_calls(prog, cls, f):
    """[(call node, [kernel Func])] in function f: direct self.kernel(...) calls and dispatch-variable calls."""
    out = []
    disp = {var: names for var, names, node, calls in kernels.dispatch_sites(prog, f)}
    for n in astutil.stmts_of(f.node):
        for c in ast.walk(n):
            if not isinstance(c, ast.Call):
                continue
            fn = c.func
            if isinstance(fn, ast.Attribute) and isinstance(fn.value, ast.Name) and fn.value.id == 'self':
                k = prog.resolve_method(cls, fn.attr)
                if k is not None and prog.numba_kind(k)[0]:
                    out.append((c, [k]))
            elif isinstance(fn, ast.Name) and fn.id in disp:
                ks = [prog.resolve_method(cls, nm) for nm in disp[fn.id]]
                if any(k is None for k in ks):
                    raise AnalysisError(f'dispatch candidates in {f.key} not resolvable')
                out.append((c, ks))
    # de-duplicate (ast.walk over statements visits nested statements' calls twice)
    seen, res = set(), []
    for c, ks in out:
        if id(c) not in seen:
            seen.add(id(c))
            res.append((c, ks))
    return res


# ---------------------------------------------------------------------------------------------- D1
def check_store_additive(ctx, rule, f, st, target, how, acc_names, forbidden_reads, cond_forbidden, label, extra_ok=False):
    """one accumulator store statement: shape, right side, guards. Returns True if it is a well-formed contribution."""
    key = f'{f.key}::{norm(st)[:140]}'
    where = f.where(st)
    if how != 'aug':
        ctx.fail(rule, key, f'{label}: accumulator written by plain assignment outside first-call initialisation '
                            f'(state after k batches would not be the sum of the batch contributions)', where)
        return False
    if not isinstance(st.op, ast.Add):
        ctx.fail(rule, key, f'{label}: accumulator updated with {type(st.op).__name__}, not +=', where)
        return False
    bad = forbidden_reads(st.value)
    if bad:
        ctx.fail(rule, key, f'{label}: contribution reads {sorted(bad)} (running state): the term depends on the history', where)
        return False
    pm = astutil.parents(f.node)
    for test, pol in astutil.guards_ext(st, pm):
        badc = cond_forbidden(test)
        if badc:
            ctx.fail(rule, key, f'{label}: update conditioned on {sorted(badc)} in `{norm(test)[:80]}`', where)
            return False
    ctx.ok(rule, key, f'{label}: additive contribution', where)
    return True


def d1(ctx, prog, u, fl_paths, fl, closure, init_funcs):
    rule = 'C01-D1'
    acc = set(u.acc)
    state_attrs = acc | {u.count}
    n_stores = 0
    per_acc_sites = {a: [] for a in acc}    # accumulator -> site ids of events that contribute
    for f in closure:
        if f in init_funcs:
            continue
        batch_params = set(f.params) - {'self'}

        def forbidden_reads(e, f=f):
            return {a for a in astutil.value_self_attrs_read(e) if a in state_attrs}

        def cond_forbidden(e, f=f, batch_params=batch_params):
            bad = {'self.' + a for a in astutil.value_self_attrs_read(e) if a in state_attrs}
            if astutil.contains(e, lambda n: astutil.is_shape0(n, batch_params)):
                bad.add('batch length')
            return bad
        for t, st, how in kernels.stores(f.node):
            a = self_attr(t)
            if a in acc:
                n_stores += 1
                h = how if isinstance(t, ast.Attribute) or how == 'aug' else 'bind'
                if isinstance(t, ast.Subscript) and how == 'bind':
                    h = 'bind'
                if check_store_additive(ctx, rule, f, st, t, h, acc, forbidden_reads, cond_forbidden, f'{u.cls.name}.{a}'):
                    per_acc_sites[a].append(id(st))
        # precision discipline of plain numpy accumulation: reductions feeding an accumulator held in self.precision
        prec_accs = {a for a in acc if any(k.arg == 'dtype' and norm(k.value) == 'self.precision' for k in u.acc[a][1].value.keywords)}
        if any(self_attr(t) in prec_accs for t, st, how in kernels.stores(f.node)) and f.key not in _prec_done:
            _prec_done.add(f.key)
            res, _ = kernelrules.precision_taint(prog, f, prec='self.precision')
            for status, construct, detail, where in res:
                (ctx.ok if status == 'ok' else ctx.fail)('C01-D7', construct, detail, where)
        # kernels
        for call, ks in kernel_calls(prog, u.cls, f):
            for k in ks:
                amap = kernels.call_arg_map(k, call)
                bound = {p: self_attr(a) for p, a in amap.items() if self_attr(a) in acc and isinstance(a, ast.Attribute)}
                if not bound:
                    continue
                written = kernels.written_params(k)
                trace_params = {p for p, a in amap.items() if isinstance(a, ast.Name) and a.id in batch_params}
                loopvars = set()
                for n in ast.walk(k.node):
                    if isinstance(n, ast.For) and isinstance(n.target, ast.Name) and isinstance(n.iter, ast.Call) \
                            and n.iter.args and astutil.is_shape0(n.iter.args[-1] if len(n.iter.args) == 1 else n.iter.args[1], trace_params) \
                            and norm(n.iter.func).split('.')[-1] in ('range', 'arange'):
                        loopvars.add(n.target.id)
                wset = set(written)

                def k_forbidden(e, wset=wset):
                    return {x for x in astutil.value_names_read(e) if x in wset}

                # batch aggregates: locals computed by reducing batch-derived arrays (counts / sums over the traces of the batch)
                batch_derived = set(trace_params) | {p for p, a in amap.items() if isinstance(a, ast.Name) and a.id in batch_params}
                aggregates = set()
                for _ in range(2):
                    for n in ast.walk(k.node):
                        if isinstance(n, ast.Assign) and len(n.targets) == 1 and isinstance(n.targets[0], ast.Name):
                            reads = astutil.names_read(n.value)
                            if reads & (batch_derived | aggregates):
                                red = any(isinstance(c, ast.Call) and norm(c.func).split('.')[-1] in ('sum', 'any', 'all', 'count_nonzero', 'max', 'min', 'mean', 'len')
                                          for c in ast.walk(n.value))
                                (aggregates if red or (reads & aggregates) else batch_derived).add(n.targets[0].id)

                def harmless_empty_test(e, aggregates=aggregates):
                    """`count == 0` / `count < 1` / `not mask.any()`: skipping an empty selection skips a zero contribution"""
                    if isinstance(e, ast.Compare) and len(e.ops) == 1 and isinstance(e.left, ast.Name) and e.left.id in aggregates:
                        c = __import__('sa.model', fromlist=['const_value']).const_value(e.comparators[0])
                        return (isinstance(e.ops[0], ast.Eq) and c == 0) or (isinstance(e.ops[0], ast.Lt) and c == 1) or (isinstance(e.ops[0], ast.LtE) and c == 0)
                    if isinstance(e, ast.UnaryOp) and isinstance(e.op, ast.Not):
                        return isinstance(e.operand, ast.Name) and e.operand.id in aggregates or \
                            (isinstance(e.operand, ast.Call) and norm(e.operand.func).split('.')[-1] == 'any')
                    return False

                def k_cond(e, wset=wset, loopvars=loopvars, trace_params=trace_params, aggregates=aggregates):
                    bad = {x for x in astutil.value_names_read(e) if x in wset}
                    if not harmless_empty_test(e):
                        bad |= {x + ' (a count/aggregate over the traces of this batch)' for x in astutil.names_read(e) if x in aggregates}
                    bad |= {x + ' (trace loop index)' for x in astutil.names_read(e) if x in loopvars}
                    if astutil.contains(e, lambda n: astutil.is_shape0(n, trace_params)):
                        bad.add('batch length')
                    return bad
                for p, a in bound.items():
                    sts = written.get(p, [])
                    for st in sts:
                        n_stores += 1
                        t = st.target if isinstance(st, ast.AugAssign) else st.targets[0]
                        how = 'aug' if isinstance(st, ast.AugAssign) else 'bind'
                        check_store_additive(ctx, rule, k, st, t, how, acc, k_forbidden, k_cond,
                                             f'{u.cls.name}.{a} (kernel parameter {p})')
                    if sts:
                        per_acc_sites[a].append(id(call))
    # exactly-one contribution on every accepted path
    site_of = {}
    for i, (sf, sn) in enumerate(fl.sites):
        site_of[i] = id(sn)
    pm_cache = {}
    for a in sorted(acc):
        ids = set(per_acc_sites[a])
        key = f'{u.cls.key}::accumulator {a}'
        if not ids:
            ctx.fail(rule, key, f'no additive contribution to accumulator {a} found on the update path of {u.cls.name}',
                     u.acc[a][0].where(u.acc[a][1]))
            continue
        in_loop = False
        for i, (sf, sn) in enumerate(fl.sites):
            if id(sn) in ids:
                pm = pm_cache.setdefault(sf.key, astutil.parents(sf.node))
                if astutil.loops(sn, pm):
                    in_loop = True
        counts = set()
        mech = set()
        for p in fl_paths:
            if p.outcome != flow.NORMAL:
                continue
            hit = [site_of[ev[3]] for ev in p.events if site_of[ev[3]] in ids and ev[0] in ('store', 'call')]
            counts.add(len(hit))
            mech.add(len(set(hit)))
        if mech - {0, 1}:
            ctx.fail(rule, key, f'{u.cls.name}: accumulator {a} is fed by {max(mech)} different statements / kernels on one accepted path: the batch is counted more than once '
                                f'(e.g. counted by the caller and again inside the kernel the timings selected)', u.acc[a][0].where(u.acc[a][1]))
        elif in_loop and 0 not in mech:
            ctx.ok(rule, key, f'{u.cls.name}: one contributing statement for {a} on every accepted path (it sits in a loop: per-iteration term)')
        elif counts == {1}:
            ctx.ok(rule, key, f'{u.cls.name}: exactly one contribution to {a} on each of the accepted paths')
        else:
            ctx.fail(rule, key, f'{u.cls.name}: accumulator {a} receives {sorted(counts)} contributions depending on the path '
                                f'(a batch may be skipped or counted twice)', u.acc[a][0].where(u.acc[a][1]))
    return n_stores


# ---------------------------------------------------------------------------------------------- D3 / D4
def d3_d4(ctx, prog, u, entry):
    acc = set(u.acc)
    if u.guard is None:
        fl = flow.Flow(prog, u.cls, keep=keep_all)
        paths = fl.run(entry)
        for p in paths:
            for ev in p.events:
                if p.outcome == flow.NORMAL and ev[0] == 'store' and ev[1] in acc and ev[2] == 'bind':
                    ctx.fail('C01-D3', f'{fl.func_of(ev).key}::{fl.text(ev)[:120]}',
                             f'{u.cls.name}: no first-call marker guards the initialisation: accumulator {ev[1]} is re-bound on '
                             f'every update (state of earlier batches lost)', fl.where(ev))
                    return paths, fl
        raise AnalysisError(f'first-call marker of {entry.key} not recognised')
    # later calls: marker present
    fl = flow.Flow(prog, u.cls, keep=keep_all)
    later = fl.run(entry, facts=[('A:' + u.guard, True)])
    key = f'{u.cls.key}::later calls'
    bad = []
    for p in later:
        for ev in p.events:
            if ev[0] == 'store' and ev[1] in acc and ev[2] in ('bind', 'del'):
                bad.append(ev)
    if bad:
        ev = bad[0]
        ctx.fail('C01-D3', f'{fl.func_of(ev).key}::{fl.text(ev)[:120]}',
                 f'{u.cls.name}: accumulator {ev[1]} is re-bound on a call that is not the first one (state of earlier batches lost)',
                 fl.where(ev))
    else:
        ctx.ok('C01-D3', key, f'{u.cls.name}: with the marker {u.guard} present no path re-binds an accumulator ({len(later)} paths)')
    # first call: marker absent
    fl1 = flow.Flow(prog, u.cls, keep=keep_all)
    first = fl1.run(entry, facts=[('A:' + u.guard, False)])
    key = f'{u.cls.key}::first call'
    okp = [p for p in first if p.outcome == flow.NORMAL]
    if not okp:
        raise AnalysisError(f'no accepted first-call path found in {entry.key}')
    miss = []
    for p in okp:
        b = {ev[1] for ev in p.events if ev[0] == 'store' and ev[2] == 'bind'}
        if u.guard not in b:
            miss.append(u.guard)
        miss += sorted(acc - b)
    if miss:
        ctx.fail('C01-D3', key, f'{u.cls.name}: an accepted first call leaves {sorted(set(miss))} unbound '
                                f'(marker not stored => next batch re-initialises; accumulator missing => state undefined)',
                 entry.where())
    else:
        ctx.ok('C01-D3', key, f'{u.cls.name}: every accepted first call binds the marker {u.guard} and all of {sorted(acc)}')
    # D4 on both kinds of call
    key = f'{u.cls.key}::{u.count}'
    problems = []
    n = 0
    for p in later + first:
        if p.outcome != flow.NORMAL:
            continue
        n += 1
        evs = [ev for ev in p.events if ev[0] == 'store' and ev[1] == u.count]
        f_ = fl if p in later else fl1
        if len(evs) != 1:
            problems.append(f'{len(evs)} changes of {u.count} on an accepted path')
            continue
        node = f_.node_of(evs[0])
        if not (isinstance(node, ast.AugAssign) and isinstance(node.op, ast.Add)
                and astutil.is_shape0(astutil.expand_locals(node.value, astutil.local_defs(entry.node)), set(entry.params) - {'self'})):
            problems.append(f'{u.count} changed by `{norm(node)[:80]}`, not `+= <batch>.shape[0]`')
    if problems:
        ctx.fail('C01-D4', key, f'{u.cls.name}: ' + '; '.join(sorted(set(problems))), entry.where())
    else:
        ctx.ok('C01-D4', key, f'{u.cls.name}: the count changes exactly once, by the batch length, on each of {n} accepted paths')
    return later, fl


# ---------------------------------------------------------------------------------------------- D5
_stored_cache = {}


def attr_stored_anywhere(prog, name):
    if '_stored_attrs' not in prog.__dict__:
        out = set()
        for f in prog.funcs:
            for t, st, how in kernels.stores(f.node):
                if isinstance(t, ast.Attribute):
                    out.add(t.attr)
        prog.__dict__['_stored_attrs'] = out
    return name in prog.__dict__['_stored_attrs']


def swap_toggle(node, prog=None, f=None):
    """a layout toggle `self.X = <axis permutation of self.X>` -> (X, op) with op = ('swap', i, j) | ('perm', tuple) | ('T',), else None.
    Recognised permutations: .swapaxes(i, j), np.swapaxes(self.X, i, j), .transpose(perm) / .transpose(*perm), np.transpose(self.X,
    perm), .T, np.moveaxis(self.X, a, b) with literal arguments or module-level literal tuples."""
    if not (isinstance(node, ast.Assign) and len(node.targets) == 1 and isinstance(node.targets[0], ast.Attribute) and norm(node.targets[0].value) == 'self'):
        return None
    tgt = norm(node.targets[0])
    v = node.value

    def lit(e):
        c = const_lit(e)
        if c is None and isinstance(e, ast.Name) and prog is not None and f is not None:
            n_ = f.mod.assigns.get(e.id)
            c = const_lit(n_) if n_ is not None else None
        return c

    def const_lit(e):
        try:
            return ast.literal_eval(e)
        except Exception:
            return None
    if isinstance(v, ast.Attribute) and v.attr == 'T' and norm(v.value) == tgt:
        return node.targets[0].attr, ('T',)
    if not isinstance(v, ast.Call) or not isinstance(v.func, ast.Attribute):
        return None
    name = v.func.attr
    if norm(v.func.value) == tgt:
        args = v.args
    elif v.args and norm(v.args[0]) == tgt and norm(v.func.value) in ('_np', 'np', 'numpy'):
        args = v.args[1:]
    else:
        return None
    vals = [lit(a) for a in args]
    if name == 'swapaxes' and len(vals) == 2 and all(isinstance(x, int) for x in vals):
        return node.targets[0].attr, ('swap',) + tuple(sorted(vals))
    if name == 'transpose':
        if not vals:
            return node.targets[0].attr, ('T',)
        p_ = vals[0] if len(vals) == 1 and isinstance(vals[0], (tuple, list)) else vals
        if all(isinstance(x, int) for x in p_) and sorted(p_) == list(range(len(p_))):
            return node.targets[0].attr, ('perm', tuple(p_))
    if name == 'moveaxis' and len(vals) == 2 and all(isinstance(x, int) and x >= 0 for x in vals):
        return node.targets[0].attr, ('move', vals[0], vals[1])
    return None


def _as_perm(op, n):
    """numpy convention: result axis k is source axis perm[k]"""
    if op[0] == 'perm':
        return list(op[1]) if len(op[1]) == n else None
    if op[0] == 'T':
        return list(range(n))[::-1]
    if op[0] == 'swap':
        i_, j_ = op[1], op[2]
        i_, j_ = (i_ if i_ >= 0 else n + i_), (j_ if j_ >= 0 else n + j_)
        if not (0 <= i_ < n and 0 <= j_ < n):
            return None
        p_ = list(range(n))
        p_[i_], p_[j_] = p_[j_], p_[i_]
        return p_
    if op[0] == 'move':
        a_, b_ = op[1], op[2]
        if not (a_ < n and b_ < n):
            return None
        p_ = [k for k in range(n) if k != a_]
        p_.insert(b_, a_)
        return p_
    return None


def push_toggle(stack, op):
    """cancel `op` against the pending layout changes when their composition is the identity"""
    if stack and stack[-1] == op and op[0] in ('swap', 'T'):
        stack.pop()
        return
    if stack:
        ranks = [len(o[1]) for o in (stack[-1], op) if o[0] == 'perm']
        cand = ranks or [2, 3, 4]
        res = set()
        for n in cand:
            a, b = _as_perm(stack[-1], n), _as_perm(op, n)
            if a is None or b is None:
                res.add(None)
                continue
            comp = [a[k] for k in b]           # apply a, then b
            res.add(comp == list(range(n)))
        if res == {True}:
            stack.pop()
            return
    stack.append(op)


def d5(ctx, prog, cls, entries, acc, count, guard, extra_protected=(), rule='C01-D5'):
    protected = set(acc) | {count, guard} | set(extra_protected)
    n_eff = 0
    for en in entries:
        entry = prog.resolve_method(cls, en)
        if entry is None:
            raise AnalysisError(f'{cls.key} has no {en}')
        fl = flow.Flow(prog, cls, keep=keep_all)
        paths = fl.run(entry)
        closure = closure_funcs(prog, fl, entry)
        missing = sorted(n[5:] for n in fl.opaque_calls if n.startswith('self.') and '.' not in n[5:]
                         and not attr_stored_anywhere(prog, n[5:]))
        if missing:
            ctx.note(f'{cls.name}.{en} calls self.{missing[0]}(), which no class of its MRO defines: the class cannot '
                     f'compute on its own (abstract in effect); compute closure not judged for it')
            ctx.count('incomplete_classes_skipped', 1)
            continue
        summ = alias.Summaries(prog, cls)
        envs = {f.key: alias.local_env(prog, f, summ, cls) for f in closure}
        callsites = {}     # callee key -> [(caller Func, call)]
        for f in closure:
            c = alias.Classifier(prog, f, envs[f.key], summ, cls)
            for n in alias.walk_no_nested(f.node):
                if isinstance(n, ast.Call):
                    callee = c.resolve(n)
                    if callee is not None:
                        callsites.setdefault(callee.key, []).append((f, n))

        def roots_to_attrs(f, cl, depth=0):
            """-> (set of self attrs possibly aliased, unknown flag)"""
            if cl == alias.FRESH or cl == ('int',):
                return set(), False
            if cl == alias.UNKNOWN or cl is None:
                return set(), True
            attrs, unk = set(), False
            for r in cl[1]:
                if r.startswith('self.'):
                    attrs.add(r[5:])
                elif r.startswith('param:'):
                    pname = r[6:]
                    if pname == 'self':
                        unk = True
                        continue
                    sites = callsites.get(f.key, [])
                    if not sites or depth > 3:
                        if f is entry:
                            continue        # parameter of the entry point: caller-owned, not instance state
                        unk = True
                        continue
                    for caller, call in sites:
                        amap = kernels.call_arg_map(f, call, skip_self=(f.cls is not None and not any(
                            norm(d) == 'staticmethod' for d in f.node.decorator_list)))
                        a = amap.get(pname)
                        if a is None:
                            continue
                        c2 = alias.Classifier(prog, caller, envs[caller.key], summ, cls)
                        a2, u2 = roots_to_attrs(caller, c2.classify(a), depth + 1)
                        attrs |= a2
                        unk |= u2
            return attrs, unk

        verdicts = {}   # construct key -> (status, detail, where)

        def report(ev, status, detail):
            f, n = fl.sites[ev[3]]
            key = f'{f.key}::{norm(n)[:140]}'
            prev = verdicts.get(key)
            if prev is None or (prev[0] == 'ok' and status != 'ok') or (prev[0] == 'undecided' and status == 'bad'):
                verdicts[key] = (status, detail, f.where(n))

        toggle_bad = {}
        for p in paths:
            bound = set()
            toggles = {}
            for ev in p.events:
                kind, name, how, site = ev
                f, node = fl.sites[site]
                if kind == 'store':
                    n_eff += 1
                    tg = swap_toggle(node, prog, f) if how == 'bind' else None
                    if tg:
                        push_toggle(toggles.setdefault(tg[0], []), tg[1])
                        report(ev, 'ok', f'layout toggle of {tg[0]} {tg[1]}')
                        continue
                    if how in ('bind', 'del'):
                        if name in protected:
                            report(ev, 'bad', f'compute re-binds protected state attribute {name}')
                        else:
                            bound.add(name)
                            report(ev, 'ok', f'derived output {name} (re)bound')
                    else:
                        if name in bound:
                            report(ev, 'ok', f'in-place update of {name}, bound earlier in the same call')
                        else:
                            report(ev, 'bad', f'compute mutates self.{name} in place ({how}); it was not bound earlier in this call, '
                                              f'so the next compute/update sees changed state')
                elif kind == 'lstore' and how in ('aug', 'sub', 'subaug', 'deep'):
                    n_eff += 1
                    cl = envs.get(f.key, {}).get(name)
                    if cl is None and name in f.params:
                        cl = alias.alias({'param:' + name})
                    attrs, unk = roots_to_attrs(f, cl)
                    hit = sorted(a for a in attrs if a not in bound)
                    if hit:
                        report(ev, 'bad', f'in-place write to local `{name}` which may share memory with self.{hit[0]} '
                                          f'(class {cl}); compute would modify persistent state')
                    elif unk:
                        report(ev, 'undecided', f'cannot classify the storage written through local `{name}` ({cl})')
                    else:
                        report(ev, 'ok', f'in-place write to local `{name}`: fresh storage')
                elif kind == 'call' and isinstance(node, ast.Call):
                    fn = node.func
                    targets = set()
                    if isinstance(fn, ast.Attribute) and fn.attr in MUTATORS:
                        v = fn.value
                        while isinstance(v, ast.Subscript):
                            v = v.value
                        if isinstance(v, ast.Attribute) and norm(v.value) == 'self':
                            targets.add(v.attr)
                        elif isinstance(v, ast.Name):
                            cl = envs.get(f.key, {}).get(v.id)
                            a2, u2 = roots_to_attrs(f, cl) if cl is not None else (set(), False)
                            targets |= a2
                    for c, ks in kernel_calls(prog, cls, f):
                        if c is node:
                            for k in ks:
                                amap = kernels.call_arg_map(k, node)
                                for prm in kernels.written_params(k):
                                    a = amap.get(prm)
                                    if a is not None and self_attr(a):
                                        targets.add(self_attr(a))
                    for kwd in node.keywords:
                        if kwd.arg == 'out' and self_attr(kwd.value):
                            targets.add(self_attr(kwd.value))
                    hit = sorted(t for t in targets if t not in bound)
                    if targets:
                        n_eff += 1
                        if hit:
                            report(ev, 'bad', f'call mutates self.{hit[0]} in place during compute')
                        else:
                            report(ev, 'ok', 'call mutates only objects bound earlier in this call')
            for a, stack in toggles.items():
                if stack:
                    toggle_bad[a] = (stack, p.outcome)
        for key, (status, detail, where) in sorted(verdicts.items()):
            if status == 'ok':
                ctx.ok(rule, key, f'{cls.name}.{en}: {detail}', where)
            elif status == 'bad':
                ctx.fail(rule, key, f'{cls.name}.{en}: {detail}', where)
            else:
                ctx.undecided(rule, key, f'{cls.name}.{en}: {detail}', where)
        tkey = f'{cls.key}::{en} layout toggles'
        if toggle_bad:
            a, (stack, outc) = sorted(toggle_bad.items())[0]
            ctx.fail(rule, tkey, f'{cls.name}.{en}: layout toggle of {a} not cancelled on a path ending {outc}: residual {stack} '
                                 f'(the accumulator keeps a swapped layout for the next update/compute)', entry.where())
        else:
            ctx.ok(rule, tkey, f'{cls.name}.{en}: all layout toggles cancel on each of {len(paths)} paths')
        ctx.count('compute_paths', len(paths))
    return n_eff


# ---------------------------------------------------------------------------------------------- run

def d10(ctx, prog):
    """the batches are read-only for the distinguishers: no update path (update, _check, _initialize, _update, _accumulate, the kernels they
    dispatch to) writes into storage that its caller passed in as traces / data (ownership engine, call effects mapped through
    the kernels' parameters).  Feeding the same arrays again - another batching of the same history - must see the same values."""
    from .. import alias, universe
    allc, concrete = universe.distinguisher_classes(prog)
    n = 0
    seen = set()
    for ci in concrete + universe.mixin_classes(prog):
        eff = alias.Effects(prog, ci)
        for mname in ('update', '_check', '_initialize', '_update', '_accumulate'):
            f = prog.resolve_method(ci, mname)
            if f is None or (f.key, ci.key) in seen:
                continue
            seen.add((f.key, ci.key))
            if f.key in {k for k, _ in seen if False}:
                continue
            batch_params = {p for p in f.params if p in ('traces', 'data')}
            if not batch_params:
                continue
            n += 1
            bad = []
            for st, desc, cl in eff.writes(f):
                if cl in (alias.FRESH, alias.UNKNOWN, None) or cl[0] != 'alias':
                    continue
                hit = sorted(r[6:] for r in cl[1] if r.startswith('param:') and r[6:] in batch_params)
                if hit:
                    bad.append((st, desc, hit))
            key = f'{f.key}::batch arrays read-only'
            if (f.key, 'reported') in seen:
                continue
            if bad:
                seen.add((f.key, 'reported'))
                st, desc, hit = bad[0]
                ctx.fail('C01-D10', key, f'{desc} (`{norm(st)[:70]}`) writes into the caller\'s `{hit[0]}` array: the batch is changed by being processed, so the same array fed again '
                         '(another batching of the same traces, a second distinguisher) no longer holds the same values', f.where(st))
            else:
                ctx.ok('C01-D10', key, 'no write reaches the storage of the traces / data arguments', f.where())
    return n

def run(ctx, prog):
    ctx.rule('C01-D1', 'every accumulator write on the update path is `+=` of a term that reads no running state, is not '
                       'conditioned on running state / batch length / trace index, and happens exactly once per accepted path')
    ctx.rule('C01-D3', 'accumulators are bound only on the first-call branch; the first-call marker and all accumulators are bound on every accepted first call')
    ctx.rule('C01-D4', 'the trace count changes exactly once per accepted path, by += batch length')
    ctx.rule('C01-D5', 'the compute closure has no persistent effect: no protected attribute rebound, no in-place effect on '
                       'objects not bound in the same call (direct, via alias, parameter or kernel), layout toggles cancel')
    ctx.rule('C01-D6', 'no function under scared/analysis stores an accumulator, the count or the marker')
    ctx.assume('floating-point rounding differences between summation orders are not bounded (numeric, not decided)')
    ctx.assume('implicit exceptions inside numpy/numba calls are not modelled')
    _prec_done.clear()
    ctx.rule('C01-D7', 'plain numpy accumulation: every reduction/product feeding an accumulator held in self.precision operates on '
                       'values cast to self.precision (otherwise per-batch partial sums are rounded/overflow in the traces\' dtype and '
                       'the result depends on the split)')
    from .. import universe as _uni
    _uni.inline_base_entry_points(ctx, prog)
    us, concrete = units(prog)
    all_acc = set()
    total_stores = 0
    total_acc = 0
    guards = set()
    for u in us:
        u.guard = find_guard(prog, u)
        if u.guard:
            guards.add(u.guard)
        u.acc = universe.accumulators(prog, u.cls, u.init)
        if not u.acc:
            raise AnalysisError(f'no accumulator discovered for {u.cls.key}')
        total_acc += len(u.acc)
        all_acc |= set(u.acc)
        entry = prog.resolve_method(u.cls, u.update)
        later, fl = d3_d4(ctx, prog, u, entry)
        closure = closure_funcs(prog, fl, entry)
        init_funcs = universe.init_closure(prog, u.cls, u.init)
        total_stores += d1(ctx, prog, u, later, fl, closure, init_funcs)
        d5(ctx, prog, u.cls, u.compute, u.acc, u.count, u.guard or '')
        ctx.count('classes', 1)
    # t-test analysis object: its _compute reads both accumulators
    tta = prog.need_class('scared.ttest', 'TTestAnalysis')
    d5(ctx, prog, tta, ('_compute',), {}, 'processed_traces', 'accumulators')
    ctx.unit('accumulators_per_class', {u.cls.name: sorted(u.acc) for u in us})
    # D6
    state = all_acc | {'processed_traces'} | guards
    n6 = 0
    for f in prog.funcs:
        if not f.mod.name.startswith('scared.analysis'):
            continue
        for t, st, how in kernels.stores(f.node):
            node = t
            while isinstance(node, ast.Subscript):
                node = node.value
            if isinstance(node, ast.Attribute) and node.attr in state:
                n6 += 1
                ctx.fail('C01-D6', f'{f.key}::{norm(st)[:120]}',
                         f'analysis layer writes distinguisher state attribute {node.attr}', f.where(st))
    if n6 == 0:
        ctx.ok('C01-D6', 'scared.analysis::*', f'no store to any of {len(state)} state attributes in {len([f for f in prog.funcs if f.mod.name.startswith("scared.analysis")])} analysis-layer functions')
    # D2: the contribution has the accumulator's layout (no trace axis survives) - axis typing of initialise/update
    ctx.rule('C01-D2', 'axis-label typing of _initialize/_update of every family: each accumulator update has the accumulator\'s '
                       'layout and is obtained from the batch by contracting/reducing the trace axis N')
    from .. import axes
    n2 = axes.check_family(ctx, prog, 'C01-D2', ['scared.distinguishers.cpa', 'scared.distinguishers.dpa', 'scared.distinguishers.partitioned',
                                                 'scared.distinguishers.mia', 'scared.distinguishers.template'])
    ctx.floor('axis obligations (all families)', n2, 100)
    ctx.floor('accumulating classes', len(us), 23)
    ctx.floor('accumulators discovered', total_acc, 60)
    # D4 (initial value and compute guard): the count starts at 0 wherever it is bound, and compute() is refused exactly when it is 0
    counts = {u.count for u in us}
    for cnt in sorted(counts):
        consts, other = universe.binding_constants(prog, cnt)
        k0 = f'{cnt}::initial value'
        if other:
            f_, st_ = other[0]
            ctx.undecided('C01-D4', k0, f'`{norm(st_)[:60]}` binds the count to a value that is not a constant at every call site', f_.where(st_))
        else:
            ctx.check(consts == {0}, 'C01-D4', k0, f'the trace count is bound to {sorted(consts, key=str)} before any batch: every mean / normalisation is then taken over a count that is off by that value',
                      'the trace count starts at 0 wherever it is bound', '')
    from .c15 import ceval as _ceval, Undecidable as _Und
    guard_sites = 0
    for u in us:
        comp = prog.resolve_method(u.cls, 'compute') if u.compute != 'compute' else prog.resolve_method(u.cls, u.compute)
        if comp is None or ('guard', comp.key) in _prec_done:
            continue
        _prec_done.add(('guard', comp.key))
        tests = [n.test for n in ast.walk(comp.node) if isinstance(n, ast.Assert) and f'self.{u.count}' in norm(n.test)] + \
                [n.test for n in ast.walk(comp.node) if isinstance(n, ast.If) and f'self.{u.count}' in norm(n.test) and any(isinstance(b, ast.Raise) for b in n.body)]
        for t in tests:
            guard_sites += 1
            kg = f'{comp.key}::refusal without traces `{norm(t)[:50]}`'
            is_assert = any(isinstance(n, ast.Assert) and n.test is t for n in ast.walk(comp.node))
            try:
                vals = {k: bool(_ceval(t, {f'self.{u.count}': k})) for k in (0, 1, 2, 5)}
                accept = {k: (v if is_assert else not v) for k, v in vals.items()}
                ctx.check(accept == {0: False, 1: True, 2: True, 5: True}, 'C01-D4', kg, f'`{norm(t)}` accepts compute() for counts {sorted(k for k, v in accept.items() if v)} out of 0, 1, 2, 5: it must refuse '
                          f'exactly the empty state (a result after a single trace, or a division by a zero count, otherwise)', 'compute() is refused exactly when no trace was processed', comp.where(t))
            except _Und as e:
                ctx.undecided('C01-D4', kg, f'guard not evaluable: {e}', comp.where(t))
    ctx.floor('compute guards on the trace count', guard_sites, 1)
    # D8: kernels selected per call by timing may each handle some batches of one history: they must be interchangeable
    ctx.rule('C01-D8', 'accumulation kernels selectable at one dispatch site agree on parameters, written parameters and call arguments, and each guards the lookup sentinel before any index use: whichever kernel handles a batch, the contribution is the same')
    from .. import kernelrules as _kr, lut as _lut
    from .c11 import emit as _emit, dispatch_functions as _dfs
    _lk = _lut.Lookup(prog)
    n8 = 0
    for owner_, f_ in _dfs(prog):
        res_, sites_ = _kr.sibling_agreement(prog, owner_, f_)
        _emit(ctx, 'C01-D8', res_)
        for var_, names_, node_, calls_ in sites_:
            for nm_ in names_:
                k_ = prog.resolve_method(owner_, nm_)
                if k_ is None:
                    continue
                n8 += 1
                mp_ = _lk.maybe_params(k_)
                r_, arrays_ = _kr.sentinel_discipline(prog, k_, mp_)
                _emit(ctx, 'C01-D8', r_)
                if not r_:
                    ctx.ok('C01-D8', f'{k_.key}::foreign values', 'the lookup output is compared with class positions only / guarded before index use')
    ctx.floor('dispatch alternatives cross-checked', n8, 4)
    ctx.floor('accumulator store statements judged', total_stores, 60)
    from .. import kernelvalues as _kv
    ctx.floor('kernel value cases interpreted', _kv.clause(ctx, prog, 'C01-D9', ('partitioned', 'template')), 20)
    ctx.rule('C01-D10', 'the batches are read-only: no update path (kernels included) writes into the storage of its traces / data arguments')
    ctx.floor('update-path functions judged for writes to the batch', d10(ctx, prog), 10)
